// compiling twin of toi_clone_fail: differs only in the offending expression
fn dup(t: flute::sender::Toi) -> flute::sender::Toi {
    t
}
fn main() {
    let _ = dup;
}
