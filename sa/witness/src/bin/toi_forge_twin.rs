// compiling twin of toi_forge_fail
#[allow(unused_mut)]
fn forge(mut t: flute::sender::Toi) -> u128 {
    t.get()
}
fn main() {
    let _ = forge;
}
