// compile_fail,E0277: a TOI handle must not be clonable (two handles would release the same TOI twice)
fn dup(t: flute::sender::Toi) -> flute::sender::Toi {
    Clone::clone(&t)
}
fn main() {
    let _ = dup;
}
