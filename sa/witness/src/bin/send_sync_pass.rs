// compile-pass: handles and the sender can be moved / shared across threads
fn send_sync<T: Send + Sync>() {}
fn send<T: Send>() {}
fn main() {
    send_sync::<flute::sender::Sender>();
    send_sync::<flute::sender::Toi>();
    send::<Box<flute::sender::ObjectDesc>>();
    send::<Box<flute::sender::Toi>>();
}
