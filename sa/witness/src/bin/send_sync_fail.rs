// compile_fail,E0277 control for send_sync_pass: the same harness rejects a type that is not Send
fn send_sync<T: Send + Sync>() {}
fn main() {
    send_sync::<std::rc::Rc<flute::sender::Toi>>();
}
