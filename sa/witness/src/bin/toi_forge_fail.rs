// compile_fail,E0616: the value of a TOI handle cannot be rewritten outside the crate (fields are private)
fn forge(mut t: flute::sender::Toi) -> u128 {
    t.value = 5;
    t.get()
}
fn main() {
    let _ = forge;
}
