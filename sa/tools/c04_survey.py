import sys, re, collections
sys.path.insert(0,'/verif/sa')
from flan import pp, ranges
prog=pp.load_program()
entries=['receiver::multireceiver::MultiReceiver::push','receiver::multireceiver::MultiReceiver::cleanup','receiver::receiver::Receiver::push','receiver::receiver::Receiver::push_data','receiver::receiver::Receiver::cleanup']
drops=[p for p in prog.funcs if re.search(r'as (std|core)::ops::Drop>::drop$',p) and re.search(r'receiver::',p)]
reach=prog.reachable_from(entries+drops)
pat=sys.argv[1] if len(sys.argv)>1 else '.'
for p in sorted(reach):
    f=prog.funcs[p]
    if f.derived or not re.search(pat,p): continue
    r=ranges.analyse(prog,f)
    for s in r.sites:
        if ranges._is_log(s.expn): continue
        dbg=any(e in ('debug_assert','debug_assert_eq','debug_assert_ne') for e in s.expn)
        if s.status!='AUTO' and not dbg and s.kind!='refcell':
            print("%s:%s %s | %s | %s | %s"%(s.sp[0].split('/')[-1],s.sp[1],p.split('::')[-1],s.kind,s.text[:100],s.detail[:110]))
