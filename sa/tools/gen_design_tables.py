#!/usr/bin/python3
"""Regenerates the machine-written appendices of DESIGN.md (between <!-- GEN:name:BEGIN --> / <!-- GEN:name:END --> markers):
  rules    - the rule sets as built (id, technique, statement, floor, instances on the current tree) from evidence/*.json
  seeded   - the seeded changes kept under /verif/seeded and the rule instances that report them
  mutants  - the checker self-test entries (sa/selftest/mutants.json)
Run after `./check all` so that the evidence files are current."""
import glob, json, os, re
V = "/verif"


def rules_table():
    out = []
    for p in sorted(glob.glob(V + "/evidence/C??.json")):
        d = json.load(open(p))
        pid = d["property_id"]
        cov = d["coverage"]
        out.append("**%s** — %d obligations examined, %d discharged on the current tree.\n" % (pid, cov.get("obligations", 0), cov.get("discharged", 0)))
        out.append("| rule | technique | statement | floor | instances |")
        out.append("|---|---|---|---|---|")
        for r in cov.get("rules", []):
            if "@" in r["rule"]:
                continue
            out.append("| %s | %s | %s | %s | %s |" % (r["rule"], r["kind"], r["statement"].replace("|", "\\|"), r["floor"], r["instances"]))
        nd = cov.get("not_decided") or []
        if nd:
            out.append("\nNot decided: " + "; ".join(nd) + ".")
        out.append("")
    return "\n".join(out)


def seeded_table():
    out = ["| id | change (file) | needs, to manifest | reported by (instance keys) | first run |", "|---|---|---|---|---|"]
    n = miss = 0
    for p in sorted(glob.glob(V + "/seeded/*/meta.json")):
        m = json.load(open(p))
        n += 1
        keys = []
        for prop, c in sorted(m["checks"].items()):
            if c["violation_keys"]:
                keys.append("%s: `%s`" % (prop, c["violation_keys"][0].replace("|", "\\|")) + (" (+%d)" % (len(c["violation_keys"]) - 1) if len(c["violation_keys"]) > 1 else ""))
            else:
                keys.append("%s: silent" % prop)
        first = m["initially"]
        if first == "missed":
            miss += 1
            first = "missed → " + m["strengthening"]
        out.append("| %s | %s (%s) | %s | %s | %s |" % (m["id"], m["title"], ", ".join(f.replace("src/", "") for f in m["files_touched"]),
                                                     m["needs_to_manifest"], "; ".join(keys), first.replace("|", "\\|")))
    out.append("")
    out.append("%d seeded changes kept; %d were missed by the rule set as it stood when the change was produced and led to the strengthening noted; all %d are reported now." % (n, miss, n))
    return "\n".join(out)


def mutants_table():
    ms = json.load(open(V + "/sa/selftest/mutants.json"))
    out = ["| id | property | expectation | edit |", "|---|---|---|---|"]
    for m in ms:
        e = m["edits"][0]
        exp = "must stay silent (behaviour-preserving)" if m.get("expect") == "silent" else "reported by %s" % m["expect_rule"]
        out.append("| %s | %s | %s | %s%s |" % (m["id"], m["property"], exp, e["file"].replace("src/", ""), " (+%d edits)" % (len(m["edits"]) - 1) if len(m["edits"]) > 1 else ""))
    out.append("")
    out.append("%d entries (%d expected silent)." % (len(ms), sum(1 for m in ms if m.get("expect") == "silent")))
    return "\n".join(out)


def main():
    p = V + "/DESIGN.md"
    s = open(p).read()
    for name, fn in (("rules", rules_table), ("seeded", seeded_table), ("mutants", mutants_table)):
        b, e = "<!-- GEN:%s:BEGIN -->" % name, "<!-- GEN:%s:END -->" % name
        if b in s and e in s:
            s = s[:s.index(b) + len(b)] + "\n" + fn() + "\n" + s[s.index(e):]
        else:
            print("marker %s missing" % name)
    open(p, "w").write(s)


if __name__ == "__main__":
    main()
