#!/usr/bin/python3
"""gen_baseline_shapes.py : record, for the reviewed tree (/repo HEAD), the struct layouts (field names and types per variant) and the
signatures of all functions, per feature configuration -> sa/tables/baseline_shapes.json.  Used by sa/flan/renames.py to recognise a renamed
private field or function in a later tree.  Run only when the rules have been re-confirmed against a new reviewed tree."""
import json, os, subprocess, sys
sys.path.insert(0, "/verif/sa")
from flan import facts

OUT = "/verif/sa/tables/baseline_shapes.json"
out = {"commit": subprocess.run(["git", "-C", "/repo", "rev-parse", "--short", "HEAD"], stdout=subprocess.PIPE, text=True).stdout.strip(),
       "adts": {}, "fns": {}}
for cfg in ["default", "cli", "optel", "openapi", "python"]:
    paths, th, cached = facts.build_facts("/repo", cfg)
    for crate, p in paths.items():
        d = json.load(open(p))
        for a in d["adts"]:
            key = crate + "|" + a["path"]
            out["adts"][key] = [[v["name"], [[f["name"], f["ty"]] for f in v["fields"]]] for v in a["variants"]]
        for f in d["functions"]:
            if f.get("kind") == "closure" or "{closure" in f["path"]:
                continue
            key = crate + "|" + f["path"]
            e = out["fns"].setdefault(key, {"sig": [l["ty"] for l in f["locals"][:f["argc"] + 1]], "cfgs": []})
            e["cfgs"].append(cfg)
        # who calls whom (statically resolved local calls; closures attributed to their enclosing function)
        local = set(f["path"] for f in d["functions"])
        for f in d["functions"]:
            caller = f["path"].split("::{closure")[0]
            for b in f["blocks"]:
                t = b["term"]
                if t["k"] == "call" and isinstance(t.get("func"), dict) and isinstance(t["func"].get("k"), dict):
                    fn = t["func"]["k"].get("fn") or {}
                    cp = fn.get("rpath") or fn.get("path")
                    if cp in local and cp != caller:
                        cs = out.setdefault("callers", {}).setdefault(crate + "|" + cp, [])
                        if caller not in cs:
                            cs.append(caller)
json.dump(out, open(OUT, "w"), indent=0, sort_keys=True)
print("adts", len(out["adts"]), "fns", len(out["fns"]))
