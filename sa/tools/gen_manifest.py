#!/usr/bin/python3
"""Generate /verif/MANIFEST.json from the per-property claim table below."""
import json, os
VERIF = os.path.dirname(os.path.dirname(os.path.dirname(os.path.abspath(__file__))))

CLAIMS = {
 "C01": ("refusal gate bound to the FileDesc's own OTI/object (MPT+WMC); per-scheme capacity constants fit the wire field; partition call agreement and RFC 5052 closed forms; Z written >= 1; metadata flow object -> FDT File -> writer metadata; decoding parameters only from packet / FDT; BlockWriter byte accounting, MD5 switch order, no feeding of the inflater after the content length; receive-once decision table; who may drop an entry of the receive-once registry (known finding F36 for ObjectsBeingTransferred FDTs); receiver block addressing; close-object flag never premature",
         "E2 structural rules over MIR (must-pass-through, who-may-call, slices, arm constants vs RFC widths), polynomial normal forms, E3 decision tables, E4 ranges",
         "byte-exact round trip, FEC/inflate/XML library behaviour and exactly-one-copy are NOT decided"),
 "C02": ("close-object flag accounts for every interleaved block, counts source symbols only (esi < k) and compares with the transfer length; symbol consumed before the flag acts, and the flag only ends an object that is attached to an FDT; duplicates neither overwrite nor count; decode thresholds over all orderings; the receiver's RS codec is built with the block's k and the OTI's parity count and symbol length; attach_fdt records the instance id before it opens the writer, replays the cached packets in reception order and flushes decoded blocks; the transfer counter behind the B flag counts completed transfers only",
         "E2 dependence/dominance rules + E3 decision tables over comparison orderings",
         "delivery for every loss pattern (liveness, MDS property of the RS library) is NOT decided"),
 "C03": ("MD5 gate before complete(); strict SBN order; first copy wins; every Completed object is entered in the registry that suppresses the rest of its own transfer (known finding F35 for no-cache objects); at most one terminal writer call over all entry orders (typestate); stale packets ignored; decoding parameters only from packet / FDT; BlockWriter byte accounting (trim to bytes_left, content-length limit, MD5 finalised on completion, MD5 switch decided before the BlockWriter is built)",
         "E2 dominance rules + E3 interprocedural typestate exploration",
         "equality of written bytes with the sender's bytes over all histories is NOT decided"),
 "C04": ("exhaustive inventory of panic-capable sites, loops, allocations and third-party calls reachable from the receiver entry points; each discharged by the range interpreter, reviewed in a table with re-checked guards (each precondition of the raptorq constructor as a dominating fact), or a known finding; failed / expired FDT instances are released (decision table over FDT states); the packet-cache byte counter is reset only where the cache was emptied",
         "E1 call-graph inventory + E4 range interpreter (intervals, lengths, option-ness, difference facts) + reviewed tables",
         "'a later valid session is still delivered', time and heap numbers are NOT decided; dependencies trusted beyond the listed preconditions"),
 "C05": ("filesystem sinks only in ObjectWriterFS::{open,error}; every sink path is dest.join(rel) behind a confinement check on rel, and the joined value derives from the value the check looked at; only created files are deleted",
         "E2 who-may-call + taint/sanitiser/sink dominance with a decision table over path::Component variants",
         "semantics of url::Url::path and symlinks inside the destination are NOT decided"),
 "C06": ("writer layout = reader layout = RFC layout bit by bit for EXT_FTI and FEC payload ids of 5 schemes, EXT_FDT (20-bit id range re-checked), EXT_CENC, EXT_TIME; first LCT word flags at their RFC 5651 positions with the right source (A <- close_session, B <- close_object) and CCI/TSI/TOI byte counts; width-class tables of the byte-count helpers and flag derivation; fixed-length extension boundary; NTP offset / scaling structure; inc_hdr_len bookkeeping; no lossy narrow shift",
         "E5 bit-provenance interpreter vs RFC tables + affine length forms + arm tables + E4 ranges",
         "value-dependent CCI/TSI/TOI widths, NTP arithmetic, RS GF(2^m) payload id are NOT decided"),
 "C07": ("all callers of block_partitioning / block_length agree on argument roles and widths; RaptorQ/Raptor readers rebuild B from F, Z, T; Z written from the same partition call and never 0 (range vs the reader's refusal); RFC 5052 closed forms (polynomial normal forms); the receiver partitions with the object's own OTI (File before instance)",
         "E2 argument provenance with expanded expression trees + polynomial normal forms + E4 ranges",
         "equality with RFC 5052 for all (L,E,B) is a numerical identity and NOT decided"),
 "C08": ("close-object flag sources (all blocks drained and nothing left to open / forced close / lone packet only for transfer length 0, debug-only guards not counted) and the stopped latch; byte threshold = transfer length; close-session constant; A/B flags at RFC positions on both sides; shard cursor and block counter only move by +1; shard creation (count, dispatch, roles, ESI = position, RS padding); stream reads (fill loop, Interrupted retried, rewind per transfer); block partitioning arguments derive from the object's own OTI and transfer length; transfer counter written only in done (+1) / init (reset under carousel)",
         "E2 dependence, dominance and who-writes-field rules",
         "payload slices and repair symbol counts are NOT decided"),
 "C09": ("who-may-call for the five ObjectWriter methods; typestate of the writer session over all orders and repetitions of the ObjectReceiver entry points followed by Drop; complete gated by is_completed+MD5 or zero length; writer created only when no session exists and FDT id / cenc / length / OTI are known, open only on StoreObject, MD5 switch decided before the BlockWriter; no leak primitives; decoding parameters only from packet / FDT (Null content encoding defaulted for TOI 0 only)",
         "E3 finite-domain interprocedural typestate interpreter with method summaries + E2 who-may-call",
         "'concatenated writes are a prefix of the content' (bytes) is NOT decided; user writers cannot re-enter the receiver"),
 "C10": ("instance id written only in new/publish, every stored value in [0,2^20-1] (initial value included), each queued instance followed by the increment and carrying the pre-increment id; metadata flow; Expires = ntp(now of this publication) + duration; last_publish recorded only after the instance was queued; renewal predicate shape and publish-before-pop; publish marks all files; list source by publish mode; every FEC scheme's OTI announced on FDT-Instance or on every File; receiver-side extraction order and sibling agreement; FDT bytes reach the parser unaltered",
         "E2 who-writes-field/pairing/dependence/fallback-order rules + E4 range of the assigned id",
         "XML well-formedness/escaping, set equality over histories and supersede timing are NOT decided"),
 "C11": ("FDT session polled first; object sessions emit only past the FDT-pending gate evaluated after get_next; FullFDT eligibility requires published; set_published only in publish and only after the instance is queued; auto-publish pairing",
         "E2 must-pass-through under assumptions, dominance, who-may-call",
         "interleavings as such are NOT decided (mechanism's necessary conditions only)"),
 "C12": ("transfer counters written only by done(+1)/init(reset under carousel); expiry, last-transfer and can-be-stopped predicates over all orderings (never-reset counter); requeue-or-forget decision table incl. membership test; no restart while elapsed <= interval (zero interval at a fixed instant); loop inventory on the read path",
         "E2 who-writes-field + E3 decision tables + loop classifier",
         "exact wire counts over histories and general termination are NOT decided"),
 "C13": ("ordered map iterated forwards with first Some winning; per-queue session count max(1, multiplex_files) fixed at construction; slot cursor advances before a packet is returned; FIFO queue mutators; interleave window guard; every object session yields while an FDT is pending",
         "E2 type facts, who-may-call over collection mutators, dominance",
         "fairness / readiness over time are NOT decided"),
 "C14": ("never-early gates of should_transfer_now over all orderings; reference time per carousel mode; last-transfer timestamps written only at transfer start/end, explicit reset only when not transferring; pacing gate dominates encoder.read and tick pairing; tick value; non-zero divisor for empty objects",
         "E3 decision tables + E2 must-pass-through/pairing/argument rules",
         "pacing accuracy ('first poll at or after due time') is NOT decided"),
 "C15": ("each width arm within its width and the masking is the last operation applied to every value stored in the cursor; cursor never 0 at exits; uniqueness mechanism (loop exit only on a free cursor, cursor written only inside the loop); ownership witnesses (compile_fail / compile-pass); TOI provenance to wire and FDT; O/H flags and TOI byte count in the LCT header; nb_bytes_128 width classes (no set bit of the TOI dropped)",
         "E4 ranges per arm and at exits + E2 + E5 (LCT first word) + E6 compile-fail witnesses built against the tree",
         "uniqueness over concrete histories only through the mechanism"),
 "C16": ("state Completed implies complete() delivered or ObjectAlreadyReceived (typestate over all entry orders); replay pairings incl. flush of blocks decoded before the FDT, attach ordering and replay of the packet cache in reception order; registry insert only under Completed; in-band Z / B from the same partition roles; every transfer start republishes in being-transferred mode; the instance offered to waiting objects is the one just completed; decoding parameters not frozen before the FDT; Expires of every instance based on the now of its own publication",
         "E3 typestate + E2 pairing/dominance",
         "delivery within two cycles for every join offset (liveness) is NOT decided"),
 "C17": ("inventory of growth calls on receiver registries each with a bound; cache counter grows by at least the cached datagram and is reset only where the cache was emptied; block allocation limit accounts in bytes in both arms; timeout clock refreshed only by packets of the object; cleanup decision table over FDT states and timeouts; cleanup covers every registry",
         "E2 who-may-call over growth methods + dominance/pairing + predicate inspection",
         "live heap bytes are NOT decided"),
 "C18": ("routing key provenance and derived Hash/Eq; filter gate before dispatch; open only on creation, every removal paired with close for the removed keys and close only for a session that existed, single evaluation of clock-reading predicates; sibling refcount shapes; the four filter calls hand their own (endpoint, tsi) to the matching TSIFilter method on every path and the filter's add/remove bookkeeping is symmetric; listener ids come from a counter that only grows",
         "E2 argument/type rules, must-pass-through under assumption, pairing, E3 decision table of is_valid",
         "isolation as behaviour and refcount arithmetic over sequences are NOT decided"),
 "C19": ("is_expired over all orderings; Expired only under enable_expired_check from Complete; both attach_fdt sites behind update_expired_state + Complete; skew sign consistency; Expires taken from the instance's own attribute as NTP seconds (upper half), None when unparsable; the sender clock the skew is computed from is read from EXT_TIME at its RFC 5651 bit positions, every valid flag combination accepted",
         "E3 decision table + E2 dominance/must-pass-through/argument rules + E5 bit provenance of EXT_TIME",
         "outcomes over all clock offsets (time arithmetic) are NOT decided"),
 "C20": ("stream block buffer filled by a loop on the object's own stream (no per-block buffering adaptor), Interrupted retried; every transfer rewinds and builds a fresh encoder; sibling block readers agree; stream length is the position seek(End(0)) reported, measured with the position restored; the close-object flag is decided from byte counts, not from the reader's state",
         "E2 loop rule, must-pass-through, sibling dominance/argument rules, dependence rule on the close flag",
         "equality of packet sequences for all chunkings is NOT decided"),
}

def main():
    checks = []
    for pid in sorted(CLAIMS):
        decided, technique, notdec = CLAIMS[pid]
        checks.append({
            "property_id": pid,
            "quick_cmd": "./check %s --tier quick" % pid,
            "thorough_cmd": "./check %s --tier thorough" % pid,
            "evidence_file": "/verif/evidence/%s.json" % pid,
            "replay_cmd_template": "./check %s --replay {path}" % pid,
            "engine": "flan",
            "level_claimed": {
                "category": "other",
                "text": "Static analysis of the MIR of /repo's current tree: the listed structural clauses are decided on every path / call site / "
                        "abstract state (" + decided + "). They are necessary conditions of the property, not the behaviour itself.",
                "design_ref": "DESIGN.md §4 " + pid,
            },
            "level_note": notdec + ". Trusted base: rustc nightly type check / MIR / callee resolution, the mirdump exporter, the flan rule engines, std models listed in DESIGN appendix E.",
            "technique": "static analysis: " + technique,
        })
    m = {
        "version": 1,
        "setup_cmd": "./setup.sh",
        "hooks": {"guard": "ypo_flute_verif", "enable": "none needed: the analyser reads the private modules from MIR; no hook is compiled into /repo",
                  "baseline_off_cmd": "cd /repo && cargo test --workspace --no-fail-fast --offline", "source_commits": [], "add_only": True},
        "engines": [
            {"name": "mirdump", "path": "sa/mirdump", "serves_properties": sorted(CLAIMS), "kind_free_text": "E0 rustc_private driver exporting MIR/ADT/impl facts as JSON (RUSTC_WORKSPACE_WRAPPER under cargo +nightly check)"},
            {"name": "flan", "path": "sa/flan", "serves_properties": sorted(CLAIMS), "kind_free_text": "E1 program model, E2 structural rules, E3 decision tables + typestate interpreter, E4 range interpreter, E5 bit provenance (pure-stdlib Python over the facts)"},
            {"name": "witness", "path": "sa/witness", "serves_properties": ["C15"], "kind_free_text": "E6 compile-fail / compile-pass witness crates checked with cargo +nightly check against the current tree"},
        ],
        "checks": checks,
        "not_applicable": [],
        "notes": "Every property is claimed only through named structural clauses; the behavioural cores that quantify over runtime values are listed as not decided in each check's level_note and in the evidence. Known findings: KNOWN_FINDINGS.txt. Genuine defects repaired by fix: commits in /repo are listed there as fixed:.",
    }
    with open(os.path.join(VERIF, "MANIFEST.json"), "w") as fh:
        json.dump(m, fh, indent=1)

if __name__ == "__main__":
    main()
