import sys
from flan import pp, ranges
prog=pp.load_program()
import re
for f in prog.find(sys.argv[1]):
    r=ranges.analyse(prog,f)
    print(f.path, len(r.sites))
    for s in r.sites:
        if ranges._is_log(s.expn): continue
        print("  %-5s %-16s %s  @%s  -- %s"%(s.status,s.kind,s.text[:90],s.sp[1] if s.sp else '?',s.detail[:100]))
    for l in r.lossy: print("  LOSSY",l)
