import sys, re
sys.path.insert(0,'/verif/sa')
from flan import pp, bits, model
from flan.cfg import Slicer
from flan.props import c06
prog=pp.load_program()
for f in prog.find(sys.argv[1]):
    print(f.path)
    for var in c06.writer_layouts(prog,f):
        print('   ', var)
