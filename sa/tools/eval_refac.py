#!/usr/bin/python3
"""eval_refac.py <ID> [variants…] : behaviour-preserving refactorings produced by sub-agents (stored under /verif/refactorings/<ID>/r*.patch;
REFAC_DIR overrides the directory) must leave EVERY check silent.  Each patch is applied to a scratch copy of /repo's current tree (mktemp, removed afterwards) and all 20 quick checks run on the
copy (./check Cxx --repo DIR).  Prints the properties whose check did not exit 0, with the first keys / error."""
import glob, os, shutil, subprocess, sys, tempfile
from concurrent.futures import ThreadPoolExecutor
pid = sys.argv[1]
RD = os.environ.get("REFAC_DIR", "/verif/refactorings")
vs = sys.argv[2:] or sorted(os.path.basename(p)[:-6] for p in glob.glob("%s/%s/[rstuv][0-9]*.patch" % (RD, pid)))
PROPS = os.environ["REFAC_PROPS"].split() if os.environ.get("REFAC_PROPS") else ["C%02d" % i for i in range(1, 21)]   # (REFAC_PROPS: only these checks)


def one(v):
    patch = "%s/%s/%s.patch" % (RD, pid, v)
    d = tempfile.mkdtemp(prefix="flan-refac-")
    out = []
    try:
        subprocess.run("git -C /repo archive HEAD src Cargo.toml | tar -x -C %s && cp /repo/Cargo.lock %s/" % (d, d), shell=True, check=True)
        r = subprocess.run(["git", "apply", "--directory", d, "--unsafe-paths", patch], cwd="/", stdout=subprocess.PIPE, stderr=subprocess.STDOUT, text=True)
        if r.returncode != 0:
            r = subprocess.run(["patch", "-p1", "-d", d, "-i", patch], stdout=subprocess.PIPE, stderr=subprocess.STDOUT, text=True)
            if r.returncode != 0:
                return v, ["PATCH DOES NOT APPLY: " + r.stdout[-200:]]
        for p in PROPS:
            r = subprocess.run(["/verif/check", p, "--tier", "quick", "--repo", d, "--evidence-dir", d + "/evidence"], stdout=subprocess.PIPE, stderr=subprocess.STDOUT, text=True)
            if r.returncode != 0:
                keys = [l.strip() for l in r.stdout.splitlines() if l.strip().startswith("key: ") or l.startswith("ERROR")]
                out.append("%s exit %d: %s" % (p, r.returncode, " ;; ".join(k[:170] for k in keys[:3])))
    finally:
        shutil.rmtree(d, ignore_errors=True)
    return v, out


with ThreadPoolExecutor(max_workers=int(os.environ.get("REFAC_JOBS", "6"))) as ex:
    for v, out in ex.map(one, vs):
        print("%s %s: %s" % (pid, v, ("all %d checks silent" % len(PROPS)) if not out else ""))
        for o in out:
            print("     " + o)
