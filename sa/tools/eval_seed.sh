#!/bin/sh
# eval_seed.sh <patch file> <property id...> : apply a seeded change to /repo, run the checks, undo it
patch=$1; shift
cd /repo || exit 2
if ! git apply --check "$patch" 2>/dev/null; then echo "PATCH DOES NOT APPLY: $patch"; exit 2; fi
git apply "$patch"
for p in "$@"; do
  out=$(cd /verif && ./check $p --evidence-dir ${SEED_EVID:-/tmp/seed-evidence} 2>&1)
  rc=$?
  echo "== $p rc=$rc"
  echo "$out" | grep "^  key: \|^ERROR\|^VIOLATION" | head -8 | cut -c1-260
done
git checkout -- .
git status --short | head -3
