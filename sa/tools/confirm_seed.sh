#!/bin/bash
# confirm_seed.sh <ID> <variant>  : confirm a seeded change in a scratch worktree (outside /repo and /verif)
#   demo passes on the clean tree; with the patch: builds, demo FAILS, existing suite passes. Writes /tmp/seeded-out/<ID>/confirm_<v>.txt
id=$1; v=$2
OUT=${SEED_OUT:-/tmp/seeded-out}; PFX=${SEED_PREFIX:-seeded}
wt=/tmp/confirm-wt-$id$v
out=$OUT/$id/confirm_$v.txt
export CARGO_TARGET_DIR=${CONFIRM_TARGET:-/tmp/confirm-target} CARGO_NET_OFFLINE=true TMPDIR=/tmp/confirm-tmp-$id$v
mkdir -p $TMPDIR
rm -rf $wt; git -C /repo worktree add -q --detach $wt HEAD || exit 2
cd $wt
demo=${PFX}_${id}_$v
cp $OUT/$id/$demo.rs tests/$demo.rs
{
echo "== clean tree: demo"
cargo test --offline --test $demo 2>&1 | grep -E "^test result|^error" | head -3
git apply $OUT/$id/$v.patch && echo "== patch applied"
echo "== build"; cargo build --offline 2>&1 | tail -1
echo "== patched: demo (expected to FAIL)"
cargo test --offline --test $demo 2>&1 | grep -E "^test result|^error" | head -3
echo "== patched: existing suite"
rm tests/$demo.rs
cargo test --workspace --no-fail-fast --offline 2>&1 | grep -E "^test result|FAILED|failed" | head -6
} > $out 2>&1
cd /; git -C /repo worktree remove --force $wt; rm -rf $TMPDIR
echo "confirmed $id $v: $(tr '\n' ' ' < $out | cut -c1-400)"
