#!/usr/bin/python3
"""move code that was appended after the last helper `def` back to the end of run() (marker = first line of the appended block)"""
import sys
p, marker = sys.argv[1], sys.argv[2]
L = open(p).read().split("\n")
i_r = [i for i, l in enumerate(L) if marker in l][0]
# the helper defs between end of run and the marker: find the first top-level def after `def run(`
i_run = [i for i, l in enumerate(L) if l.startswith("def run(")][0]
i_h = [i for i, l in enumerate(L) if i > i_run and i < i_r and (l.startswith("def ") or (l and not l[0].isspace() and not l.startswith("#")))]
if not i_h:
    print("nothing to move"); sys.exit(0)
i_h = i_h[0]
helper = L[i_h:i_r]; blk = L[i_r:]; pre = L[:i_h]
for x in (pre, helper, blk):
    while x and x[-1] == "": x.pop()
open(p, "w").write("\n".join(pre + [""] + blk + ["", ""] + helper + [""]))
print("moved %d lines" % len(blk))
