#!/usr/bin/python3
"""dbg.py <repo> <fn-suffix> [facts|mir] : developer aid — print edge facts / MIR of one function of a tree."""
import sys
sys.path.insert(0, "/verif/sa")
from flan import facts, model
from flan.cfg import Flow, show_fact
from flan.model import show


def load(repo, cfg="default", crate="flute"):
    paths, th, cached = facts.build_facts(repo, cfg)
    return model.Program(facts.load(paths[crate]))


if __name__ == "__main__":
    repo, suffix = sys.argv[1], sys.argv[2]
    what = sys.argv[3] if len(sys.argv) > 3 else "facts"
    prog = load(repo)
    for f in prog.funcs.values():
        if f.path.endswith(suffix) and f.body:
            print("==", f.path)
            fl = Flow(f.body)
            if what == "facts":
                for bb in range(len(f.body.blocks)):
                    for n in fl.succ(("b", bb)):
                        if n[0] == "e":
                            ef = fl.edge_facts(n)
                            if ef:
                                print("  ", n, "; ".join(show_fact(x) for x in ef))
            else:
                for bb, b in enumerate(f.body.blocks):
                    print("  bb%d" % bb)
                    for s in b.stmts:
                        print("     ", model.show_stmt(s) if hasattr(model, "show_stmt") else s)
                    print("      T:", b.term)
