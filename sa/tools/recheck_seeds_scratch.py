#!/usr/bin/python3
"""Like recheck_seeds.py, but every stored seeded change is applied to its own scratch copy of /repo's HEAD (mktemp, removed afterwards) and the
property's check runs with --repo on the copy, so /repo is never touched and the seeds can be evaluated in parallel.
usage: recheck_seeds_scratch.py [-j N] [id-prefix…]"""
import glob, json, os, shutil, subprocess, sys, tempfile
from concurrent.futures import ThreadPoolExecutor
args = sys.argv[1:]
jobs = 8
if args[:1] == ["-j"]:
    jobs = int(args[1]); args = args[2:]


def one(d):
    sid = os.path.basename(d)
    meta = json.load(open(d + "/meta.json"))
    patch = d + "/patch.diff"
    w = tempfile.mkdtemp(prefix="flan-seed-")
    try:
        subprocess.run("git -C /repo archive HEAD src Cargo.toml | tar -x -C %s && cp /repo/Cargo.lock %s/" % (w, w), shell=True, check=True)
        r = subprocess.run(["git", "apply", "--directory", w, "--unsafe-paths", patch], cwd="/", stdout=subprocess.PIPE, stderr=subprocess.STDOUT, text=True)
        if r.returncode != 0:
            r = subprocess.run(["patch", "-s", "-p1", "-d", w, "-i", patch], stdout=subprocess.PIPE, stderr=subprocess.STDOUT, text=True)
            if r.returncode != 0:
                return sid, "does-not-apply", ""
        r = subprocess.run(["/verif/check", meta["property"], "--tier", "quick", "--repo", w, "--evidence-dir", w + "/evidence"], stdout=subprocess.PIPE, stderr=subprocess.STDOUT, text=True)
        keys = [l.strip()[5:] for l in r.stdout.splitlines() if l.strip().startswith("key: ")]
        if r.returncode == 1 and keys:
            return sid, "reported", keys[0][:110]
        return sid, "NOT REPORTED (exit %d)" % r.returncode, r.stdout[-300:].replace("\n", " | ")
    finally:
        shutil.rmtree(w, ignore_errors=True)


ds = [d for d in sorted(glob.glob("/verif/seeded/*")) if os.path.isdir(d) and (not args or any(os.path.basename(d).startswith(o) for o in args))]
bad = 0
with ThreadPoolExecutor(max_workers=jobs) as ex:
    for sid, st, info in ex.map(one, ds):
        print("%-6s %s  %s" % (sid, st, info), flush=True)
        if st.startswith("NOT"):
            bad += 1
sys.exit(1 if bad else 0)
