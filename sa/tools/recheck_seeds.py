#!/usr/bin/python3
"""Regression of the checks against the stored seeded changes: for every /verif/seeded/<id>/patch.diff that still applies to /repo's
current tree: git apply, run the property's quick check (expect exit 1 with a VIOLATION line), git checkout -- .
Prints one line per seed; exit 1 if a seed that applies is no longer reported.  Never commits anything to /repo."""
import glob, json, os, subprocess, sys
bad = 0
only = sys.argv[1:] 
for d in sorted(glob.glob("/verif/seeded/*")):
    sid = os.path.basename(d)
    if only and not any(sid.startswith(o) for o in only):
        continue
    meta = json.load(open(d + "/meta.json"))
    patch = d + "/patch.diff"
    if subprocess.run(["git", "-C", "/repo", "apply", "--check", patch], stdout=subprocess.DEVNULL, stderr=subprocess.DEVNULL).returncode != 0:
        print("%-6s does-not-apply (tree moved on since %s)" % (sid, meta["confirmed_by_me"]["repo_head"]))
        continue
    subprocess.run(["git", "-C", "/repo", "apply", patch], check=True)
    try:
        r = subprocess.run(["/verif/check", meta["property"], "--tier", "quick", "--evidence-dir", "/tmp/seed-evidence"], stdout=subprocess.PIPE, stderr=subprocess.STDOUT, text=True)
    finally:
        subprocess.run(["git", "-C", "/repo", "checkout", "--", "."], check=True)
    keys = [l.strip()[5:] for l in r.stdout.splitlines() if l.strip().startswith("key: ")]
    if r.returncode == 1 and keys:
        print("%-6s reported  %s" % (sid, keys[0][:110]))
    else:
        bad += 1
        print("%-6s NOT REPORTED (exit %d) %s" % (sid, r.returncode, r.stdout[-300:].replace("\n", " | ")))
sys.exit(1 if bad else 0)
