#!/usr/bin/python3
"""store_seed.py <ID> <variant> <title> <needs> <initially: caught|missed> <strengthened-note>
Copies a confirmed seeded change from /tmp/seeded-out/<ID>/ to /verif/seeded/<ID><variant>/ and writes meta.json.
The `checks` part (which rule keys fire) is filled by running the property's check on /repo with the patch applied
(git apply … ; ./check ; git checkout -- .)."""
import json, os, re, shutil, subprocess, sys
pid, v, title, needs, initially, note = sys.argv[1:7]
src = "%s/%s" % (os.environ.get("SEED_OUT", "/tmp/seeded-out"), pid)
PFX = os.environ.get("SEED_PREFIX", "seeded")
dst = "/verif/seeded/%s%s" % (pid, v)
os.makedirs(dst, exist_ok=True)
shutil.copy(src + "/%s.patch" % v, dst + "/patch.diff")
demo = "%s_%s_%s.rs" % (PFX, pid, v)
shutil.copy(src + "/" + demo, dst + "/" + demo)
conf = open(src + "/confirm_%s.txt" % v).read()
# the agent's own notes for this variant
notes = open(src + "/notes.md").read()
parts = re.split(r"\n(?=## )", notes)
mine = [p for p in parts if re.match(r"## Variant %s\b" % v, p, re.I)]
open(dst + "/notes.md", "w").write((mine[0] if mine else notes) + "\n")
# run the checks
props = [pid] + [p for p in sys.argv[7:]]
subprocess.run(["git", "-C", "/repo", "apply", dst + "/patch.diff"], check=True)
checks = {}
try:
    for p in props:
        r = subprocess.run(["/verif/check", p, "--tier", "quick", "--evidence-dir", "/tmp/seed-evidence"], stdout=subprocess.PIPE, stderr=subprocess.STDOUT, text=True)
        keys = [l.strip()[5:] for l in r.stdout.splitlines() if l.strip().startswith("key: ")]
        checks[p] = {"exit": r.returncode, "violation_keys": keys}
finally:
    subprocess.run(["git", "-C", "/repo", "checkout", "--", "."], check=True)
files = sorted(set(re.findall(r"^\+\+\+ b/(\S+)", open(dst + "/patch.diff").read(), re.M)))
meta = {
    "id": pid + v, "property": pid, "variant": v, "title": title, "files_touched": files,
    "needs_to_manifest": needs,
    "demonstration": {"file": demo, "how": "copy to <worktree>/tests/ and run `cargo test --offline --test %s`" % demo[:-3]},
    "origin": "fresh sub-agent given only the property text and a scratch worktree of /repo (nothing from /verif)",
    "confirmed_by_me": {
        "how": "sa/tools/confirm_seed.sh %s %s: scratch worktree /tmp/confirm-wt-* at /repo HEAD; (1) demo on clean tree, (2) git apply patch, cargo build, demo, (3) demo removed, cargo test --workspace --no-fail-fast --offline; worktree removed afterwards" % (pid, v),
        "repo_head": subprocess.run(["git", "-C", "/repo", "rev-parse", "--short", "HEAD"], stdout=subprocess.PIPE, text=True).stdout.strip(),
        "output": conf.strip().splitlines(),
    },
    "checks": checks,
    "initially": initially,
    "strengthening": note,
}
json.dump(meta, open(dst + "/meta.json", "w"), indent=1)
print(pid + v, {p: (c["exit"], c["violation_keys"][:3]) for p, c in checks.items()})
