"""Reviewed-site tables for C04 (DESIGN §3: AUTO / TABLE / KNOWN).

SITES     exact site key -> reason (+ machine-checked `requires`, re-verified on every run)
FUNCS     function-level reviews: every open site of the function is covered by ONE argument (an object invariant), with a
          budget per site kind = the number of sites that were read; one site more than reviewed is a violation
ALLOCS    allocation sites -> the bound on the size operand
EXTERNAL  third-party callees -> the precondition that was read in the vendored source, and where it is established
LOOPS     loops / recursion -> progress argument
Keys do not contain line numbers."""

FIELD_RANGES = [
    # (ADT, field, lo, hi, why) — verified at every non-derived construction / assignment, then assumed at reads
    ("common::lct::LCTHeader", "len", 0, 1020, "HDR_LEN is one byte counting 32-bit words"),
]

SITES_LIST = []
FUNCS = {}
ALLOCS_LIST = []
EXTERNAL_LIST = []
LOOPS = {}


def site(key, why, requires=(), ordinal=None):
    SITES_LIST.append({"_key": key, "why": why, "requires": list(requires), "ordinal": ordinal})


def sites(funcs, tail, why, requires=()):
    """the same reviewed expression in several sibling functions (each named explicitly)"""
    for f in funcs:
        site("%s|%s" % (f, tail), why, requires)


def func(path, budget, why, requires=()):
    FUNCS[path] = {"_key": "func:" + path, "budget": dict(budget), "why": why, "requires": list(requires)}


def alloc(key, why, requires=()):
    ALLOCS_LIST.append({"_key": key, "why": why, "requires": list(requires), "ordinal": None})


def ext(key, why, requires=()):
    EXTERNAL_LIST.append({"_key": key, "why": why, "requires": list(requires), "ordinal": None})


import re as _re

_NOT_LOCAL = {"self", "as", "fn", "mut", "dyn", "str", "true", "false", "True", "False", "usize", "isize", "bool", "char",
              "u8", "u16", "u32", "u64", "u128", "i8", "i16", "i32", "i64", "i128", "f32", "f64"}
_TOK = _re.compile(r"(?<![\w.:])([a-z_][a-z0-9_]*)((?:~\d+)?)(?![\w(]|::)")


def shape(text):
    """key text with every bare local name replaced by `$` (in order of appearance) + the list of those names: a site keeps its shape when a
    local variable is renamed"""
    names = []

    def sub(m):
        if m.group(1) in _NOT_LOCAL:
            return m.group(0)
        names.append(m.group(1) + m.group(2))
        return "$"
    return _TOK.sub(sub, text), names


def rename_requires(reqs, mapping):
    """apply a local-variable renaming (table name -> current name) to the regexes of `requires` clauses"""
    if not mapping:
        return list(reqs)
    out = []
    for rq in reqs:
        new = []
        for i, x in enumerate(rq):
            if isinstance(x, str) and i > 0 and not x.startswith(("receiver::", "common::", "fec::", "tools::", "sender::", "<")):
                for old, cur in mapping.items():
                    x = _re.sub(r"(?<![\w.])%s(?![\w])" % _re.escape(_re.sub(r"~\d+$", "", old)), _re.sub(r"~\d+$", "", cur), x)
            new.append(x)
        out.append(tuple(new))
    return out


def lookup(table, base, n, used_shapes=None, _hoisted=False):
    for e in table:
        if e["_key"] == base and (e["ordinal"] is None or e["ordinal"] == n):
            return e
    if used_shapes is None:
        return None
    if not _hoisted and n is not None:
        # code shared by two methods through a new private helper (inlined into both): the site is the reviewed one of a sibling method of the
        # same impl (same kind, same text); its `requires` are evaluated at the new place
        bp = base.split("|", 2)
        if len(bp) == 3:
            par = _re.sub(r"::\w+$", "", bp[0])
            for e in table:
                ep = e["_key"].split("|", 2)
                if len(ep) == 3 and ep[1] == bp[1] and ep[2] == bp[2] and ep[0] != bp[0] and _re.sub(r"::\w+$", "", ep[0]) == par and par.startswith("<") \
                        and ("sib", id(e), bp[0]) not in used_shapes:
                    used_shapes.add(("sib", id(e), bp[0]))
                    e2 = dict(e)
                    e2["sibling"] = ep[0]
                    return e2
    if not _hoisted and _re.search(r"::\{closure#\d+\}\|", base):
        # a loop body turned into the closure of an iterator adaptor (`for x in v {..}` -> `v.iter().for_each(|x| ..)`): the site is the reviewed
        # one of the enclosing function (its `dom` requirements are then evaluated where the closure is built, see check_requires)
        e = lookup(table, _re.sub(r"(::\{closure#\d+\})+\|", "|", base, count=1), None, used_shapes, True)
        if e is not None and id(e) not in used_shapes:
            e2 = dict(e)
            e2["hoisted"] = True
            return e2
    # second chance: same function, same site kind, same text up to the names of local variables (each entry at most once per run)
    parts = base.split("|", 2)
    if len(parts) != 3:
        return None
    sh, cur_names = shape(parts[2])
    for e in table:
        ep = e["_key"].split("|", 2)
        if len(ep) != 3 or ep[0] != parts[0] or ep[1] != parts[1] or id(e) in used_shapes:
            continue
        esh, old_names = shape(ep[2])
        if esh != sh and esh.endswith("\u2026") and sh.endswith("\u2026"):
            # both texts were cut at the display width: a longer local label (`cci~2` for `cci`) moves the cut - compare the common part
            m_ = min(len(esh), len(sh)) - 6
            if m_ > 60 and esh[:m_] == sh[:m_]:
                k_ = min(esh[:m_].count("$"), sh[:m_].count("$"))
                if old_names[:k_] != cur_names[:k_] or True:
                    esh, sh_cmp, old_names, cur2 = sh, sh, old_names[:k_], cur_names[:k_]
                    if len(old_names) == len(cur2) and old_names != cur2:
                        mapping = {}
                        okm = all(mapping.setdefault(o, c) == c for o, c in zip(old_names, cur2))
                        if okm:
                            used_shapes.add(id(e))
                            e2 = dict(e)
                            e2["requires"] = rename_requires(e.get("requires", []), mapping)
                            e2["renamed"] = mapping
                            return e2
                    continue
        if esh == sh and len(old_names) == len(cur_names) and old_names != cur_names:
            mapping = {}
            okm = True
            for o, c in zip(old_names, cur_names):
                if mapping.setdefault(o, c) != c:
                    okm = False
            if not okm:
                continue
            used_shapes.add(id(e))
            e2 = dict(e)
            e2["requires"] = rename_requires(e.get("requires", []), mapping)
            e2["renamed"] = mapping
            return e2
    return None


SITES = SITES_LIST
ALLOCS = ALLOCS_LIST
EXTERNAL = EXTERNAL_LIST

CODEC = "<common::alccodec::%s as common::alccodec::AlcCodec>"
OR_T = "receiver::objectreceiver::ObjectReceiver"
ALCPKT_INV = [
    # AlcPkt { data, data_alc_header_offset = lct.len, data_payload_offset = lct.len + payload-id length } with
    # data_payload_offset <= data.len(): established by the guard in parse_alc_pkt, preserved by to_cache()/to_pkt() copies
    ("dom_ok", "common::alc::parse_alc_pkt", r"fec_payload_id_block_length \+ lct_header\.len\) <= len\(data\)|\(fec_payload_id_block_length \+ lct_header.len\) <= .*len"),
    ("constructed_in", "common::alc::AlcPkt", [r"^common::alc::parse_alc_pkt$", r"^common::alc::AlcPktCache.*::to_pkt$"]),
    ("constructed_in", "common::alc::AlcPktCache", [r"^common::alc::AlcPkt.*::to_cache$"]),
]
sites([CODEC % "alcnocode::AlcNoCode" + "::get_fec_inline_payload_id", CODEC % "alcraptor::AlcRaptor" + "::get_fec_inline_payload_id",
       CODEC % "alcraptorq::AlcRaptorQ" + "::get_fec_inline_payload_id", CODEC % "alcrs28::AlcRS28" + "::get_fec_inline_payload_id",
       CODEC % "alcrs28underspecified::AlcRS28UnderSpecified" + "::get_fec_inline_payload_id", CODEC % "alcrs2m::AlcRS2m" + "::get_fec_payload_id"],
      "index|Index<I> for [T]>::index(&pkt.data, Range::Range{start: pkt.data_alc_header_offset, end: pkt.data_payload_offset})",
      "AlcPkt invariant: data_alc_header_offset <= data_payload_offset <= data.len() (parse_alc_pkt rejects packets shorter than header + payload id; "
      "the cache copies data and offsets together)", ALCPKT_INV)
site("receiver::blockdecoder::BlockDecoder::push|index|Index<I> for [T]>::index(&pkt.data, RangeFrom::RangeFrom{start: pkt.data_payload_offset})",
     "AlcPkt invariant: data_payload_offset <= data.len()", ALCPKT_INV)
site("common::lct::get_ext|index|Index<I> for [T]>::index(&data, Range::Range{start: (lct.header_ext_offset as usize), end: lct.len})",
     "LCTHeader invariant from parse_lct_header: header_ext_offset <= len <= data.len() (both rejected otherwise); every caller passes the buffer the "
     "header was parsed from (pkt.data with &pkt.lct, or data with the header just parsed)",
     [("dom_ok", "common::lct::parse_lct_header", r"header_ext_offset <= \(len as u32\)"), ("dom_ok", "common::lct::parse_lct_header", r"len <= len\(data\)|len <= .*len\(&?data\)"),
      ("constructed_in", "common::lct::LCTHeader", [r"^common::lct::parse_lct_header$"])])
for nm in ("cci", "tsi", "toi"):
    pass
site("common::lct::parse_lct_header|copy_from_slice|<impl [T]>::copy_from_slice(&IndexMut<I> for [T; N]>::index_mut(&cci, RangeFrom::RangeFrom{start: ((16 - cci_len) as usize)}), &Index<I> for [T]>::index(&data, …",
     "both slices have length cci_len: dst = cci[16 - cci_len ..] of a [u8; 16], src = data[4 .. 4 + cci_len] (affine equality outside the difference-fact domain); "
     "cci_len <= 16 is guarded", [("dom", r"cci_len <= 16")])
site("common::lct::parse_lct_header|copy_from_slice|<impl [T]>::copy_from_slice(&IndexMut<I> for [T; N]>::index_mut(&tsi, RangeFrom::RangeFrom{start: ((8 - tsi_len) as usize)}), &Index<I> for [T]>::index(&data, R…",
     "both slices have length tsi_len: dst = tsi[8 - tsi_len ..] of a [u8; 8], src = data[cci_to .. cci_to + tsi_len]; tsi_len <= 8 is guarded",
     [("dom", r"tsi_len <= 8")])
site("common::lct::parse_lct_header|copy_from_slice|<impl [T]>::copy_from_slice(&IndexMut<I> for [T; N]>::index_mut(&toi, RangeFrom::RangeFrom{start: ((16 - toi_len) as usize)}), &Index<I> for [T]>::index(&data, …",
     "both slices have length toi_len: dst = toi[16 - toi_len ..] of a [u8; 16], src = data[tsi_to .. tsi_to + toi_len]; toi_len <= 16 is guarded",
     [("dom", r"toi_len <= 16")])
site("common::alc::parse_alc_pkt|Overflow(Add)|Overflow(Add)(fec_payload_id_block_length, lct_header.len)",
     "lct_header.len <= 1020 (field invariant R0) and the payload-id length is the constant 4 or 8 returned by the codec table", [], None)
site("common::alc::parse_sct|index|Index<I> for [T]>::index(&ext, Range::Range{start: 4, end: 8})",
     "ext.len() == 4 * (1 + sct_hi + sct_low + ert + slc) is checked first and sct_hi == 1 on this path, so len >= 8",
     [("dom", r"len\(&?ext\) == expected_len"), ("dom", r"!sct_hi == 0")])
site("common::alc::parse_sct|index|Index<I> for [T]>::index(&ext, Range::Range{start: 8, end: 12})",
     "same length check; this arm is taken only when sct_low == 1 and sct_hi == 1, so len >= 12",
     [("dom", r"len\(&?ext\) == expected_len"), ("dom", r"!sct_hi == 0"), ("dom", r"sct_low == 1")])

# ---- counters that grow by one per event ----------------------------------------------------------------------------------------
ONE_PER_EVENT = "incremented once per received symbol / block / FDT: 2^32..2^64 events are out of reach of any session"
site(CODEC[:0] + "<fec::nocode::NoCodeDecoder as fec::FecDecoder>::push_symbol|Overflow(Add)|Overflow(Add)(self.nb_symbols, 1)",
     "bounded by shards.len(): the increment is dominated by the empty-slot test (C02.R3)")
site("<fec::rscodec::RSGalois8Codec as fec::FecDecoder>::push_symbol|Overflow(Add)|Overflow(Add)(self.nb_encoding_symbols_received, 1)",
     "bounded by decode_shards.len() <= 256: the increment is dominated by the empty-slot test (C02.R3)")
site("<fec::rscodec::RSGalois8Codec as fec::FecDecoder>::push_symbol|Overflow(Add)|Overflow(Add)(self.nb_source_symbols_received, 1)",
     "bounded by decode_shards.len() <= 256 (same guard)")
site("receiver::blockwriter::BlockWriter::write|Overflow(Add)|Overflow(Add)(self.sbn, 1)",
     "one increment per block written in order; sbn equals the packet SBN (u32) on this path and the object ends before 2^32 blocks "
     "(nb_blocks of the partition; out-of-range SBNs are skipped by push_to_block2)", [("dom", r"self\.sbn == sbn")])
site("receiver::objectreceiver::ObjectReceiver::push_to_block2|Overflow(Add)|Overflow(Add)(self.nb_allocated_blocks, 1)", ONE_PER_EVENT)
site("receiver::objectreceiver::ObjectReceiver::write_blocks|Overflow(Add)|Overflow(Add)(sbn, 1)", "sbn starts from a u32 and advances once per written block")
site("receiver::objectreceiver::ObjectReceiver::write_blocks|Overflow(Add)|Overflow(Add)(self.blocks_offset, 1)", ONE_PER_EVENT)
site("receiver::objectreceiver::ObjectReceiver::write_blocks|Overflow(Sub)|Overflow(Sub)(self.nb_allocated_blocks, 1)",
     "the block being released was counted when it was initialised: completed implies initialised, and init() is followed by nb_allocated_blocks += 1 in push_to_block2")
site("receiver::receiver::Receiver::push_fdt_obj|Overflow(Add)|Overflow(Add)(previous_fdt.fdt_id, 1)",
     "fdt_id is the 20-bit FDT Instance ID parsed from EXT_FDT (masked with 0xFFFFF in parse_ext_fdt, checked by C06.R2)")
site("receiver::objectreceiver::ObjectReceiver::nb_block|Overflow(Add)|Overflow(Add)(self.blocks_offset, VecDeque::len(&self.blocks))",
     "blocks_offset counts blocks already written (<= number of blocks, one per event) and blocks.len() <= 2 * 2048 + 1")
site("receiver::objectreceiver::ObjectReceiver::nb_block_completed|Overflow(Add)|Overflow(Add)(self.blocks_offset, Filter::count(Iterator::filter(VecDeque::iter(&self.blocks), closure o…)",
     "same bound as nb_block")
site("receiver::receiver::Receiver::gc_object_completed|Overflow(Sub)|Overflow(Sub)(before, after)",
     "`after` is the length after retain(), which only removes entries: after <= before")

# ---- ObjectReceiver block bookkeeping ----------------------------------------------------------------------------------------------
site("receiver::objectreceiver::ObjectReceiver::push_to_block2|Overflow(Sub)|Overflow(Sub)((payload_id.sbn as usize), self.blocks_offset)",
     "dominated by the early return `payload_id.sbn < self.blocks_offset as u32` (blocks_offset < 2^32 because it counts written blocks whose SBN is a u32)",
     [("dom", r"\(self\.blocks_offset as u32\) <= payload_id\.sbn")])
site("receiver::objectreceiver::ObjectReceiver::push_to_block2|index|VecDeque::index_mut(&self.blocks, block_offset)",
     "blocks was just resized to block_offset + 1 when block_offset >= blocks.len() (resize_with on the guarded path), otherwise block_offset < blocks.len()",
     [("guard", "receiver::objectreceiver::ObjectReceiver::push_to_block2", r"block_offset < VecDeque::len\(&self\.blocks\)|VecDeque::len\(&self\.blocks\) <= \(?block_offset")])
site("receiver::objectreceiver::ObjectReceiver::write_blocks|index|VecDeque::index_mut(&self.blocks, block_offset)",
     "loop condition: sbn >= blocks_offset && sbn - blocks_offset < blocks.len(), block_offset = sbn - blocks_offset",
     [("dom", r"\(sbn - self\.blocks_offset\) < VecDeque::len\(&self\.blocks\) || checked_sub\(sbn, self\.blocks_offset\)@Some\.0 < VecDeque::len\(&self\.blocks\)")])
site("receiver::objectreceiver::ObjectReceiver::push_to_block2|Overflow(Add)|Overflow(Add)(self.total_allocated_blocks_size, block_length)",
     "block_length < 2^48 (u32 symbols x u16 symbol length, or partition::block_length <= a_large * e) and at most 2 * 2048 + 1 blocks are tracked: the sum stays below 2^61", [], 0)
site("receiver::objectreceiver::ObjectReceiver::push_to_block2|Overflow(Add)|Overflow(Add)(self.total_allocated_blocks_size, block_length)",
     "same bound (second occurrence: the accumulation after init)", [], 1)

# ---- partition (receiver call: consistent (a_large, a_small, nb_a_large) from block_partitioning(b, l, e), sbn < nb_blocks) ---------
func("common::partition::block_length", {"Overflow(Mul)": 7, "Overflow(Sub)": 4},
     "called only from push_to_block2 with the triple computed by block_partitioning(b, l, e) from the same l and e, and (fix F6) with sbn < nb_blocks. "
     "a_large <= b < 2^32 and e < 2^16, so the block sizes are < 2^48; nb_a_large * a_large <= t - a_small and t * e < l + e, so every product is <= l + e < 2^64 and every "
     "subtraction l - k * size has k * size <= l (the blocks before `sbn` are part of the object)",
     [("site_dom_assume", "receiver::objectreceiver::ObjectReceiver::push_to_block2", r"^common::partition::block_length$", r"\(payload_id\.sbn as u64\) < self\.nb_blocks",
       r"payload_id\.source_block_length is None"),
      # the triple stays consistent with l: the transfer length, the OTI and the partition are write-once
      ("field_assign_dom", OR_T, "transfer_length", [r"self\.transfer_length is None", r"self\.oti is None"]),
      ("field_assign_dom", OR_T, "oti", [r"self\.oti is None"]),
      ("field_assigned_only_in", OR_T, "a_large", [r"ObjectReceiver::init_blocks_partitioning$"]),
      ("field_assigned_only_in", OR_T, "a_small", [r"ObjectReceiver::init_blocks_partitioning$"]),
      ("field_assigned_only_in", OR_T, "nb_a_large", [r"ObjectReceiver::init_blocks_partitioning$"]),
      ("field_assigned_only_in", OR_T, "nb_blocks", [r"ObjectReceiver::init_blocks_partitioning$"]),
      ("site_dom", "receiver::objectreceiver::ObjectReceiver::init_blocks_partitioning", r"^common::partition::block_partitioning$", r"nb_block\(&self\) <= 0")])
func("common::partition::block_partitioning", {"Overflow(Mul)": 1, "Overflow(Sub)": 1},
     "a_small = floor(t / n), hence a_small * n <= t: neither the product nor t - a_small * n can overflow (div_floor property, not expressible as an interval)")

# ---- decoders -------------------------------------------------------------------------------------------------------------------------
site("<fec::nocode::NoCodeDecoder as fec::FecDecoder>::decode|unwrap|Option::unwrap(Option::as_ref(&shard))",
     "decode() runs the loop only after can_decode(): nb_symbols == shards.len(), and nb_symbols counts distinct filled slots (C02.R3), so every shard is Some",
     [("dom", r"can_decode")])
site("<fec::rscodec::RSGalois8Codec as fec::FecDecoder>::decode|index|Vec::index(&self.decode_shards, i)",
     "i < params.nb_source_symbols <= decode_shards.len() = nb_source_symbols + nb_parity_symbols (constructor)", [], 0)
site("<fec::rscodec::RSGalois8Codec as fec::FecDecoder>::decode|index|Vec::index(&self.decode_shards, i)", "same bound", [], 1)
site("<fec::rscodec::RSGalois8Codec as fec::FecDecoder>::decode|index|Vec::index(&self.decode_shards, RangeTo::RangeTo{end: self.params.nb_source_symbols})",
     "the same bound for the slice form `&decode_shards[..nb_source_symbols]`: nb_source_symbols <= decode_shards.len() = nb_source_symbols + nb_parity_symbols (constructor)")
site("<fec::rscodec::RSGalois8Codec as fec::FecDecoder>::decode|unwrap|Option::unwrap(Option::as_ref(&Vec::index(&self.decode_shards, i)))",
     "dominated by the `is_none() -> return false` test on the same slot in the same iteration",
     [("dom", r"decode_shards.* is Some")])
site("fec::rscodec::RSGalois8Codec::new|Overflow(Add)|Overflow(Add)(nb_source_symbols, nb_parity_symbols)",
     "both arguments are u32 / u8-derived values widened to usize by BlockDecoder::init (source_block_length u32, max_number_of_parity_symbols u32); "
     "ReedSolomon::new has already rejected sums above 256")
site("fec::raptorq::RaptorQDecoder::new|Overflow(Mul)|Overflow(Mul)((nb_source_symbols as u64), (encoding_symbol_length as u64))",
     "arguments are a u32 symbol count and a u16 symbol length widened by BlockDecoder::init: product < 2^48")
site("fec::raptorq::RaptorQDecoder::new|Overflow(Mul)|Overflow(Mul)(nb_source_symbols, encoding_symbol_length)",
     "dominated by the parameter validation (K <= 56403, T <= 65535)", [("guard", "fec::raptorq::RaptorQDecoder::new", r"nb_source_symbols <= 56403|56403")])

# ---- BlockWriter / decompression -------------------------------------------------------------------------------------------------------
site("receiver::blockwriter::BlockWriter::decode_write_pkt|unwrap|Option::unwrap(Option::as_mut(&self.decoder))",
     "decode_write_pkt is called only when cenc != Null (BlockWriter::write) and init_decoder() has run when the decoder was None: for the three non-Null encodings it stores Some",
     [("guard", "receiver::blockwriter::BlockWriter::decode_write_pkt", r"self\.decoder is (Some|None)"), ("guard", "receiver::blockwriter::BlockWriter::write", r"self\.cenc is Null")])
site("receiver::blockwriter::BlockWriter::decoder_read|unwrap|Option::unwrap(Option::as_mut(&self.decoder))",
     "callers: decode_write_pkt (decoder just initialised / known Some) and write() under `self.decoder.is_some()`",
     [("guard", "receiver::blockwriter::BlockWriter::write", r"self\.decoder is Some")])
site("receiver::blockwriter::BlockWriter::decode_write_pkt|index|Index<I> for [T]>::index(&pkt, RangeFrom::RangeFrom{start: offset})",
     "offset is the sum of the byte counts returned by Decompress::write(&pkt[offset..]), each <= the slice length (io::Write contract of RingBuffer::write: max_size <= buf.len()), so offset <= pkt.len()")
site("receiver::blockwriter::BlockWriter::decode_write_pkt|Overflow(Add)|Overflow(Add)(offset, size)", "same argument: offset + size <= pkt.len()")
site("receiver::blockwriter::BlockWriter::decoder_read|index|Vec::index(&self.buffer, RangeTo::RangeTo{end: size})",
     "size is the count returned by Read::read(&mut self.buffer) (flate2 decoder): <= buffer.len() by the io::Read contract", [], 0)
site("receiver::blockwriter::BlockWriter::decoder_read|index|Vec::index(&self.buffer, RangeTo::RangeTo{end: size})", "same", [], 1)
for d in ("DecompressDeflate", "DecompressGzip", "DecompressZlib"):
    site("receiver::uncompress::%s::new|unwrap|Result::unwrap(RingBuffer::write(&ring, &pkt))" % d,
         "RingBuffer::write never returns Err (every return is Ok(n))", [("no_err_return", "<tools::ringbuffer::RingBuffer as std::io::Write>::write")])

RING_INV = ("object invariant of RingBuffer (constructor: producer = consumer = 0, buffer length fixed): producer < len and consumer < len (or len == 0 and both 0); "
            "write() moves producer by at most write_size() = free slots - 1 and read() moves consumer by at most read_size() = used slots, wrapping at len, so "
            "the two cursors never cross; every range below is inside [0, len) and every buf range inside [0, buf.len()) because max_size is clamped to buf.len(). "
            "Checked by hand for the five branches of each function (see DESIGN §5 C04) — the relational argument (three variables) is outside the difference-fact domain")
func("<tools::ringbuffer::RingBuffer as std::io::Read>::read", {"Overflow(Add)": 5, "Overflow(Sub)": 1, "copy_from_slice": 4, "index": 8}, RING_INV,
     [("fields_written_only_in", "tools::ringbuffer::RingBuffer", ["producer", "consumer", "buffer"], [r"^<tools::ringbuffer::RingBuffer as std::io::(Read|Write)>::(read|write)$", r"^tools::ringbuffer::RingBuffer::new$"])])
func("<tools::ringbuffer::RingBuffer as std::io::Write>::write", {"Overflow(Add)": 5, "Overflow(Sub)": 1, "copy_from_slice": 4, "index": 8}, RING_INV)
func("tools::ringbuffer::RingBuffer::read_size", {"Overflow(Add)": 1, "Overflow(Sub)": 1}, RING_INV)
func("tools::ringbuffer::RingBuffer::write_size", {"Overflow(Add)": 1, "Overflow(Sub)": 3}, RING_INV + "; the empty buffer returns 0 first (fix F8)",
     [("guard", "tools::ringbuffer::RingBuffer::write_size", r"is_empty")])

# ---- time -------------------------------------------------------------------------------------------------------------------------------
site("receiver::fdtreceiver::FdtReceiver::push|unwrap|Result::unwrap(SystemTime::duration_since(&now, res))",
     "on the edge `res < now`: duration_since(later, earlier) is Ok (ordered values, C19.R3 checks the operands)", [("dom", r"res < now")])
site("receiver::fdtreceiver::FdtReceiver::push|unwrap|Result::unwrap(SystemTime::duration_since(&res, now))",
     "on the edge `now <= res`", [("dom", r"now <= res")])
site("receiver::fdtreceiver::FdtReceiver::get_server_time|op-trait|SystemTime::sub(now, offset)",
     "offset = now' - sct with sct >= 1970 (ntp_to_system_time rejects earlier values): now - offset stays within the i64-second range of SystemTime")
site("receiver::fdtreceiver::FdtReceiver::get_server_time|op-trait|SystemTime::add(now, offset)",
     "offset = sct - now' with sct below year 2106 (32-bit NTP seconds): the sum is far inside the i64-second range of SystemTime")
site("tools::ntp_to_system_time|op-trait|SystemTime::add(std::time::SystemTime::UNIX_EPOCH, Duration::from_micros(utc_micro))",
     "utc_micro < 2^32 * 10^6 + 10^6 microseconds (32-bit NTP seconds): far inside the range of SystemTime")

# ---- Receiver ------------------------------------------------------------------------------------------------------------------------------
site("receiver::receiver::Receiver::gc_object_error|unwrap|Option::unwrap(BTreeSet::pop_first(&self.objects_error))",
     "loop condition len() > max_objects_error >= 0: the set is not empty (or, as a counted loop, one pop per unit of len - max_objects_error: at most len pops)",
     [("dom", r"max_objects_error < BTreeSet::len || Range\{start: 0, end: <impl usize>::saturating_sub\(BTreeSet::len\(&self\.objects_error\), self\.config\.max_objects_error\)\}.* is Some")])
site("receiver::receiver::Receiver::push_fdt_obj|unwrap|Option::unwrap(FdtReceiver::fdt_meta(&fdt_current~2))",
     "reached only when the instance state is Complete, which FdtWriter::complete sets from ObjectReceiver::complete(); FdtReceiver::push then sees obj.state == Completed "
     "in the same call and stores meta = Some(create_meta()) before the state is read",
     [("guard", "receiver::fdtreceiver::FdtReceiver::push", r"state is Completed")])

# ---- writers -----------------------------------------------------------------------------------------------------------------------------------
FSW = "<receiver::writer::objectwriterfs::ObjectWriterFS as receiver::writer::ObjectWriter>"
site(FSW + "::write|unwrap|Option::unwrap(Option::as_mut(&RefMut::deref_mut(&inner).writer))", "dominated by `inner.writer.is_none() -> return`",
     [("dom", r"writer is Some")])
site(FSW + "::complete|unwrap|Option::unwrap(Option::as_mut(&RefMut::deref_mut(&inner).writer))", "dominated by `inner.writer.is_none() -> return`",
     [("dom", r"writer is Some")])
site(FSW + "::error|unwrap|Option::unwrap(Option::as_ref(&RefMut::deref(&inner).destination))", "dominated by `inner.destination.is_some()`",
     [("dom", r"destination is Some")])

# =================================================================================================================================================
alloc("receiver::objectreceiver::ObjectReceiver::init_blocks_partitioning|alloc|VecDeque::resize_with(&self.blocks, cmp::min((nb_blocks as usize), 2048), fn BlockDecoder::new)",
      "size = min(nb_blocks, MAX_PREALLOCATED_BLOCKS = 2048) empty BlockDecoders")
alloc("receiver::objectreceiver::ObjectReceiver::push_to_block2|alloc|VecDeque::resize_with(&self.blocks, (block_offset + 1), fn BlockDecoder::new)",
      "dominated by block_offset <= 2 * MAX_PREALLOCATED_BLOCKS", [("site_dom", "receiver::objectreceiver::ObjectReceiver::push_to_block2", r"VecDeque.*::resize_with$", r"block_offset <= \(2 \* 2048\)|block_offset <= 4096")])
alloc("receiver::blockwriter::BlockWriter::init_decoder|alloc|Vec::resize(&self.buffer, <impl [T]>::len(&data), 0)",
      "scratch buffer of the size of the first decoded block, itself subject to the block allocation limit of push_to_block2")
for d in ("DecompressDeflate", "DecompressGzip", "DecompressZlib"):
    alloc("receiver::uncompress::%s::new|alloc|RingBuffer::new((<impl [T]>::len(&pkt) * 2))" % d, "twice the first decoded block (same bound)")
alloc("tools::ringbuffer::RingBuffer::new|alloc|vec::from_elem(0, size)", "size is the argument reviewed at the three call sites above")
alloc("fec::rscodec::RSGalois8Codec::new|alloc|vec::from_elem(Option::None{}, (nb_source_symbols + nb_parity_symbols))",
      "reached only after ReedSolomon::new(k, p) returned Ok, which requires k + p <= 256", [("guard_call_before", "fec::rscodec::RSGalois8Codec::new", r"ReedSolomon.*::new$")])

# =================================================================================================================================================
LOOPS.update({
    "common::lct::get_ext": "shrinking slice: every iteration re-binds lct_ext_ext = &lct_ext_ext[hel..] with 1 <= hel <= len (hel == 0 and hel > len return Err); the loop "
                            "ends when fewer than 4 bytes remain",
    "receiver::blockwriter::BlockWriter::decode_write_pkt": "offset grows by the bytes accepted by the decoder and the loop ends at offset == pkt.len(); two consecutive "
                                                          "iterations that accept 0 bytes return Err (fix F7), so offset strictly increases every second iteration",
    "receiver::blockwriter::BlockWriter::decoder_read": "every iteration reads size >= 1 decoded bytes from the decompressor (size == 0 and WouldBlock return) and hands them to the writer; the "
                                                      "compressed input held by the ring buffer is finite and nothing refills it inside the loop",
    "receiver::receiver::Receiver::gc_object_error": "drain: every iteration removes one element (pop_first) of the set whose length the loop condition compares with the configured maximum; "
                                                   "nothing inserts into objects_error inside the loop",
})

# =================================================================================================================================================
# debug_assert! sites (R1d): they panic in debug builds only; each is reviewed like any other site
def dbg(fn, msg, why, requires=()):
    site('%s|panic|panicking::panic("assertion failed: %s")' % (fn, msg), why, requires)


for c in ("alcnocode::AlcNoCode", "alcrs28::AlcRS28", "alcrs28underspecified::AlcRS28UnderSpecified", "alcrs2m::AlcRS2m"):
    dbg(CODEC % c + "::get_fti", "fti[0] == lct::Ext::Fti as u8",
        "get_ext(data, lct, Ext::Fti) only returns a slice whose first byte equals the requested HET", [("guard", "common::lct::get_ext", r"het == ext")])
RB = "<tools::ringbuffer::RingBuffer as std::io::%s>::%s"
dbg(RB % ("Read", "read"), "self.consumer <= self.buffer.len()", RING_INV)
dbg(RB % ("Read", "read"), "self.consumer <= self.producer", RING_INV)
dbg(RB % ("Read", "read"), "self.consumer != self.buffer.len()", RING_INV)
dbg(RB % ("Write", "write"), "self.consumer > self.producer", RING_INV)
dbg(RB % ("Write", "write"), "self.producer != self.buffer.len()", RING_INV)
dbg(RB % ("Write", "write"), "self.producer < self.consumer", RING_INV)
dbg("common::alc::parse_sct", "ext.len() >= 4", "get_ext returns extensions of at least 4 bytes (fixed-length ones are 4 bytes, variable ones have 1 <= HEL words)",
    [("guard", "common::lct::get_ext", r"hel == 0")])
dbg("receiver::blockdecoder::BlockDecoder::push", "self.initialized",
    "push_to_block2 calls push() only after `if !block.initialized { block.init(..)? }` succeeded", [("guard", "receiver::objectreceiver::ObjectReceiver::push_to_block2", r"initialized")])
dbg("receiver::blockdecoder::BlockDecoder::push", "self.decoder.is_some()",
    "init() stores a decoder on every Ok path (fix F5 returns Err for RS GF(2^m)); deallocate() is only applied to completed blocks and push() returns first for those",
    [("dom", r"!self\.completed")])
dbg("receiver::blockwriter::BlockWriter::init_decoder", "self.decoder.is_none()", "only called under `self.decoder.is_none()` in decode_write_pkt",
    [("guard", "receiver::blockwriter::BlockWriter::decode_write_pkt", r"self\.decoder is (None|Some)")])
dbg("receiver::blockwriter::BlockWriter::write", "block.completed", "write_blocks breaks out of its loop on `!block.completed` before calling write()",
    [("guard", "receiver::objectreceiver::ObjectReceiver::write_blocks", r"completed")])
dbg("receiver::blockwriter::BlockWriter::write", "data.len() <= self.bytes_left", "data was just trimmed to bytes_left when it was longer (the match above)",
    [("guard", "receiver::blockwriter::BlockWriter::write", r"bytes_left")])
OR_ = "receiver::objectreceiver::ObjectReceiver::"
dbg(OR_ + "attach_fdt", "self.toi != lct::TOI_FDT", "attach_fdt is only called on the objects of Receiver.objects, which push_obj creates for TOI != 0 (TOI 0 goes to push_fdt_obj)",
    [("guard", "receiver::receiver::Receiver::push", r"toi")])
dbg(OR_ + "attach_fdt", "self.transfer_length.is_none()",
    "transfer_length is assigned only together with an OTI (set_oti_from_pkt) or in attach_fdt itself, which runs its body once per object (fdt_instance_id guard): with oti None it is still None")
dbg(OR_ + "init_blocks_partitioning", "self.blocks.is_empty()", "dominated by the early return `nb_block() > 0`, and nb_block() = blocks_offset + blocks.len()",
    [("dom", r"nb_block\(&self\) <= 0")])
dbg(OR_ + "init_object_writer", "self.block_writer.is_none()", "block_writer is only assigned here, after the `object_writer.is_some() -> return` guard: the body runs once",
    [("dom", r"self\.object_writer is None")])
dbg(OR_ + "push_to_block2", "self.oti.is_some()", "push() caches the packet and returns when oti is None; push_from_cache replays only once blocks exist, i.e. after the partition was computed from oti",
    [("guard", OR_ + "push", r"self\.oti is (Some|None)")])
dbg(OR_ + "push_to_block2", "self.transfer_length.is_some()",
    "an OTI always comes with a transfer length: set_oti_from_pkt puts the object in error when the packet has none (and push returns since fix F13), attach_fdt sets both")
dbg(OR_ + "push_to_block2", "self.block_writer.is_none()", "init_object_writer creates the block writer only when transfer_length != 0; this assertion is on the transfer_length == 0 path")
dbg(OR_ + "set_oti_from_pkt", "self.toi != lct::TOI_FDT", "set_cenc_from_pkt runs first and forces Cenc::Null for TOI 0, so `cenc.is_none()` excludes the FDT object")
dbg(OR_ + "write_blocks", "self.total_allocated_blocks_size >= block.block_size", "block_size was added to the total when the block was initialised (push_to_block2) and is subtracted once, here")
dbg("receiver::receiver::Receiver::push", "self.tsi == alc_pkt.lct.tsi",
    "internal callers dispatch by TSI (MultiReceiver keys receivers by (endpoint, tsi); push_data filters on tsi). A direct external call with a foreign TSI is API misuse outside the packet-input surface of C04")
for d in ("DecompressDeflate", "DecompressGzip", "DecompressZlib"):
    dbg("receiver::uncompress::%s::new" % d, "result == pkt.len()", "the ring has 2 * len capacity, so write_size() = 2 * len - 1 >= len for len >= 1, and both sides are 0 for an empty packet (fix F8)")

# =================================================================================================================================================
# third-party callees: "*|ext|<callee>" applies to every caller
TRUST = "returns Result / Option on malformed input (read in the vendored source); no documented panicking precondition"
ext("*|ext|Url::parse", TRUST)
ext("*|ext|Url::path", "accessor")
ext("*|ext|serde_json::from_str", "(feature optel only) JSON text from the FDT's Optel-Propagator attribute: malformed input is returned as Err (`.ok()?`), "
    "serde_json's recursion limit (128) bounds the stack, the target type HashMap<String, String> is bounded by the attribute's length")
ext("*|ext|de::from_reader", "quick-xml/serde deserialisation of received FDT bytes: errors are returned as Err; the element nesting is fixed by the FdtInstance/File structs")
ext("*|ext|Engine::decode", TRUST)
ext("*|ext|Engine::encode", "encoding cannot fail")
ext("*|ext|Context::new", "md5")
ext("*|ext|Context::consume", "md5: any byte slice")
ext("*|ext|Context::finalize", "md5")
ext("*|ext|DateTime::to_rfc3339", "formatting of a DateTime already built")
for d in ("DeflateDecoder", "GzDecoder", "ZlibDecoder"):
    ext("*|ext|%s::new" % d, "wraps a reader")
    ext("*|ext|%s::get_mut" % d, "accessor")
    ext("*|ext|%s::read" % d, "io::Read: corrupt deflate data is reported as io::Error (flate2/miniz_oxide trusted)")
ext("*|ext|ReedSolomon::new", "returns Err for 0 data/parity shards or more than 256 shards")
ext("*|ext|ReedSolomon::reconstruct", "returns Err for too few shards, empty shards or shards of different sizes (no panicking precondition)")
RQ = "fec::raptorq::RaptorQDecoder::new"
ext("*|ext|ObjectTransmissionInformation::new",
    "raptorq asserts transfer_length <= 942574504275, symbol_size % alignment == 0 (alignment 0 divides by zero) and symbols per block <= 56403: all validated just before (fix F27)",
    [("site_dom", RQ, r"ObjectTransmissionInformation::new$", r"^nb_source_symbols <= 56403$"),
     ("site_dom", RQ, r"ObjectTransmissionInformation::new$", r"!^nb_source_symbols == 0$"),
     ("site_dom", RQ, r"ObjectTransmissionInformation::new$", r"^block_length <= 942574504275$"),
     ("site_dom", RQ, r"ObjectTransmissionInformation::new$", r"!^scheme\.symbol_alignment == 0$"),
     ("site_dom", RQ, r"ObjectTransmissionInformation::new$", r"encoding_symbol_length % .*symbol_alignment[^=<>]*== 0$"),
     ("site_dom", RQ, r"ObjectTransmissionInformation::new$", r"!^scheme\.sub_blocks_length == 0$"),
     ("site_dom", RQ, r"ObjectTransmissionInformation::new$", r"sub_blocks_length[^<=]*<= \(?encoding_symbol_length / .*symbol_alignment"),
     ("site_dom", RQ, r"ObjectTransmissionInformation::new$", r"^encoding_symbol_length <= \(?65535"),
     ("site_dom", RQ, r"ObjectTransmissionInformation::new$", r"!^encoding_symbol_length == 0$")])
ext("*|ext|SourceBlockDecoder::new", "raptorq: allocates K slots, K <= 56403 validated (fix F27). raptor_code: see the known finding F9 for the Raptor arm (keyed separately)")
ext("*|ext|PayloadId::new", "raptorq asserts ESI < 2^24: the RaptorQ payload id reader masks ESI to 24 bits (C06.R2: ESI = wire bits 8..31)")
ext("*|ext|EncodingPacket::new", "constructor")
ext("*|ext|SourceBlockDecoder::decode",
    "raptorq: slices the symbol with the announced symbol size and divides by the number of sub-blocks: symbol length and N >= 1 validated (fix F27). "
    "raptor_code: slices decoded symbols with ceil(block_length / K): shorter symbols are padded first (fix F28)",
    [("site_dom", "<fec::raptorq::RaptorQDecoder as fec::FecDecoder>::push_symbol", r"SourceBlockDecoder::decode$", r"len\(&encoding_symbol\) == self\.encoding_symbol_length"),
     ("site_dom", "<fec::raptor::RaptorDecoder as fec::FecDecoder>::push_symbol", r"SourceBlockDecoder::push_encoding_symbol$", r"symbol_size")])
ext("*|ext|SourceBlockDecoder::push_encoding_symbol", "raptor_code: stores the symbol (xor resizes rows to the longest)")
ext("*|ext|SourceBlockDecoder::fully_specified", "raptor_code: rank test")

# call sites that must NOT be covered by a wildcard entry (they are known findings, keyed by caller)
EXTERNAL_NO_WILDCARD = {"fec::raptor::RaptorDecoder::new|ext|SourceBlockDecoder::new"}
alloc("<fec::raptor::RaptorDecoder as fec::FecDecoder>::push_symbol|alloc|Vec::resize(&symbol, self.symbol_size, 0)",
      "symbol_size = ceil(block size / K) <= block size, which is subject to the block allocation limit of push_to_block2; the padded copy is dropped at the end of the call")
