"""Reviewed-site tables for C04 (DESIGN §3: AUTO / TABLE / KNOWN).  Every entry: exact site key -> reason, plus optional
machine-checked `requires` guards that are re-verified on every run."""
import re

FIELD_RANGES = [
    # (ADT, field, lo, hi, why)
    ("common::lct::LCTHeader", "len", 0, 1020, "HDR_LEN is one byte counting 32-bit words"),
]

SITES_LIST = []
ALLOCS_LIST = []
EXTERNAL_LIST = []
LOOPS = {}


def site(key, why, requires=(), ordinal=None):
    SITES_LIST.append({"_key": key, "why": why, "requires": list(requires), "ordinal": ordinal})


def alloc(key, why, requires=()):
    ALLOCS_LIST.append({"_key": key, "why": why, "requires": list(requires), "ordinal": None})


def ext(key, why, requires=()):
    EXTERNAL_LIST.append({"_key": key, "why": why, "requires": list(requires), "ordinal": None})


def lookup(table, base, n):
    for e in table:
        if e["_key"] == base and (e["ordinal"] is None or e["ordinal"] == n):
            return e
    return None


SITES = SITES_LIST
ALLOCS = ALLOCS_LIST
EXTERNAL = EXTERNAL_LIST
