// E0 — mirdump: rustc_private driver that serialises the type-checked program
// (MIR built with -Zmir-opt-level=0, ADTs, trait impls) of the local crate as JSON
// facts.  Used as RUSTC_WORKSPACE_WRAPPER under `cargo +nightly check`.
//
// Output: $MIRDUMP_OUT/<crate_name>.<crate_type>.json, written with one write().
// Nothing here decides a property; it only exports what rustc resolved.
#![feature(rustc_private)]
#![allow(clippy::all)]

extern crate rustc_abi;
extern crate rustc_data_structures;
extern crate rustc_driver;
extern crate rustc_hir;
extern crate rustc_interface;
extern crate rustc_middle;
extern crate rustc_span;

use rustc_driver::Compilation;
use rustc_hir::def::DefKind;
use rustc_hir::def_id::{DefId, LOCAL_CRATE};
use rustc_middle::mir::*;
use rustc_middle::ty::print::with_no_trimmed_paths;
use rustc_middle::ty::{self, Instance, Ty, TyCtxt, TypingEnv};
use rustc_span::{ExpnKind, Span};
use std::fmt::Write as _;

fn esc(s: &str) -> String {
    let mut o = String::with_capacity(s.len() + 2);
    o.push('"');
    for c in s.chars() {
        match c {
            '"' => o.push_str("\\\""),
            '\\' => o.push_str("\\\\"),
            '\n' => o.push_str("\\n"),
            '\r' => o.push_str("\\r"),
            '\t' => o.push_str("\\t"),
            c if (c as u32) < 0x20 => {
                let _ = write!(o, "\\u{:04x}", c as u32);
            }
            c => o.push(c),
        }
    }
    o.push('"');
    o
}

fn arr(v: &[String]) -> String {
    format!("[{}]", v.join(","))
}

fn obj(v: &[(&str, String)]) -> String {
    let mut o = String::from("{");
    for (i, (k, val)) in v.iter().enumerate() {
        if i > 0 {
            o.push(',');
        }
        o.push_str(&esc(k));
        o.push(':');
        o.push_str(val);
    }
    o.push('}');
    o
}

struct Cx<'tcx> {
    tcx: TyCtxt<'tcx>,
}

impl<'tcx> Cx<'tcx> {
    fn path(&self, d: DefId) -> String {
        with_no_trimmed_paths!(self.tcx.def_path_str(d))
    }
    fn ty(&self, t: Ty<'tcx>) -> String {
        with_no_trimmed_paths!(format!("{}", t))
    }

    fn span(&self, sp: Span) -> String {
        // user-code location: walk out of macro expansions
        let mut expn: Vec<String> = Vec::new();
        let mut s = sp;
        let mut guard = 0;
        while s.from_expansion() && guard < 32 {
            let d = s.ctxt().outer_expn_data();
            match d.kind {
                ExpnKind::Macro(_, name) => expn.push(esc(name.as_str())),
                ExpnKind::Desugaring(k) => expn.push(esc(&format!("desugar:{:?}", k))),
                ExpnKind::AstPass(k) => expn.push(esc(&format!("astpass:{:?}", k))),
                ExpnKind::Root => {}
            }
            s = d.call_site;
            guard += 1;
        }
        if s.is_dummy() {
            return "null".to_string();
        }
        let sm = self.tcx.sess.source_map();
        let lo = sm.lookup_char_pos(s.lo());
        let hi = sm.lookup_char_pos(s.hi());
        let file = format!("{}", lo.file.name.prefer_local_unconditionally());
        format!(
            "[{},{},{},{},{},{}]",
            esc(&file),
            lo.line,
            lo.col.0 + 1,
            hi.line,
            hi.col.0 + 1,
            arr(&expn)
        )
    }

    fn place(&self, body: &Body<'tcx>, p: &Place<'tcx>) -> String {
        let tcx = self.tcx;
        let mut pty = rustc_middle::mir::PlaceTy::from_ty(body.local_decls[p.local].ty);
        let mut proj: Vec<String> = Vec::new();
        for elem in p.projection.iter() {
            let j = match elem {
                ProjectionElem::Deref => "\"*\"".to_string(),
                ProjectionElem::Field(idx, fty) => {
                    let mut name = format!("{}", idx.index());
                    let mut owner_adt = String::new();
                    match pty.ty.kind() {
                        ty::Adt(def, _) => {
                            owner_adt = self.path(def.did());
                            let v = if def.is_enum() {
                                pty.variant_index
                            } else {
                                Some(rustc_abi::FIRST_VARIANT)
                            };
                            if let Some(v) = v {
                                if let Some(f) = def.variant(v).fields.get(idx) {
                                    name = f.name.as_str().to_string();
                                }
                            }
                        }
                        _ => {}
                    }
                    if let ty::Closure(def, _) = pty.ty.kind() {
                        owner_adt = format!("closure:{}", self.path(*def));
                    }
                    obj(&[
                        ("f", format!("{}", idx.index())),
                        ("n", esc(&name)),
                        ("ty", esc(&self.ty(fty))),
                        ("o", esc(&owner_adt)),
                    ])
                }
                ProjectionElem::Index(l) => obj(&[("i", format!("{}", l.index()))]),
                ProjectionElem::ConstantIndex { offset, min_length, from_end } => obj(&[
                    ("ci", format!("{}", offset)),
                    ("ml", format!("{}", min_length)),
                    ("fe", format!("{}", from_end)),
                ]),
                ProjectionElem::Subslice { from, to, from_end } => obj(&[
                    ("ss", format!("[{},{}]", from, to)),
                    ("fe", format!("{}", from_end)),
                ]),
                ProjectionElem::Downcast(sym, vi) => {
                    let mut name = sym.map(|s| s.as_str().to_string()).unwrap_or_default();
                    if name.is_empty() {
                        if let ty::Adt(def, _) = pty.ty.kind() {
                            name = def.variant(vi).name.as_str().to_string();
                        }
                    }
                    obj(&[("d", format!("{}", vi.index())), ("n", esc(&name))])
                }
                _ => "\"?\"".to_string(),
            };
            proj.push(j);
            pty = pty.projection_ty(tcx, elem);
        }
        obj(&[("l", format!("{}", p.local.index())), ("p", arr(&proj))])
    }

    fn fn_ref(&self, owner: DefId, def: DefId, args: ty::GenericArgsRef<'tcx>) -> String {
        let tcx = self.tcx;
        let mut v: Vec<(&str, String)> = Vec::new();
        v.push(("path", esc(&self.path(def))));
        v.push(("krate", esc(tcx.crate_name(def.krate).as_str())));
        v.push(("local", format!("{}", def.is_local())));
        let substs: Vec<String> =
            args.iter().map(|a| esc(&with_no_trimmed_paths!(format!("{}", a)))).collect();
        v.push(("substs", arr(&substs)));
        if let Some(name) = tcx.opt_item_name(def) {
            v.push(("name", esc(name.as_str())));
        }
        if matches!(tcx.def_kind(def), DefKind::AssocFn) {
            if let Some(tr) = tcx.trait_of_assoc(def) {
                v.push(("trait", esc(&self.path(tr))));
            } else if let Some(imp) = tcx.impl_of_assoc(def) {
                let st = tcx.type_of(imp).instantiate_identity().skip_norm_wip();
                v.push(("impl_self", esc(&self.ty(st))));
                if let Some(trref) = tcx.impl_opt_trait_ref(imp) {
                    let trref = trref.instantiate_identity().skip_norm_wip();
                    v.push(("impl_trait", esc(&self.path(trref.def_id))));
                }
            }
        }
        // resolution
        let env = TypingEnv::post_analysis(tcx, owner);
        let res = std::panic::catch_unwind(std::panic::AssertUnwindSafe(|| {
            Instance::try_resolve(tcx, env, def, args)
        }));
        match res {
            Ok(Ok(Some(inst))) => {
                let kind = match inst.def {
                    ty::InstanceKind::Item(_) => "item".to_string(),
                    ty::InstanceKind::Virtual(..) => "virtual".to_string(),
                    ty::InstanceKind::Intrinsic(_) => "intrinsic".to_string(),
                    ty::InstanceKind::ClosureOnceShim { .. } => "closure_once_shim".to_string(),
                    ty::InstanceKind::FnPtrShim(..) => "fnptr_shim".to_string(),
                    ty::InstanceKind::CloneShim(..) => "clone_shim".to_string(),
                    ty::InstanceKind::DropGlue(..) => "drop_glue".to_string(),
                    ty::InstanceKind::ReifyShim(..) => "reify_shim".to_string(),
                    ty::InstanceKind::VTableShim(..) => "vtable_shim".to_string(),
                    _ => "other".to_string(),
                };
                let rd = inst.def_id();
                v.push(("rkind", esc(&kind)));
                v.push(("rpath", esc(&self.path(rd))));
                v.push(("rlocal", format!("{}", rd.is_local())));
            }
            Ok(Ok(None)) => v.push(("rkind", esc("unresolved"))),
            _ => v.push(("rkind", esc("error"))),
        }
        obj(&v)
    }

    fn constant(&self, owner: DefId, c: &ConstOperand<'tcx>) -> String {
        let tcx = self.tcx;
        let ty = c.const_.ty();
        let mut v: Vec<(&str, String)> = Vec::new();
        v.push(("ty", esc(&self.ty(ty))));
        match ty.kind() {
            ty::FnDef(def, args) => {
                v.push(("fn", self.fn_ref(owner, *def, args)));
                return obj(&v);
            }
            _ => {}
        }
        if let Const::Unevaluated(uv, _) = c.const_ {
            if let Some(p) = uv.promoted {
                v.push(("promoted", format!("{}", p.index())));
                return obj(&v);
            }
            v.push(("cdef", esc(&self.path(uv.def))));
        }
        let is_scalar = ty.is_integral() || ty.is_bool() || ty.is_char();
        if is_scalar {
            let env = TypingEnv::post_analysis(tcx, owner);
            let r = std::panic::catch_unwind(std::panic::AssertUnwindSafe(|| {
                c.const_.try_eval_scalar_int(tcx, env)
            }));
            if let Ok(Some(si)) = r {
                let size = si.size();
                let bits = si.to_bits(size);
                if ty.is_bool() {
                    v.push(("v", format!("{}", bits != 0)));
                } else if ty.is_signed() {
                    let sh = 128 - size.bits();
                    let sv = ((bits << sh) as i128) >> sh;
                    v.push(("v", format!("{}", sv)));
                } else {
                    v.push(("v", format!("{}", bits)));
                }
            }
        }
        let text = with_no_trimmed_paths!(format!("{}", c.const_));
        let text = if text.len() > 200 { format!("{}…", &text[..text.char_indices().take(200).last().map(|x| x.0).unwrap_or(0)]) } else { text };
        v.push(("t", esc(&text)));
        obj(&v)
    }

    fn operand(&self, owner: DefId, body: &Body<'tcx>, o: &Operand<'tcx>) -> String {
        match o {
            Operand::Copy(p) => obj(&[("c", self.place(body, p))]),
            Operand::Move(p) => obj(&[("m", self.place(body, p))]),
            Operand::Constant(c) => obj(&[("k", self.constant(owner, c))]),
            _ => obj(&[("rt", esc(&format!("{:?}", o)))]),
        }
    }

    fn rvalue(&self, owner: DefId, body: &Body<'tcx>, rv: &Rvalue<'tcx>) -> String {
        match rv {
            Rvalue::Use(o, ..) => obj(&[("k", esc("use")), ("op", self.operand(owner, body, o))]),
            Rvalue::Repeat(o, n) => obj(&[
                ("k", esc("repeat")),
                ("op", self.operand(owner, body, o)),
                ("n", esc(&with_no_trimmed_paths!(format!("{}", n)))),
            ]),
            Rvalue::Ref(_, bk, p) => obj(&[
                ("k", esc("ref")),
                ("mut", format!("{}", matches!(bk, BorrowKind::Mut { .. }))),
                ("place", self.place(body, p)),
            ]),
            Rvalue::RawPtr(k, p) => obj(&[
                ("k", esc("rawptr")),
                ("mut", format!("{}", matches!(k, RawPtrKind::Mut))),
                ("place", self.place(body, p)),
            ]),
            Rvalue::Cast(kind, o, t) => obj(&[
                ("k", esc("cast")),
                ("kind", esc(&format!("{:?}", kind))),
                ("op", self.operand(owner, body, o)),
                ("ty", esc(&self.ty(*t))),
            ]),
            Rvalue::BinaryOp(op, ab) => obj(&[
                ("k", esc("bin")),
                ("op", esc(&format!("{:?}", op))),
                ("a", self.operand(owner, body, &ab.0)),
                ("b", self.operand(owner, body, &ab.1)),
            ]),
            Rvalue::UnaryOp(op, a) => obj(&[
                ("k", esc("un")),
                ("op", esc(&format!("{:?}", op))),
                ("a", self.operand(owner, body, a)),
            ]),
            Rvalue::Discriminant(p) => {
                let pty = p.ty(&body.local_decls, self.tcx).ty;
                let mut v: Vec<(&str, String)> = vec![
                    ("k", esc("discr")),
                    ("place", self.place(body, p)),
                    ("pty", esc(&self.ty(pty))),
                ];
                if let ty::Adt(def, _) = pty.kind() {
                    v.push(("adt", esc(&self.path(def.did()))));
                    let names: Vec<String> = def
                        .variants()
                        .iter_enumerated()
                        .map(|(vi, var)| {
                            format!(
                                "[{},{}]",
                                def.discriminant_for_variant(self.tcx, vi).val,
                                esc(var.name.as_str())
                            )
                        })
                        .collect();
                    v.push(("variants", arr(&names)));
                }
                obj(&v)
            }
            Rvalue::Aggregate(kind, fields) => {
                let fs: Vec<String> = fields.iter().map(|f| self.operand(owner, body, f)).collect();
                let mut v: Vec<(&str, String)> = vec![("k", esc("aggr")), ("fields", arr(&fs))];
                match &**kind {
                    AggregateKind::Array(t) => {
                        v.push(("ak", esc("array")));
                        v.push(("ety", esc(&self.ty(*t))));
                    }
                    AggregateKind::Tuple => v.push(("ak", esc("tuple"))),
                    AggregateKind::Adt(def, vi, _, _, active) => {
                        let adt = self.tcx.adt_def(*def);
                        v.push(("ak", esc("adt")));
                        v.push(("adt", esc(&self.path(*def))));
                        v.push(("variant", esc(adt.variant(*vi).name.as_str())));
                        v.push(("vi", format!("{}", vi.index())));
                        let names: Vec<String> = adt
                            .variant(*vi)
                            .fields
                            .iter()
                            .map(|f| esc(f.name.as_str()))
                            .collect();
                        v.push(("fnames", arr(&names)));
                        if let Some(a) = active {
                            v.push(("active", format!("{}", a.index())));
                        }
                    }
                    AggregateKind::Closure(def, _) => {
                        v.push(("ak", esc("closure")));
                        v.push(("closure", esc(&self.path(*def))));
                    }
                    AggregateKind::Coroutine(def, _) | AggregateKind::CoroutineClosure(def, _) => {
                        v.push(("ak", esc("coroutine")));
                        v.push(("closure", esc(&self.path(*def))));
                    }
                    AggregateKind::RawPtr(..) => v.push(("ak", esc("rawptr"))),
                }
                obj(&v)
            }
            Rvalue::CopyForDeref(p) => obj(&[
                ("k", esc("use")),
                ("op", obj(&[("c", self.place(body, p))])),
                ("cfd", "true".to_string()),
            ]),
            Rvalue::ThreadLocalRef(d) => obj(&[("k", esc("tls")), ("def", esc(&self.path(*d)))]),
            _ => obj(&[("k", esc("other")), ("t", esc(&format!("{:?}", rv)))]),
        }
    }

    fn blocks(&self, owner: DefId, body: &Body<'tcx>) -> String {
        let mut bbs: Vec<String> = Vec::new();
        for (_bb, data) in body.basic_blocks.iter_enumerated() {
            let mut stmts: Vec<String> = Vec::new();
            for st in &data.statements {
                match &st.kind {
                    StatementKind::Assign(b) => {
                        let (lhs, rv) = &**b;
                        stmts.push(obj(&[
                            ("k", esc("assign")),
                            ("lhs", self.place(body, lhs)),
                            ("rv", self.rvalue(owner, body, rv)),
                            ("sp", self.span(st.source_info.span)),
                        ]));
                    }
                    StatementKind::SetDiscriminant { place, variant_index } => {
                        stmts.push(obj(&[
                            ("k", esc("setdiscr")),
                            ("place", self.place(body, place)),
                            ("vi", format!("{}", variant_index.index())),
                            ("sp", self.span(st.source_info.span)),
                        ]));
                    }
                    StatementKind::Intrinsic(i) => {
                        stmts.push(obj(&[
                            ("k", esc("intrinsic")),
                            ("t", esc(&format!("{:?}", i))),
                        ]));
                    }
                    _ => {}
                }
            }
            let term = data.terminator();
            let sp = self.span(term.source_info.span);
            let t = match &term.kind {
                TerminatorKind::Goto { target } => {
                    obj(&[("k", esc("goto")), ("t", format!("{}", target.index()))])
                }
                TerminatorKind::SwitchInt { discr, targets } => {
                    let ts: Vec<String> = targets
                        .iter()
                        .map(|(v, t)| format!("[{},{}]", v, t.index()))
                        .collect();
                    let dty = discr.ty(&body.local_decls, self.tcx);
                    obj(&[
                        ("k", esc("switch")),
                        ("discr", self.operand(owner, body, discr)),
                        ("dty", esc(&self.ty(dty))),
                        ("targets", arr(&ts)),
                        ("otherwise", format!("{}", targets.otherwise().index())),
                        ("sp", sp),
                    ])
                }
                TerminatorKind::UnwindResume => obj(&[("k", esc("resume"))]),
                TerminatorKind::UnwindTerminate(_) => obj(&[("k", esc("abort"))]),
                TerminatorKind::Return => obj(&[("k", esc("return")), ("sp", sp)]),
                TerminatorKind::Unreachable => obj(&[("k", esc("unreachable"))]),
                TerminatorKind::Drop { place, target, unwind, .. } => {
                    let pty = place.ty(&body.local_decls, self.tcx).ty;
                    obj(&[
                        ("k", esc("drop")),
                        ("place", self.place(body, place)),
                        ("pty", esc(&self.ty(pty))),
                        ("t", format!("{}", target.index())),
                        ("unwind", self.unwind(unwind)),
                        ("sp", sp),
                    ])
                }
                TerminatorKind::Call { func, args, destination, target, unwind, fn_span, .. } => {
                    let a: Vec<String> =
                        args.iter().map(|x| self.operand(owner, body, &x.node)).collect();
                    let aty: Vec<String> = args
                        .iter()
                        .map(|x| esc(&self.ty(x.node.ty(&body.local_decls, self.tcx))))
                        .collect();
                    obj(&[
                        ("k", esc("call")),
                        ("func", self.operand(owner, body, func)),
                        ("args", arr(&a)),
                        ("aty", arr(&aty)),
                        ("dest", self.place(body, destination)),
                        (
                            "t",
                            match target {
                                Some(t) => format!("{}", t.index()),
                                None => "null".to_string(),
                            },
                        ),
                        ("unwind", self.unwind(unwind)),
                        ("sp", sp),
                        ("fsp", self.span(*fn_span)),
                    ])
                }
                TerminatorKind::TailCall { func, args, .. } => {
                    let a: Vec<String> =
                        args.iter().map(|x| self.operand(owner, body, &x.node)).collect();
                    obj(&[
                        ("k", esc("tailcall")),
                        ("func", self.operand(owner, body, func)),
                        ("args", arr(&a)),
                        ("sp", sp),
                    ])
                }
                TerminatorKind::Assert { cond, expected, msg, target, unwind } => {
                    let (kind, ops): (String, Vec<String>) = match &**msg {
                        AssertKind::BoundsCheck { len, index } => (
                            "BoundsCheck".to_string(),
                            vec![self.operand(owner, body, len), self.operand(owner, body, index)],
                        ),
                        AssertKind::Overflow(op, a, b) => (
                            format!("Overflow({:?})", op),
                            vec![self.operand(owner, body, a), self.operand(owner, body, b)],
                        ),
                        AssertKind::OverflowNeg(a) => {
                            ("OverflowNeg".to_string(), vec![self.operand(owner, body, a)])
                        }
                        AssertKind::DivisionByZero(a) => {
                            ("DivisionByZero".to_string(), vec![self.operand(owner, body, a)])
                        }
                        AssertKind::RemainderByZero(a) => {
                            ("RemainderByZero".to_string(), vec![self.operand(owner, body, a)])
                        }
                        AssertKind::MisalignedPointerDereference { .. } => {
                            ("MisalignedPointerDereference".to_string(), vec![])
                        }
                        AssertKind::NullPointerDereference => {
                            ("NullPointerDereference".to_string(), vec![])
                        }
                        other => (format!("{:?}", other), vec![]),
                    };
                    obj(&[
                        ("k", esc("assert")),
                        ("cond", self.operand(owner, body, cond)),
                        ("expected", format!("{}", expected)),
                        ("akind", esc(&kind)),
                        ("ops", arr(&ops)),
                        ("t", format!("{}", target.index())),
                        ("unwind", self.unwind(unwind)),
                        ("sp", sp),
                    ])
                }
                TerminatorKind::FalseEdge { real_target, .. } => {
                    obj(&[("k", esc("goto")), ("t", format!("{}", real_target.index()))])
                }
                TerminatorKind::FalseUnwind { real_target, .. } => {
                    obj(&[("k", esc("goto")), ("t", format!("{}", real_target.index()))])
                }
                other => obj(&[("k", esc("other")), ("t", esc(&format!("{:?}", other)))]),
            };
            bbs.push(obj(&[
                ("cleanup", format!("{}", data.is_cleanup)),
                ("stmts", arr(&stmts)),
                ("term", t),
            ]));
        }
        arr(&bbs)
    }

    fn unwind(&self, u: &UnwindAction) -> String {
        match u {
            UnwindAction::Cleanup(bb) => format!("{}", bb.index()),
            _ => "null".to_string(),
        }
    }

    fn body(&self, owner: DefId, body: &Body<'tcx>) -> Vec<(&'static str, String)> {
        let mut v: Vec<(&'static str, String)> = Vec::new();
        v.push(("argc", format!("{}", body.arg_count)));
        let locals: Vec<String> = body
            .local_decls
            .iter()
            .map(|d| {
                obj(&[
                    ("ty", esc(&self.ty(d.ty))),
                    ("mut", format!("{}", d.mutability.is_mut())),
                ])
            })
            .collect();
        v.push(("locals", arr(&locals)));
        let mut dbg: Vec<String> = Vec::new();
        for vdi in &body.var_debug_info {
            let val = match &vdi.value {
                VarDebugInfoContents::Place(p) => obj(&[("place", self.place(body, p))]),
                VarDebugInfoContents::Const(c) => obj(&[("const", self.constant(owner, c))]),
            };
            dbg.push(obj(&[
                ("name", esc(vdi.name.as_str())),
                ("val", val),
                (
                    "arg",
                    match vdi.argument_index {
                        Some(i) => format!("{}", i),
                        None => "null".to_string(),
                    },
                ),
            ]));
        }
        v.push(("debug", arr(&dbg)));
        v.push(("blocks", self.blocks(owner, body)));
        v
    }
}

fn dump(tcx: TyCtxt<'_>) -> String {
    let cx = Cx { tcx };
    let mut funcs: Vec<String> = Vec::new();
    let mut keys: Vec<_> = tcx.mir_keys(()).iter().copied().collect();
    keys.sort_by_key(|k| tcx.def_path_str(k.to_def_id()));
    for ldid in keys {
        let did = ldid.to_def_id();
        let kind = tcx.def_kind(did);
        let kname = match kind {
            DefKind::Fn => "fn",
            DefKind::AssocFn => "assoc",
            DefKind::Closure => "closure",
            _ => continue,
        };
        if tcx.is_constructor(did) {
            continue;
        }
        let body = tcx.optimized_mir(did);
        let mut v: Vec<(&str, String)> = Vec::new();
        v.push(("path", esc(&cx.path(did))));
        v.push(("kind", esc(kname)));
        if let Some(name) = tcx.opt_item_name(did) {
            v.push(("name", esc(name.as_str())));
        }
        if matches!(kind, DefKind::Fn | DefKind::AssocFn) {
            let vis = tcx.visibility(did);
            let vs = if vis.is_public() { "pub".to_string() } else { format!("{:?}", vis) };
            v.push(("vis", esc(&vs)));
        }
        if kind == DefKind::Closure {
            let parent = tcx.typeck_root_def_id(did);
            v.push(("parent", esc(&cx.path(parent))));
            let imm = tcx.parent(did);
            v.push(("lexical_parent", esc(&cx.path(imm))));
        }
        if kind == DefKind::AssocFn {
            if let Some(tr) = tcx.trait_of_assoc(did) {
                v.push(("trait_default_of", esc(&cx.path(tr))));
            } else if let Some(imp) = tcx.impl_of_assoc(did) {
                let st = tcx.type_of(imp).instantiate_identity().skip_norm_wip();
                v.push(("self_ty", esc(&cx.ty(st))));
                if let Some(trref) = tcx.impl_opt_trait_ref(imp) {
                    let trref = trref.instantiate_identity().skip_norm_wip();
                    v.push(("impl_trait", esc(&cx.path(trref.def_id))));
                }
                v.push(("derived", format!("{}", tcx.is_automatically_derived(imp))));
            }
        }
        v.push(("sp", cx.span(tcx.def_span(did))));
        v.push(("body_sp", cx.span(body.span)));
        v.extend(cx.body(did, body));
        // promoted
        let proms = tcx.promoted_mir(did);
        let mut pv: Vec<String> = Vec::new();
        for p in proms.iter() {
            pv.push(obj(&cx.body(did, p)));
        }
        v.push(("promoted", arr(&pv)));
        funcs.push(obj(&v));
    }

    // ADTs and trait impls
    let mut adts: Vec<String> = Vec::new();
    let mut traits: Vec<String> = Vec::new();
    let mut consts: Vec<String> = Vec::new();
    let items = tcx.hir_crate_items(());
    for ldid in items.definitions() {
        let did = ldid.to_def_id();
        match tcx.def_kind(did) {
            DefKind::Struct | DefKind::Enum | DefKind::Union => {
                let adt = tcx.adt_def(did);
                let mut vars: Vec<String> = Vec::new();
                for (vi, var) in adt.variants().iter_enumerated() {
                    let fs: Vec<String> = var
                        .fields
                        .iter()
                        .map(|f| {
                            let fty = tcx.type_of(f.did).instantiate_identity().skip_norm_wip();
                            obj(&[
                                ("name", esc(f.name.as_str())),
                                ("ty", esc(&cx.ty(fty))),
                                ("pub", format!("{}", f.vis.is_public())),
                            ])
                        })
                        .collect();
                    let discr = if adt.is_enum() {
                        format!("{}", adt.discriminant_for_variant(tcx, vi).val)
                    } else {
                        "0".to_string()
                    };
                    vars.push(obj(&[
                        ("name", esc(var.name.as_str())),
                        ("vi", format!("{}", vi.index())),
                        ("discr", discr),
                        ("fields", arr(&fs)),
                    ]));
                }
                adts.push(obj(&[
                    ("path", esc(&cx.path(did))),
                    ("kind", esc(if adt.is_enum() { "enum" } else if adt.is_struct() { "struct" } else { "union" })),
                    ("pub", format!("{}", tcx.visibility(did).is_public())),
                    ("variants", arr(&vars)),
                    ("sp", cx.span(tcx.def_span(did))),
                ]));
            }
            DefKind::Impl { of_trait } => {
                let st = tcx.type_of(did).instantiate_identity().skip_norm_wip();
                let mut methods: Vec<String> = Vec::new();
                for it in tcx.associated_items(did).in_definition_order() {
                    if matches!(it.kind, ty::AssocKind::Fn { .. }) {
                        methods.push(obj(&[
                            ("name", esc(it.name().as_str())),
                            ("path", esc(&cx.path(it.def_id))),
                        ]));
                    }
                }
                let mut v: Vec<(&str, String)> = vec![
                    ("self_ty", esc(&cx.ty(st))),
                    ("methods", arr(&methods)),
                    ("derived", format!("{}", tcx.is_automatically_derived(did))),
                    ("sp", cx.span(tcx.def_span(did))),
                ];
                if of_trait {
                    let trref = tcx.impl_trait_ref(did).instantiate_identity().skip_norm_wip();
                    v.push(("trait", esc(&cx.path(trref.def_id))));
                    v.push(("trait_local", format!("{}", trref.def_id.is_local())));
                    let neg = matches!(tcx.impl_polarity(did), ty::ImplPolarity::Negative);
                    v.push(("negative", format!("{}", neg)));
                }
                traits.push(obj(&v));
            }
            DefKind::Trait => {
                let mut methods: Vec<String> = Vec::new();
                for it in tcx.associated_items(did).in_definition_order() {
                    if matches!(it.kind, ty::AssocKind::Fn { .. }) {
                        methods.push(obj(&[
                            ("name", esc(it.name().as_str())),
                            ("path", esc(&cx.path(it.def_id))),
                            ("has_default", format!("{}", it.defaultness(tcx).has_value())),
                        ]));
                    }
                }
                traits.push(obj(&[
                    ("trait_def", esc(&cx.path(did))),
                    ("methods", arr(&methods)),
                ]));
            }
            DefKind::Const { .. } | DefKind::AssocConst { .. } => {
                let ty = tcx.type_of(did).instantiate_identity().skip_norm_wip();
                let mut v: Vec<(&str, String)> =
                    vec![("path", esc(&cx.path(did))), ("ty", esc(&cx.ty(ty)))];
                if ty.is_integral() || ty.is_bool() {
                    if let Ok(val) = tcx.const_eval_poly(did) {
                        if let Some(si) = val.try_to_scalar_int() {
                            let size = si.size();
                            let bits = si.to_bits(size);
                            if ty.is_signed() {
                                let sh = 128 - size.bits();
                                v.push(("v", format!("{}", ((bits << sh) as i128) >> sh)));
                            } else {
                                v.push(("v", format!("{}", bits)));
                            }
                        }
                    }
                }
                consts.push(obj(&v));
            }
            _ => {}
        }
    }

    let crate_name = tcx.crate_name(LOCAL_CRATE).as_str().to_string();
    obj(&[
        ("crate", esc(&crate_name)),
        ("schema", "1".to_string()),
        ("functions", arr(&funcs)),
        ("adts", arr(&adts)),
        ("impls", arr(&traits)),
        ("consts", arr(&consts)),
    ])
}

struct Cb;

impl rustc_driver::Callbacks for Cb {
    fn after_analysis<'tcx>(
        &mut self,
        _compiler: &rustc_interface::interface::Compiler,
        tcx: TyCtxt<'tcx>,
    ) -> Compilation {
        let out = match std::env::var("MIRDUMP_OUT") {
            Ok(o) => o,
            Err(_) => return Compilation::Continue,
        };
        let crate_name = tcx.crate_name(LOCAL_CRATE).as_str().to_string();
        let ctype = tcx
            .crate_types()
            .iter()
            .map(|t| format!("{:?}", t).to_lowercase())
            .collect::<Vec<_>>()
            .join("+");
        let json = dump(tcx);
        let path = format!("{}/{}.{}.json", out, crate_name, ctype);
        let tmp = format!("{}.tmp{}", path, std::process::id());
        std::fs::write(&tmp, json.as_bytes()).expect("mirdump: cannot write facts");
        std::fs::rename(&tmp, &path).expect("mirdump: cannot rename facts");
        Compilation::Continue
    }
}

fn main() {
    let mut args: Vec<String> = std::env::args().collect();
    // RUSTC_WORKSPACE_WRAPPER: argv = [wrapper, rustc, args…]
    if args.len() > 1 && (args[1].ends_with("rustc") || args[1].contains("/rustc")) {
        args.remove(1);
    }
    let mut cb = Cb;
    rustc_driver::run_compiler(&args, &mut cb);
}
