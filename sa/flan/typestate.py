"""E3 — finite-domain, path-sensitive, interprocedural abstract interpreter for typestate rules.

The abstract store H is a small tuple of enum-valued variables (fields of one `self` object plus ghost variables).
Methods of the object are interpreted on demand with memoised summaries  (method, H_in) -> {H_out}; branches whose
condition can be evaluated from H (discriminants, is_some/is_none, derived PartialEq against constants) follow one
edge, every other branch forks.  `events` (calls matching a pattern) are handed to a user automaton that may update
ghost variables and report violations together with the witness (chain of calls and source lines)."""
import re

from . import model
from .model import X, show, loc, norm_path, walk
from .cfg import Flow, Slicer, facts_of, strip_ref

UNWRAP_LIKE = re.compile(r"(Option|Result)::(as_ref|as_mut|as_deref|as_deref_mut|unwrap|expect|clone|cloned|copied|insert|get_or_insert)$|Deref(Mut)?::deref(_mut)?$|Clone::clone$|AsRef::as_ref$|AsMut::as_mut$")


def canon_path(e, aliases=None):
    """expression -> canonical access path text 'self.a.b' with Option plumbing removed, or None"""
    depth = 0
    while depth < 20:
        depth += 1
        k = e[0]
        if k in ("ref", "deref"):
            e = e[1]
        elif k == "call" and len(e[2]) >= 1 and UNWRAP_LIKE.search(e[1].replace("<", "").replace(">", "")):
            e = e[2][0]
        elif k == "proj":
            inner = canon_path(e[1], aliases)
            if inner is None:
                return None
            return clean(inner + e[2])
        elif k == "var":
            name = e[1]
            if aliases and name in aliases:
                return clean(aliases[name] + e[2])
            return clean(name + e[2])
        elif k == "cast":
            e = e[2]
        else:
            return None
    return None


def clean(p):
    # drop Option/Box plumbing:  @Some.0 , .0.pointer
    p = p.replace("@Some.0", "").replace("@Ok.0", "")
    return p


class Spec:
    """What to track.
    vars: {name: {'path': regex on canonical path (full match), 'kind': 'enum'|'option', 'init': value}}
    For 'option' vars values are 'None'/'Some'; for 'enum' the variant names."""

    def __init__(self, self_ty, vars, ghosts, events, on_event, on_assign=None, havoc_calls=None):
        self.self_ty = self_ty
        self.vars = vars
        self.ghosts = ghosts          # {name: init}
        self.events = events          # [(regex on callee path / trait method, event name)]
        self.on_event = on_event      # (event, H(dict), site, report) -> None (mutates H)
        self.on_assign = on_assign    # (var, old, new, H, site, report)
        self.order = sorted(vars) + sorted(ghosts)

    def initial(self):
        h = {k: v["init"] for k, v in self.vars.items()}
        h.update(self.ghosts)
        return h

    def freeze(self, h):
        return tuple(h[k] for k in self.order)

    def thaw(self, t):
        return dict(zip(self.order, t))

    def var_of(self, path):
        if path is None:
            return None
        for name, d in self.vars.items():
            if re.fullmatch(d["path"], path):
                return name
        return None


class Interp:
    def __init__(self, prog, spec, max_states=200000):
        self.prog = prog
        self.spec = spec
        self.summaries = {}
        self.in_progress = set()
        self.reports = []       # (key, message, loc, witness)
        self.seen_reports = set()
        self.max_states = max_states
        self.nstates = 0
        self.ntrans = 0
        self._flow = {}
        self._aliases = {}
        self._emits = {}
        self.stack = []

    # ---- helpers -----------------------------------------------------------------------------------
    def flow(self, f):
        if f.path not in self._flow:
            self._flow[f.path] = Flow(f.body)
        return self._flow[f.path]

    def aliases(self, f):
        """named locals defined once as a reference to / copy of a path rooted at self (or another alias)"""
        if f.path in self._aliases:
            return self._aliases[f.path]
        sl = Slicer(f.body)
        out = {}
        b = f.body
        # self / closure-captured self
        changed = True
        rounds = 0
        while changed and rounds < 4:
            changed = False
            rounds += 1
            for name, defs in sl.var_defs().items():
                if name in out or name == "self":
                    continue
                whole = [d for d in defs if d[0] == ""]
                if len(whole) != 1:
                    # a reference bound once and then stored through (`if let Some(Session { state, .. }) = self.w.as_mut() { *state = X }`):
                    # var_defs lists the store as a further definition of the name; the binding itself is the only definition of the local
                    ls_ = [l_ for l_, n_ in b.names.items() if n_ == name]
                    own = []
                    for l_ in ls_:
                        for (bb_, idx_, kind_) in b.defs().get(l_, []):
                            if kind_ == "whole" and idx_ != "term" and not b.blocks[bb_].cleanup and b.blocks[bb_].cloned_from is None:
                                own.append(b.blocks[bb_].stmts[idx_].rv)
                            elif kind_ in ("call", "partial"):
                                own.append(None)
                    if len(ls_) == 1 and len(own) == 1 and own[0] is not None and own[0].k in ("ref", "rawptr"):
                        whole = [("", sl.x.rvalue(own[0], sl.x.depth))]
                    else:
                        continue
                p = canon_path(whole[0][1], out)
                if p is not None and (p == "self" or p.startswith("self.")):
                    out[name] = p
                    changed = True
        self._aliases[f.path] = out
        return out

    def is_self_method(self, callee_path):
        f = self.prog.funcs.get(callee_path)
        return f is not None and f.self_ty == self.spec.self_ty and f.body.argc >= 1 and \
            re.match(r"^&(mut )?", f.body.locals[1]["ty"]) is not None and self.spec.self_ty in f.body.locals[1]["ty"]

    def event_of(self, callee):
        if callee is None:
            return None
        paths = [norm_path(callee.get("path", ""))]
        if callee.get("rpath"):
            paths.append(norm_path(callee["rpath"]))
        for rx_, ev in self.spec.events:
            for p in paths:
                if re.search(rx_, p):
                    return ev
        return None

    def emits(self, fpath, seen=None):
        """events transitively emitted by a non-self function (set of event names)"""
        if fpath in self._emits:
            return self._emits[fpath]
        seen = seen or set()
        if fpath in seen:
            return set()
        seen.add(fpath)
        out = set()
        f = self.prog.funcs.get(fpath)
        if f is None:
            return out
        for bb, t in f.body.calls():
            c = t.callee()
            ev = self.event_of(c)
            if ev:
                out.add(ev)
            ts, _ = self.prog.callee_targets(c)
            for tp in ts:
                if not self.is_self_method(tp):
                    out |= self.emits(tp, seen)
        for cp in self.prog.closures_of.get(fpath, []):
            out |= self.emits(cp, seen)
        self._emits[fpath] = out
        return out

    def report(self, key, msg, where):
        wit = " > ".join(self.stack)
        k = (key, msg)
        if k in self.seen_reports:
            return
        self.seen_reports.add(k)
        self.reports.append((key, msg, where, wit))

    # ---- evaluation of conditions against H ------------------------------------------------------------
    def eval_fact(self, f, fact, H, L):
        """True / False / None (unknown) for a canonical fact under store H"""
        (a, t) = fact
        al = self.aliases(f)
        k = a[0]
        if k == "variant":
            p = canon_path(a[1], al)
            v = self.spec.var_of(p)
            if v is None:
                return None
            d = self.spec.vars[v]
            cur = H[v]
            if d["kind"] == "option":
                if a[2] in ("Some", "None"):
                    is_some = cur != "None"
                    return ((a[2] == "Some") == is_some) == t
                return None
            if cur is None:
                return None
            return (cur == a[2]) == t
        if k == "eq":
            for (x, y) in ((a[1], a[2]), (a[2], a[1])):
                p = canon_path(x, al)
                v = self.spec.var_of(p)
                if v is not None and self.spec.vars[v]["kind"] == "enum":
                    c = const_variant(y)
                    if c is not None and H[v] is not None:
                        return (H[v] == c) == t
            return None
        if k == "true":
            e = a[1]
            # bool-valued tracked field
            p = canon_path(e, al)
            v = self.spec.var_of(p)
            if v is not None and self.spec.vars[v]["kind"] == "bool":
                return (H[v] == "true") == t if H[v] is not None else None
        return None

    # ---- interpretation -------------------------------------------------------------------------------------
    def summary(self, fpath, Hf):
        """(function, H_in) -> set of (H_out, return variant or None)"""
        key = (fpath, Hf)
        if key in self.summaries:
            return self.summaries[key]
        if key in self.in_progress:
            return {(Hf, None)}   # recursion: assume identity (call graphs here are acyclic)
        self.in_progress.add(key)
        f = self.prog.fn(fpath)
        outs = self.run_body(f, Hf)
        self.in_progress.discard(key)
        self.summaries[key] = outs
        return outs

    def local_of_ref(self, body, op):
        """the local an operand designates, looking through `_a = &_t` / `_a = &mut _t` / copies of such temps"""
        if op.place is None:
            return None
        l, proj = op.place
        hops = 0
        while hops < 5:
            hops += 1
            if proj and not all(e[0] == "*" for e in proj):
                return None
            if l in body.names or l <= body.argc:
                return l if not [e for e in proj if e[0] != "*"] else None
            sd = body.single_def(l)
            if sd is None or sd[1] == "term":
                return l
            rv = body.blocks[sd[0]].stmts[sd[1]].rv
            if rv.k in ("ref", "rawptr") and not [e for e in rv.place[1] if e[0] != "*"]:
                l, proj = rv.place[0], ()
            elif rv.k == "use" and rv.ops[0].place is not None and not rv.ops[0].place[1] and rv.j.get("cfd"):
                l, proj = rv.ops[0].place[0], ()
            else:
                return l
        return l

    def run_body(self, f, Hf):
        spec = self.spec
        body = f.body
        flow = self.flow(f)
        x = flow.x
        al = self.aliases(f)
        outs = set()
        seen = set()
        work = [(0, Hf, ())]
        self.stack.append("%s{%s}" % (f.path.split("::")[-1] if f.kind != "closure" else "closure@" + str(f.line), ",".join(str(v) for v in Hf)))
        try:
            while work:
                bb, Ht, Lt = work.pop()
                if (bb, Ht, Lt) in seen:
                    continue
                seen.add((bb, Ht, Lt))
                self.nstates += 1
                if self.nstates > self.max_states:
                    raise RuntimeError("typestate exploration exceeded %d states" % self.max_states)
                H = spec.thaw(Ht)
                L = dict(Lt)
                blk = body.blocks[bb]
                if blk.cleanup:
                    continue
                for s in blk.stmts:
                    if s.k == "assign":
                        self._cur = (f, x, H)
                        self.do_local(body, s, L)
                        self._cur = None
                        self.do_assign(f, x, al, s, H, bb, L)
                t = blk.term
                if t.k == "call":
                    for (h2, l2) in self.do_call(f, x, al, bb, t, H, L):
                        if t.target is not None:
                            self.ntrans += 1
                            work.append((t.target, h2, l2))
                elif t.k == "return":
                    outs.add((spec.freeze(H), L.get(0)))
                elif t.k == "switch":
                    n = len(t.targets)
                    forced = self.eval_switch_local(body, t, L)
                    for k in range(n + 1):
                        if forced is not None and k != forced:
                            continue
                        node = ("e", bb, k)
                        feasible = True
                        if forced is None:
                            for fact in flow.edge_facts(node):
                                r = self.eval_fact(f, fact, H, None)
                                if r is False:
                                    feasible = False
                                    break
                        if feasible:
                            tgt = t.targets[k][1] if k < n else t.otherwise
                            H2 = dict(H)
                            self.refine(f, flow.edge_facts(node), H2)
                            self.ntrans += 1
                            work.append((tgt, spec.freeze(H2), tuple(sorted(L.items()))))
                elif t.k in ("goto", "drop", "assert"):
                    if t.target is not None:
                        self.ntrans += 1
                        work.append((t.target, spec.freeze(H), tuple(sorted(L.items()))))
        finally:
            self.stack.pop()
        return outs

    def do_local(self, body, s, L):
        """track constant variants / booleans held by plain locals"""
        if s.lhs[1]:
            return
        l = s.lhs[0]
        rv = s.rv
        val = None
        if rv.k == "aggr" and rv.j.get("ak") == "adt":
            val = rv.j.get("variant")
        elif rv.k == "aggr" and rv.j.get("ak") == "tuple":
            # `let (result, what) = match .. { A => (self.f(), ".."), B => (self.g(), "..") };`: the components keep what is known of them
            comps = tuple(L.get(o.place[0]) if (o.place is not None and not o.place[1]) else None for o in rv.ops)
            if any(c is not None for c in comps):
                val = ("tup", comps)
        elif rv.k == "use":
            o = rv.ops[0]
            if o.place is not None and not o.place[1]:
                val = L.get(o.place[0])
            elif o.place is not None and isinstance(L.get(o.place[0]), tuple) and L[o.place[0]][0] == "tup":
                pj = o.place[1]
                tv = L[o.place[0]][1]
                if len(pj) == 1 and pj[0][0] == "f" and pj[0][1] < len(tv):
                    val = tv[pj[0][1]]
            elif o.place is not None and isinstance(L.get(o.place[0]), tuple) and L[o.place[0]][0] == "opt":
                pj = [e for e in o.place[1] if e[0] != "*"]
                tv = L[o.place[0]]
                if len(pj) == 2 and pj[0][0] == "d" and pj[0][2] == tv[1] and pj[1][0] == "f" and pj[1][1] == 0:
                    val = tv[2]
            elif o.kind == "const":
                v = o.value()
                if isinstance(v, bool):
                    val = v
                else:
                    c = const_variant(("const", o.const.get("ty"), o.const.get("t", "")))
                    val = c
        elif rv.k == "un" and rv.j["op"] == "Not":
            o = rv.ops[0]
            if o.place is not None and not o.place[1] and isinstance(L.get(o.place[0]), bool):
                val = not L[o.place[0]]
        elif rv.k == "bin" and rv.j.get("op") in ("Eq", "Ne") and getattr(self, "_cur", None) is not None:
            f_, x_, H_ = self._cur
            try:
                from .cfg import facts_of
                for fact in facts_of(x_.rvalue(rv, x_.depth), True):
                    r_ = self.eval_fact(f_, fact, H_, L)
                    if r_ is not None:
                        val = r_
                        break
            except Exception:
                val = None
        elif rv.k == "discr":
            pl = rv.place
            if not [e for e in pl[1] if e[0] != "*"]:
                src = self.local_of_ref(body, model.Op({"c": {"l": pl[0], "p": ["*"] * len(pl[1])}})) if pl[1] else pl[0]
                v = L.get(src)
                if isinstance(v, tuple) and v[0] == "opt":
                    v = v[1]
                if isinstance(v, str):
                    vt = {n: int(d) for d, n in rv.j.get("variants", [])}
                    if v in vt:
                        val = ("discr", vt[v])
        if val is None:
            L.pop(l, None)
        else:
            L[l] = val

    def eval_switch_local(self, body, t, L):
        """index of the edge taken when the discriminant is a tracked local, else None"""
        if t.discr.place is None or t.discr.place[1]:
            return None
        v = L.get(t.discr.place[0])
        if v is None:
            return None
        if isinstance(v, bool):
            iv = int(v)
        elif isinstance(v, tuple) and v[0] == "discr":
            iv = v[1]
        else:
            return None
        for k, (val, _) in enumerate(t.targets):
            if val == iv:
                return k
        return len(t.targets)

    def refine(self, f, facts, H):
        """learn from a taken edge when the variable was unknown (None)"""
        al = self.aliases(f)
        for (a, t) in facts:
            if a[0] == "variant":
                v = self.spec.var_of(canon_path(a[1], al))
                if v is not None and H[v] is None and t and self.spec.vars[v]["kind"] == "enum":
                    H[v] = a[2]
                elif v is not None and H[v] is None and self.spec.vars[v]["kind"] == "option" and a[2] in ("Some", "None"):
                    H[v] = a[2] if t else {"Some": "None", "None": "Some"}[a[2]]
            elif a[0] == "eq" and t:
                for (x_, y_) in ((a[1], a[2]), (a[2], a[1])):
                    v = self.spec.var_of(canon_path(x_, al))
                    if v is not None and H[v] is None:
                        c = const_variant(y_)
                        if c is not None:
                            H[v] = c

    def do_assign(self, f, x, al, s, H, bb=None, L=None):
        spec = self.spec
        if not s.lhs[1]:
            return  # binding a local (temporary or named alias) never writes a path rooted at self
        lhs = x.place(s.lhs)
        p = canon_path(lhs, al)
        if p is None:
            return
        rv = x.rvalue(s.rv, x.depth)
        # value held by a tracked local (multi-definition temporaries such as `match .. {a => X, b => Y}`)
        lval = None
        if L is not None and s.rv.k == "use" and s.rv.ops[0].place is not None and not s.rv.ops[0].place[1]:
            lv = L.get(s.rv.ops[0].place[0])
            if isinstance(lv, str):
                lval = lv
        for name, d in spec.vars.items():
            if re.fullmatch(d["path"], p):
                old = H[name]
                new = lval if (lval is not None and d["kind"] == "enum") else self.value_of(rv, d, al, H)
                H[name] = new
                if spec.on_assign:
                    spec.on_assign(name, old, new, H, (f, s.sp, bb), self.report)
        if rv[0] == "aggr":
            self.assign_aggr(f, p, rv, H, al, s.sp, bb)

    def assign_aggr(self, f, p, rv, H, al, sp, bb=None):
        spec = self.spec
        adt, variant, fields, names = rv[1], rv[2], rv[3], rv[4] if len(rv) > 4 else ()
        for i, fe in enumerate(fields):
            nm = names[i] if i < len(names) else str(i)
            sub = clean(p + ("." + nm if not adt.endswith("option::Option") else ""))
            for name, d in spec.vars.items():
                if re.fullmatch(d["path"], sub) and not (adt.endswith("option::Option") and d["kind"] == "option"):
                    old = H[name]
                    new = self.value_of(fe, d, al, H)
                    H[name] = new
                    if spec.on_assign:
                        spec.on_assign(name, old, new, H, (f, sp, bb), self.report)
            if fe[0] == "aggr":
                self.assign_aggr(f, sub, fe, H, al, sp, bb)

    def value_of(self, rv, d, al, H):
        if d["kind"] == "vec":
            if rv[0] == "call" and re.search(r"(Vec|VecDeque)::new$", rv[1]):
                return "empty"
            return None
        if d["kind"] == "option":
            if rv[0] == "aggr" and rv[1].endswith("option::Option"):
                return "None" if rv[2] == "None" else "Some"
            if rv[0] == "call" and re.search(r"Option::take$|mem::take$|mem::replace$", rv[1]):
                return None
            return "Some" if rv[0] == "aggr" else None
        c = const_variant(rv)
        if c is not None:
            return c
        p = canon_path(rv, al)
        v = self.spec.var_of(p)
        if v is not None:
            return H[v]
        return None

    def do_call(self, f, x, al, bb, t, H, L):
        """-> list of (H_frozen, L_frozen) after the call"""
        spec = self.spec
        body = f.body
        c = t.callee()
        ev = self.event_of(c)
        dest = t.dest[0] if (t.dest is not None and not t.dest[1]) else None

        def fin(hs, retval=None):
            out = []
            for h in hs:
                L2 = dict(L)
                if dest is not None:
                    if retval is None:
                        L2.pop(dest, None)
                    else:
                        L2[dest] = retval
                out.append((h, tuple(sorted(L2.items()))))
            return out

        if ev:
            spec.on_event(ev, H, (f, t.sp, bb), self.report)
            return fin([spec.freeze(H)])
        cp = norm_path(c["path"]) if c else ""
        targets, ext = self.prog.callee_targets(c)
        # ---- std models on tracked locals --------------------------------------------------
        a0 = self.local_of_ref(body, t.args[0]) if t.args else None
        v0 = L.get(a0) if a0 is not None else None
        if re.search(r"Result::(is_ok|is_err)$|Option::(is_some|is_none)$", cp) and isinstance(v0, str):
            pos = v0 in ("Ok", "Some")
            want_pos = cp.endswith("is_ok") or cp.endswith("is_some")
            return fin([spec.freeze(H)], pos == want_pos)
        # a boolean computed from tracked state and kept in a local (`let opened = match w { Some(s) => s.state == Opened, .. }`,
        # `let has_writer = self.object_writer.is_some()`): evaluate it in the current store so that a later branch on the local is precise
        if dest is not None and c is not None and (re.search(r"(PartialEq|cmp::PartialEq<.*>)::(eq|ne)$|::eq$|::ne$", cp) or
                                                   re.search(r"Option::(is_some|is_none)$", cp)):
            try:
                e_ = x.call_expr(bb, t, x.depth)
                from .cfg import facts_of
                for fact in facts_of(e_, True):
                    r_ = self.eval_fact(f, fact, H, L)
                    if r_ is not None:
                        return fin([spec.freeze(H)], r_)
            except Exception:
                pass
        # ---- `let s = self.slot.insert(Value {..})`: the same store as `self.slot = Some(Value {..})`, the result aliases the payload -----------
        if re.search(r"option::Option::insert$|Option::insert$", cp) and len(t.args) == 2:
            from .cfg import strip_ref as _sr
            base = canon_path(_sr(x.operand(t.args[0])), al)
            if base is not None:
                val = x.operand(t.args[1])
                for name, d in spec.vars.items():
                    if re.fullmatch(d["path"], base) and d["kind"] == "option":
                        old_ = H[name]
                        H[name] = "Some"
                        if spec.on_assign:
                            spec.on_assign(name, old_, "Some", H, (f, t.sp, bb), self.report)
                if val[0] == "aggr":
                    self.assign_aggr(f, base, val, H, al, t.sp, bb)
                return fin([spec.freeze(H)])
        if re.search(r"Try>?::branch$", cp.replace(" ", "")) or cp.endswith("::branch"):
            if isinstance(v0, str):
                return fin([spec.freeze(H)], "Continue" if v0 in ("Ok", "Some") else "Break")
            return fin([spec.freeze(H)])
        if cp.endswith("::from_residual"):
            rty = body.locals[0]["ty"]
            return fin([spec.freeze(H)], "Err" if "Result<" in rty else ("None" if "Option<" in rty else None))
        if re.search(r"Result::(ok|map|map_err|as_ref|as_mut)$|Option::(as_ref|as_mut|map)$", cp) and isinstance(v0, str) and not self._has_self_closure(x, t):
            r = {"ok": {"Ok": "Some", "Err": "None"}}.get(cp.split("::")[-1], {}).get(v0, v0)
            return fin([spec.freeze(H)], r)
        # ---- `opt.as_ref().map(|s| s.field)` where opt is a tracked option and s.field a tracked enum: Some(current variant) / None ----------
        if dest is not None and re.search(r"Option::map$", cp) and len(t.args) == 2:
            recv_e = x.operand(t.args[0])
            from .cfg import strip_plumbing, strip_ref
            base = canon_path(strip_plumbing(strip_ref(recv_e)), al)
            ov = spec.var_of(base) if base else None
            clo = [sub[1] for sub in walk(x.operand(t.args[1])) if sub[0] == "closure" and sub[1] in self.prog.funcs]
            if ov is not None and spec.vars[ov]["kind"] == "option" and len(clo) == 1:
                cfn = self.prog.funcs[clo[0]]
                cx = X(cfn.body)
                rets = []
                for blk_ in cfn.body.blocks:
                    for st_ in blk_.stmts:
                        if st_.k == "assign" and st_.lhs == (0, ()):
                            rets.append(cx.rvalue(st_.rv, cx.depth))
                if len(rets) == 1:
                    # path of the returned place relative to the closure's element parameter (local 2)
                    pname = cfn.body.names.get(2)
                    rp = canon_path(rets[0], {pname: base} if pname else None)
                    fv = spec.var_of(rp) if rp else None
                    if fv is not None and spec.vars[fv]["kind"] == "enum" and not self._writes_tracked(cfn):
                        if H[ov] == "None":
                            return fin([spec.freeze(H)], ("opt", "None", None))
                        if H[ov] is not None and H[fv] is not None:
                            return fin([spec.freeze(H)], ("opt", "Some", H[fv]))
        # ---- the content of a collection that was moved out of a tracked one (`for item in std::mem::take(&mut self.cache)`): the local holds
        # what the tracked collection held; iterating it yields nothing when that was empty
        if isinstance(v0, tuple) and v0 and v0[0] == "coll":
            m_ = cp.split("::")[-1]
            if m_ in ("into_iter", "rev", "iter", "iter_mut", "drain", "by_ref", "enumerate", "peekable", "deref", "deref_mut"):
                return fin([spec.freeze(H)], v0)
            if m_ in ("next", "next_back", "pop", "pop_front", "pop_back", "first", "last", "peek") and v0[1] == "empty":
                return fin([spec.freeze(H)], "None")
            if m_ in ("is_empty",) and v0[1] == "empty":
                return fin([spec.freeze(H)], True)
            if m_ in ("next", "next_back", "pop", "pop_front", "pop_back", "first", "last", "peek", "len", "is_empty"):
                return fin([spec.freeze(H)])
        # ---- tracked collections (kind 'vec'): clear / grow / pop ---------------------------------
        if t.args:
            pv = spec.var_of(canon_path(x.operand(t.args[0]), al))
            if pv is not None and spec.vars[pv]["kind"] == "vec":
                m = cp.split("::")[-1]
                if re.search(r"mem::take$", cp) or (re.search(r"mem::replace$", cp) and len(t.args) == 2 and
                                                    re.search(r"::(new|default|with_capacity)\(", show(x.operand(t.args[1]), 80))):
                    was = H[pv]
                    H[pv] = "empty"
                    return fin([spec.freeze(H)], ("coll", was))
                if m == "clear":
                    H[pv] = "empty"
                    return fin([spec.freeze(H)])
                if m in ("pop", "pop_front", "pop_back", "first", "last", "get"):
                    if H[pv] == "empty":
                        return fin([spec.freeze(H)], "None")
                    return fin([spec.freeze(H)])
                if m in ("len", "is_empty", "iter", "capacity", "iter_mut", "deref", "deref_mut", "as_slice", "as_mut_slice", "reverse", "sort", "sort_by",
                         "sort_by_key", "sort_unstable", "sort_unstable_by", "sort_unstable_by_key", "swap", "rotate_left", "rotate_right", "contains",
                         "reserve", "shrink_to_fit", "make_contiguous"):
                    # neither empties nor fills the collection (`self.cache.reverse()` reaches the slice through deref_mut)
                    return fin([spec.freeze(H)])
                H[pv] = None
                return fin([spec.freeze(H)])
        # ---- closures passed as arguments ----------------------------------------------------
        clos = []
        for a in t.args:
            e = x.operand(a)
            for sub in walk(e):
                if sub[0] == "closure" and sub[1] in self.prog.funcs:
                    clos.append(sub[1])
        cur = {spec.freeze(H)}
        self_targets = [tp for tp in targets if self.is_self_method(tp)]
        if self_targets and t.args:
            recv = canon_path(x.operand(t.args[0]), al)
            if recv == "self":
                out = []
                for tp in self_targets:
                    for h in cur:
                        self.stack.append("line %s" % (t.sp[1] if t.sp else "?"))
                        try:
                            for (h2, rv) in self.summary(tp, h):
                                out.extend(fin([h2], rv if isinstance(rv, (str, bool)) else None))
                        finally:
                            self.stack.pop()
                return list(set(out))
        # non-self local functions: events they may emit (e.g. BlockWriter::write -> ObjectWriter::write)
        evs = set()
        for tp in targets:
            if not self.is_self_method(tp):
                evs |= self.emits(tp)
        for evn in sorted(evs):
            H2 = spec.thaw(next(iter(cur)))
            spec.on_event(evn, H2, (f, t.sp, bb), self.report)
            cur = {spec.freeze(H2)} | cur
        for i, a in enumerate(t.args):
            aty = t.aty[i] if i < len(t.aty) else ""
            if aty.startswith("&mut "):
                p = canon_path(x.operand(a), al)
                v = spec.var_of(p)
                if v is not None and not re.search(r"::(as_mut|as_deref_mut|get_mut|iter_mut|deref_mut)$", cp):
                    nh = set()
                    for h in cur:
                        d = spec.thaw(h)
                        d[v] = None
                        nh.add(spec.freeze(d))
                    cur = nh
        if clos:
            # how often may the closure run?
            once_if = None
            if re.search(r"Result::(unwrap_or_else|or_else|map_err|inspect_err)$", cp):
                once_if = ("Err",)
            elif re.search(r"Result::(map|and_then|inspect)$", cp):
                once_if = ("Ok",)
            elif re.search(r"Option::(unwrap_or_else|or_else|ok_or_else|get_or_insert_with)$", cp):
                once_if = ("None",)
            elif re.search(r"Option::(map|and_then|inspect|filter|is_some_and|map_or)$", cp):
                once_if = ("Some",)
            if once_if is not None and isinstance(v0, str):
                if v0 not in once_if:
                    return fin(cur)
                out = set()
                for cpth in clos:
                    for h in cur:
                        self.stack.append("line %s" % (t.sp[1] if t.sp else "?"))
                        try:
                            out |= set(h2 for (h2, _) in self.summary(cpth, h))
                        finally:
                            self.stack.pop()
                return fin(out)
            out = set(cur)
            frontier = set(cur)
            rounds = 0
            maxr = 1 if once_if is not None else 6
            while frontier and rounds < maxr:
                rounds += 1
                nxt = set()
                for cpth in clos:
                    for h in frontier:
                        self.stack.append("line %s" % (t.sp[1] if t.sp else "?"))
                        try:
                            for (h2, _) in self.summary(cpth, h):
                                if h2 not in out:
                                    nxt.add(h2)
                        finally:
                            self.stack.pop()
                out |= nxt
                frontier = nxt
            cur = out
        return fin(cur)

    def _writes_tracked(self, cfn):
        """closure body assigns through its arguments / calls anything (then it is not a pure projection)"""
        for blk_ in cfn.body.blocks:
            if blk_.cleanup:
                continue
            if blk_.term.k == "call":
                return True
            for st_ in blk_.stmts:
                if st_.k == "assign" and st_.lhs[1]:
                    return True
        return False

    def _has_self_closure(self, x, t):
        for a in t.args:
            for sub in walk(x.operand(a)):
                if sub[0] == "closure":
                    return True
        return False

    # ---- closure over entry points -----------------------------------------------------------------------------
    def explore(self, entries, finals=(), check_exit=None):
        spec = self.spec
        R = {spec.freeze(spec.initial())}
        frontier = set(R)
        rounds = 0
        while frontier:
            rounds += 1
            nxt = set()
            for h in frontier:
                for e in entries:
                    self.stack = ["[entry %s]" % e.split("::")[-1]]
                    for (h2, _rv) in self.summary(e, h):
                        if check_exit:
                            check_exit(e, spec.thaw(h2), self.report)
                        if h2 not in R:
                            R.add(h2)
                            nxt.add(h2)
            frontier = nxt
        FR = set()
        for h in sorted(R, key=lambda z: tuple(str(v) for v in z)):
            for e in finals:
                self.stack = ["[final %s]" % e.split("::")[-2:][0]]
                for (h2, _rv) in self.summary(e, h):
                    FR.add((h, h2))
        self.stack = []
        return R, FR


def const_variant(e):
    """variant name if e is a constant fieldless enum value"""
    e = strip_ref(e)
    if e[0] == "aggr" and not e[3]:
        return e[2]
    if e[0] == "const" and isinstance(e[2], str):
        m = re.search(r"::(\w+)$", e[2])
        if m and "{" not in e[2]:
            return m.group(1)
    return None
