"""E1 pre-pass: rename recovery.

Rule slots name functions and fields of the reviewed tree (sa/tables/baseline_shapes.json).  A refactoring that only renames a private field or
a private function leaves every behaviour unchanged but would make each slot miss its anchor.  This pass recognises such a rename from the
program's shape and rewrites the *names* in the fact file back to the reviewed ones, so the rules analyse the same code under the names they
know.  It never changes a statement, operand or control-flow edge.

  field:    a struct/enum with the reviewed path whose variants have the same number of fields with the same types in the same order; a
            position whose name differs is a rename when the new name did not exist in the reviewed layout and the reviewed name no longer
            exists in the current one (so a permutation of declarations is never taken for a rename).
  function: a function that is not in the reviewed tree, and a reviewed function (present in this feature configuration) that no longer
            exists, with the same parent path (module / impl) and the same signature; accepted only when the pairing is unique both ways.

Anything else (field added/removed, type changed, ambiguous pairing) is left alone: the rules then fail closed on the missing anchor."""
import json
import os
import re

HERE = os.path.dirname(os.path.dirname(os.path.abspath(__file__)))
SHAPES_FILE = os.path.join(HERE, "tables", "baseline_shapes.json")
_shapes = None


def shapes():
    global _shapes
    if _shapes is None:
        if not os.path.exists(SHAPES_FILE):
            _shapes = {}
        else:
            _shapes = json.load(open(SHAPES_FILE))
    return _shapes


def _parent(p):
    # strip the last path segment (outside generic brackets)
    depth = 0
    for i in range(len(p) - 1, 0, -1):
        c = p[i]
        if c == ">":
            depth += 1
        elif c == "<":
            depth -= 1
        elif c == ":" and p[i - 1] == ":" and depth == 0:
            return p[:i - 1]
    return ""


def field_renames(d):
    sh = shapes().get("adts", {})
    crate = d.get("crate", "")
    out = {}
    for a in d.get("adts", []):
        base = sh.get(crate + "|" + a["path"])
        if base is None or len(base) != len(a["variants"]):
            continue
        for (bname, bfields), v in zip(base, a["variants"]):
            if bname != v["name"] or len(bfields) != len(v["fields"]):
                continue
            if [t for _, t in bfields] != [f["ty"] for f in v["fields"]]:
                continue
            bnames = set(n for n, _ in bfields)
            cnames = set(f["name"] for f in v["fields"])
            for (bn, _), f in zip(bfields, v["fields"]):
                if bn != f["name"] and f["name"] not in bnames and bn not in cnames:
                    out[(a["path"], v["name"], f["name"])] = bn
    return out


def function_renames(d, cfg):
    sh = shapes().get("fns", {})
    crate = d.get("crate", "")
    cur = {}
    for f in d.get("functions", []):
        if f.get("kind") == "closure" or "{closure" in f["path"]:
            continue
        cur[f["path"]] = f
    missing = {}
    for key, e in sh.items():
        c, p = key.split("|", 1)
        if c != crate or (cfg is not None and cfg not in e["cfgs"]) or p in cur or p.startswith("<"):
            continue
        missing[p] = e
    if not missing:
        return {}
    new = [p for p in cur if (crate + "|" + p) not in sh and not p.startswith("<") and not cur[p].get("derived")]
    cand = {}
    for n in new:
        f = cur[n]
        sig = [l["ty"] for l in f["locals"][:f["argc"] + 1]]
        ms = [m for m, e in missing.items() if _parent(m) == _parent(n) and e["sig"] == sig]
        if len(ms) == 1:
            cand.setdefault(ms[0], []).append(n)
    return {ns[0]: m for m, ns in cand.items() if len(ns) == 1}


def _rename_strings(x, fmap, pre):
    """deep in-place replacement of function paths (exact, or followed by `::{closure`)"""
    if isinstance(x, list):
        for i, y in enumerate(x):
            if isinstance(y, str):
                z = _one(y, fmap, pre)
                if z is not y:
                    x[i] = z
            else:
                _rename_strings(y, fmap, pre)
    elif isinstance(x, dict):
        for k, y in x.items():
            if isinstance(y, str):
                z = _one(y, fmap, pre)
                if z is not y:
                    x[k] = z
            else:
                _rename_strings(y, fmap, pre)


def _one(s, fmap, pre):
    if s in fmap:
        return fmap[s]
    if "{closure" in s or "::{" in s:
        for n, m in fmap.items():
            if s.startswith(n + "::{"):
                return m + s[len(n):]
    return s


def _rename_fields(x, by_owner_field):
    if isinstance(x, list):
        for y in x:
            _rename_fields(y, by_owner_field)
    elif isinstance(x, dict):
        if "f" in x and "n" in x and "o" in x:
            k = (x["o"], x["n"])
            if k in by_owner_field:
                x["n"] = by_owner_field[k]
        if isinstance(x.get("t"), str) and x.get("ty") == "&str" and "assertion failed" in x["t"]:
            # the text of a (debug_)assert! quotes the condition: it is a label of the site only
            for (o, n), old_ in by_owner_field.items():
                x["t"] = re.sub(r"(?<=\.)%s\b" % re.escape(n), old_, x["t"])
                if isinstance(x.get("v"), str):
                    x["v"] = re.sub(r"(?<=\.)%s\b" % re.escape(n), old_, x["v"])
        if x.get("k") == "aggr" and "fnames" in x and isinstance(x.get("adt"), str):
            x["fnames"] = [by_owner_field.get((x["adt"], n), n) for n in x["fnames"]]
        for y in x.values():
            if isinstance(y, (list, dict)):
                _rename_fields(y, by_owner_field)


def recover(d, cfg=None):
    """d: facts of one crate (mutated). Returns {"fields": {...}, "functions": {...}} describing what was mapped back."""
    done = {"fields": {}, "functions": {}}
    if not shapes():
        return done
    fr = field_renames(d)
    if fr:
        by_owner_field = {}
        for (adt, variant, new), old in fr.items():
            by_owner_field[(adt, new)] = old
            done["fields"]["%s.%s" % (adt, new)] = old
        for a in d["adts"]:
            for v in a["variants"]:
                for f in v["fields"]:
                    k = (a["path"], f["name"])
                    if k in by_owner_field:
                        f["name"] = by_owner_field[k]
        for f in d["functions"]:
            _rename_fields(f["blocks"], by_owner_field)
            _rename_fields(f.get("promoted", []), by_owner_field)
            _rename_fields(f.get("debug", []), by_owner_field)
    fn = function_renames(d, cfg)
    if fn:
        done["functions"] = dict(fn)
        names = {n: m.rsplit("::", 1)[-1] for n, m in fn.items()}
        for f in d["functions"]:
            if f["path"] in fn:
                f["name"] = names[f["path"]]
        _rename_strings(d["functions"], fn, None)
        _rename_strings(d.get("impls", []), fn, None)
    return done
