"""Loop / recursion inventory with progress classification (C04.R2, C12.R4)."""
import re

from . import model
from .model import X, show, loc, norm_path, walk
from .cfg import Flow, facts_of, Slicer

FINITE_ITERS = re.compile(
    r"(core|std|alloc)::(slice::(iter::)?(Iter|IterMut|Chunks|ChunksMut|ChunksExact|Windows|Split)|ops::(range::)?(Range|RangeInclusive)|path::(Components|Iter|Ancestors)|str::(iter::)?(Chars|CharIndices|Bytes|Split|Lines|SplitWhitespace)|"
    r"vec::(into_iter::)?IntoIter|vec::(drain::)?Drain|collections::(hash::map|hash::set|btree::map|btree::set|vec_deque(::iter|::iter_mut|::into_iter|::drain)?|hash_map|hash_set|btree_map|btree_set)::"
    r"(Iter|IterMut|IntoIter|Keys|Values|ValuesMut|Drain|IntoKeys|IntoValues)|"
    r"iter::(adapters::)?(enumerate::Enumerate|zip::Zip|filter::Filter|map::Map|rev::Rev|step_by::StepBy|take::Take|skip::Skip|"
    r"chain::Chain|cloned::Cloned|copied::Copied|filter_map::FilterMap|flatten::Flatten|flatten::FlatMap|peekable::Peekable|take_while::TakeWhile)|"
    r"str::(iter::)?(Chars|CharIndices|Bytes|Split|SplitN|Lines|SplitWhitespace)|option::(Iter|IntoIter)|result::(Iter|IntoIter)|"
    r"array::(iter::)?IntoIter|string::Drain|std::fs::ReadDir|std::path::(Components|Iter))")
INFINITE_ITERS = re.compile(r"iter::(sources::)?(repeat|repeat_with|from_fn|successors|cycle)|Cycle|Repeat|FromFn|Successors")

POP = re.compile(r"::(pop|pop_front|pop_back|pop_first|pop_last)$")
GROW = re.compile(r"::(push|push_back|push_front|insert|extend|append|entry|or_insert|or_insert_with|resize|resize_with)$")


def natural_loops(body):
    """list of (header, set(blocks), [back-edge sources]) on the normal (non-unwind) CFG"""
    succ = lambda n: body.succs(n, False)
    idom, rpo = model.dominators(None, succ, 0)
    domset = {}
    for n in rpo:
        domset[n] = set(model.dom_chain(idom, n))
    loops = {}
    preds = body.preds(False)
    for u in rpo:
        for v in succ(u):
            if v in domset.get(u, ()):
                # back edge u -> v
                blocks = {v, u}
                st = [u]
                while st:
                    n = st.pop()
                    if n == v:
                        continue
                    for p in preds[n]:
                        if p in domset and p not in blocks:
                            blocks.add(p)
                            st.append(p)
                h = loops.setdefault(v, [set(), []])
                h[0] |= blocks
                h[1].append(u)
    return [(h, bl, srcs) for h, (bl, srcs) in sorted(loops.items())]


def sccs(graph):
    """Tarjan; graph: node -> iterable(nodes)"""
    index = {}
    low = {}
    onst = set()
    st = []
    out = []
    counter = [0]

    def strong(v):
        work = [(v, iter(graph.get(v, ())))]
        index[v] = low[v] = counter[0]
        counter[0] += 1
        st.append(v)
        onst.add(v)
        while work:
            node, it = work[-1]
            adv = False
            for w in it:
                if w not in graph:
                    continue
                if w not in index:
                    index[w] = low[w] = counter[0]
                    counter[0] += 1
                    st.append(w)
                    onst.add(w)
                    work.append((w, iter(graph.get(w, ()))))
                    adv = True
                    break
                elif w in onst:
                    low[node] = min(low[node], index[w])
            if adv:
                continue
            work.pop()
            if work:
                low[work[-1][0]] = min(low[work[-1][0]], low[node])
            if low[node] == index[node]:
                comp = []
                while True:
                    w = st.pop()
                    onst.discard(w)
                    comp.append(w)
                    if w == node:
                        break
                out.append(comp)

    for v in graph:
        if v not in index:
            strong(v)
    return out


def classify_loop(prog, func, header, blocks, srcs):
    """-> (kind, detail) ; kind in iterator|drain|counter|None"""
    body = func.body
    x = X(body)
    flow = Flow(body)
    sl_ = Slicer(body)
    exits = []  # (block, edge index) leaving the loop
    for b in blocks:
        t = body.blocks[b].term
        if t.k == "switch":
            for k in range(len(t.targets) + 1):
                tgt = t.targets[k][1] if k < len(t.targets) else t.otherwise
                if tgt not in blocks:
                    exits.append((b, k))
    # 1. iterator protocol: an exit edge decided by the discriminant of Iterator::next(...)
    for (b, k) in exits:
        for (a, tr) in flow.edge_facts(("e", b, k)):
            if a[0] == "variant":
                e = a[1]
                for c in walk(e):
                    if c[0] == "call" and re.search(r"::next$", c[1]):
                        # self type of the iterator from the call site
                        site_bb = c[3][0]
                        callee = body.blocks[site_bb].term.callee()
                        sty = (callee.get("substs") or ["?"])[0]
                        if INFINITE_ITERS.search(sty):
                            return None, "iterator %s may be infinite" % sty
                        if FINITE_ITERS.search(sty):
                            return "iterator", "Iterator::next on %s; exit on None" % sty[:80]
                        return None, "iterator type %s not in the finite list" % sty[:80]
                    if c[0] == "call" and POP.search(c[1]):
                        coll = show(c[2][0], 120)
                        grown = growth_in_loop(prog, func, blocks, coll)
                        if grown:
                            return None, "drain of %s but the loop body may grow it: %s" % (coll, grown)
                        return "drain", "exit when %s returns None; nothing reachable from the body grows it" % show(c, 100)
    # 2. counter: v = v + c on every iteration, exit compares v
    #    blocks that dominate every back-edge source are executed on each iteration
    every = None
    for s in srcs:
        ch = set(n[1] for n in model.dom_chain(flow.idom(), ("b", s)) if n[0] == "b")
        every = ch if every is None else (every & ch)
    every = (every or set()) & set(blocks)
    for b in sorted(every):
        for s in body.blocks[b].stmts:
            if s.k != "assign":
                continue
            lhs = x.place(s.lhs)
            if lhs[0] != "var":
                continue
            rv = x.rvalue(s.rv, x.depth)
            if rv[0] == "bin" and rv[1] in ("Add", "AddWithOverflow") and rv[2] == lhs and rv[3][0] == "const" and isinstance(rv[3][2], int) and rv[3][2] >= 1:
                name = show(lhs)
                nrx = re.compile(r"(?<![\w.])%s(?![\w])" % re.escape(name))
                for (eb, k) in exits:
                    for (a, tr) in flow.edge_facts(("e", eb, k)):
                        if a[0] in ("lt", "le", "eq"):
                            # the compared value may be a local computed from the counter (`match sbn.checked_sub(off) { Some(o) if o < len => .. }`)
                            txt = " ".join(show(z, 200) for z in (a[1], a[2], sl_.expand(a[1]), sl_.expand(a[2])))
                            if nrx.search(txt):
                                return "counter", "%s += %s on every iteration; exit compares it (%s)" % (name, rv[3][2], show(a[1], 40) + " ~ " + show(a[2], 40))
                        elif a[0] == "variant" and any(c[0] == "call" and re.search(r"::checked_(sub|add)$", c[1]) and any(nrx.search(show(g_, 200)) for g_ in c[2])
                                                       for c in walk(sl_.expand(a[1]))):
                            return "counter", "%s += %s on every iteration; exit on the checked difference with it (%s)" % (name, rv[3][2], show(a[1], 60))
    return None, "no recognised progress measure"


def growth_in_loop(prog, func, blocks, coll_text):
    """growth calls on a collection with the same final field name, in the loop body or in local functions reachable from it"""
    field = coll_text.replace("&", "").split(".")[-1]
    body = func.body
    x = X(body)
    hits = []
    reach = set()
    for b in blocks:
        t = body.blocks[b].term
        if t.k == "call":
            cp = t.callee_path() or ""
            if GROW.search(norm_path(cp)) and t.args:
                tgt = show(x.operand(t.args[0]), 120)
                if tgt.replace("&", "").split(".")[-1] == field:
                    hits.append("%s at line %s" % (model.short_callee(cp), t.sp[1] if t.sp else "?"))
            ts, _ = prog.callee_targets(t.callee())
            reach.update(ts)
    for p in prog.reachable_from(reach):
        g = prog.funcs[p]
        xg = X(g.body)
        for bb, t in g.body.calls():
            cp = t.callee_path() or ""
            if GROW.search(norm_path(cp)) and t.args:
                tgt = show(xg.operand(t.args[0]), 120)
                if tgt.replace("&", "").split(".")[-1] == field:
                    hits.append("%s in %s" % (model.short_callee(cp), p))
    return hits


def check_loops(ctx, rule, entry_regexes, table=None, known_ok=None, stop=()):
    prog = ctx.prog
    table = table or {}
    entries = []
    for r in entry_regexes:
        fs = prog.find(r)
        if not fs:
            raise model.AnchorMissing("no entry function matches %s" % r)
        entries.extend(f.path for f in fs)
    reach = prog.reachable_from(entries, stop=stop)
    ctx.analysed(*reach)
    # recursion
    cg = {p: [q for q in prog.callgraph()[p] if q in reach] for p in reach}
    for comp in sccs(cg):
        if len(comp) > 1 or comp[0] in cg[comp[0]]:
            key = "recursion {%s}" % ", ".join(sorted(comp))
            if key in table:
                rule.ok(key, table[key], prog.funcs[comp[0]].file, how="TABLE")
            else:
                rule.violation(key, "call-graph cycle reachable from %s without a reviewed termination argument" % entry_regexes,
                               loc(prog.funcs[sorted(comp)[0]].sp))
    nloops = 0
    for p in sorted(reach):
        f = prog.funcs[p]
        ls = natural_loops(f.body)
        for n, (h, blocks, srcs) in enumerate(ls):
            nloops += 1
            key = "%s loop#%d" % (p, n + 1)
            t = f.body.blocks[h].term
            where = loc(t.sp) if t.sp else loc(f.sp)
            kind, detail = classify_loop(prog, f, h, blocks, srcs)
            if kind:
                rule.ok(key, "%s: %s" % (kind, detail), where, how="AUTO")
            elif p in table:
                rule.ok(key, "reviewed: " + table[p], where, how="TABLE")
            elif key in table:
                rule.ok(key, "reviewed: " + table[key], where, how="TABLE")
            else:
                rule.violation(key, "loop without a progress argument: %s" % detail, where)
    return nloops
