"""flan — static analysis of ypo/flute over MIR facts exported by mirdump (E0).

Pure standard-library Python (run with /usr/bin/python3).  Nothing in this
package executes flute code; every verdict is computed from the fact file that
the rustc driver produced for /repo's current working tree.
"""
