"""E6 — type-level witnesses: tiny crates checked against the current tree with `cargo +nightly check`.
compile_fail witnesses must fail with the expected error code and their compiling twin must pass."""
import json
import os
import shutil
import subprocess

from . import facts

WDIR = os.path.join(facts.VERIF, "sa", "witness")

WITNESSES = {
    # name: [(bin target, expectation)]  expectation: 'pass' | error code
    "toi_clone": [("toi_clone_fail", "E0277"), ("toi_clone_twin", "pass")],
    "toi_forge": [("toi_forge_fail", "E0616"), ("toi_forge_twin", "pass")],
    "send_sync": [("send_sync_pass", "pass"), ("send_sync_fail", "E0277")],
}

_cache = {}


def build(repo):
    """-> {target: (ok, [error codes])}"""
    repo = os.path.abspath(repo)
    if repo in _cache:
        return _cache[repo]
    import hashlib
    h = hashlib.sha256(facts.tree_hash(repo).encode())
    for root, dirs, fs in sorted(os.walk(WDIR)):
        dirs.sort()
        for f in sorted(fs):
            if "target" in root:
                continue
            h.update(f.encode())
            h.update(open(os.path.join(root, f), "rb").read())
    th = h.hexdigest()[:24]
    wd = os.path.join(facts.CACHE, "witness", th)
    res_file = os.path.join(wd, "result.json")
    if os.path.exists(res_file):
        _cache[repo] = json.load(open(res_file))
        return _cache[repo]
    shutil.rmtree(wd, ignore_errors=True)
    os.makedirs(os.path.join(wd, "src"))
    shutil.copytree(os.path.join(WDIR, "src", "bin"), os.path.join(wd, "src", "bin"))
    with open(os.path.join(WDIR, "Cargo.toml.in")) as fh:
        toml = fh.read().replace("@REPO@", repo)
    with open(os.path.join(wd, "Cargo.toml"), "w") as fh:
        fh.write(toml)
    shutil.copy(os.path.join(repo, "Cargo.lock"), os.path.join(wd, "Cargo.lock"))
    env = facts.base_env()
    env["RUSTFLAGS"] = facts.RUSTFLAGS
    env["CARGO_TARGET_DIR"] = os.path.join(facts.CACHE, "target", "witness")
    import fcntl
    os.makedirs(os.path.join(facts.CACHE, "target"), exist_ok=True)
    with open(os.path.join(facts.CACHE, "target", "witness.lock"), "w") as lk:
        fcntl.flock(lk, fcntl.LOCK_EX)
        p = subprocess.run(["cargo", "+nightly", "check", "--offline", "--bins", "--keep-going", "--message-format=json"],
                           cwd=wd, env=env, stdout=subprocess.PIPE, stderr=subprocess.PIPE, text=True)
    res = {}
    finished = set()
    for line in p.stdout.splitlines():
        try:
            m = json.loads(line)
        except ValueError:
            continue
        if m.get("reason") == "compiler-message":
            tn = m.get("target", {}).get("name")
            if m["message"].get("level") == "error":
                code = (m["message"].get("code") or {}).get("code")
                res.setdefault(tn, {"ok": False, "codes": []})
                res[tn]["ok"] = False
                if code:
                    res[tn]["codes"].append(code)
        elif m.get("reason") == "compiler-artifact":
            tn = m.get("target", {}).get("name")
            if "bin" in m.get("target", {}).get("kind", []):
                res.setdefault(tn, {"ok": True, "codes": []})
    res["_stderr_tail"] = p.stderr[-1500:]
    # flute itself must have compiled: at least one bin artifact or bin error must be present
    with open(res_file, "w") as fh:
        json.dump(res, fh)
    _cache[repo] = res
    return res


def run_witnesses(ctx, rule, names):
    res = build(ctx.repo)
    for n in names:
        for tgt, exp in WITNESSES[n]:
            r = res.get(tgt)
            key = "witness %s expects %s" % (tgt, exp)
            where = "sa/witness/src/bin/%s.rs" % tgt
            if r is None:
                raise facts.FactsError("witness target %s was not built (cargo output: %s)" % (tgt, res.get("_stderr_tail", "")[-600:]))
            if exp == "pass":
                if r["ok"]:
                    rule.ok(key, "compiles", where)
                else:
                    rule.violation(key, "expected to compile but fails with %s" % r["codes"], where)
            else:
                if not r["ok"] and exp in r["codes"]:
                    rule.ok(key, "rejected with %s" % exp, where)
                elif r["ok"]:
                    rule.violation(key, "expected compile error %s but the program type-checks: the ownership guarantee is gone" % exp, where)
                else:
                    rule.violation(key, "fails with %s instead of %s" % (r["codes"], exp), where)
    rule.floor(sum(len(WITNESSES[n]) for n in names), "witness targets")
