"""E1 pre-pass: jump threading over constant boolean joins.

`matches!(x, P if g)`, `a && b`, `a || b`, `match x { P => true, _ => false }` … are lowered to a temporary that is set to a constant on some
paths, after which every path joins in a block that only switches on that temporary.  A path-insensitive flow query then sees the infeasible
combination "took the `false` assignment, left the switch through the `true` edge".  This pass redirects the `goto` of a block whose last
definition of the temporary is a boolean constant straight to the switch target selected by that constant (classic jump threading): the
program's behaviour is unchanged, the infeasible paths disappear, and every engine (flow facts, decision tables, typestate, ranges) sees the
same control flow the source has.

Conditions (all syntactic, checked per function):
  * the join block J has no statements, or only copies `t = copy/move L` feeding the switch, and ends in `switchInt` on a plain local;
  * the predecessor P ends in `goto J` (possibly through empty goto-only blocks) and the last statement of P that writes L is
    `L = const <bool>` with L a plain local whose address is never taken in the body;
  * nothing is threaded through cleanup blocks."""


def _is_local(pl, l=None):
    return isinstance(pl, dict) and pl.get("p") == [] and (l is None or pl.get("l") == l)


def _op_place(op):
    if not isinstance(op, dict):
        return None
    return op.get("c") or op.get("m")


def _address_taken(f):
    out = set()
    for b in f["blocks"]:
        for s in b["stmts"]:
            if s["k"] == "assign" and s["rv"]["k"] in ("ref", "rawptr"):
                pl = s["rv"].get("place")
                if isinstance(pl, dict) and "*" not in pl.get("p", []):
                    out.add(pl["l"])
                elif isinstance(pl, dict) and pl.get("p") and pl["p"][0] != "*":
                    out.add(pl["l"])
    return out


def _switch_source(b):
    """(local, ok): the plain local whose value decides the switch of block b, looking through copy statements inside b; b must contain nothing else"""
    t = b["term"]
    if t["k"] != "switch" or t.get("dty") != "bool":
        return None
    pl = _op_place(t["discr"])
    if not _is_local(pl):
        return None
    l = pl["l"]
    for s in reversed(b["stmts"]):
        if s["k"] != "assign" or not _is_local(s["lhs"], l) or s["rv"]["k"] != "use":
            return None
        src = _op_place(s["rv"].get("op"))
        if not _is_local(src):
            return None
        l = src["l"]
    return l


def _const_bool(s, l):
    if s["k"] != "assign" or not _is_local(s["lhs"], l) or s["rv"]["k"] != "use":
        return None
    k = s["rv"].get("op", {}).get("k") if isinstance(s["rv"].get("op"), dict) else None
    if isinstance(k, dict) and k.get("ty") == "bool" and isinstance(k.get("v"), bool):
        return k["v"]
    return None


def _writes(s, l):
    if s["k"] == "assign":
        return isinstance(s["lhs"], dict) and s["lhs"].get("l") == l
    return isinstance(s.get("place"), dict) and s["place"].get("l") == l


def _uses_outside(f, temps, inside):
    """some local of `temps` is read or written in a block that is not in `inside`"""
    def uses(x):
        if isinstance(x, list):
            return any(uses(y) for y in x)
        if isinstance(x, dict):
            if set(x.keys()) == {"l", "p"}:
                if x["l"] in temps:
                    return True
                return any(isinstance(e, dict) and e.get("i") in temps for e in x["p"])
            return any(uses(v) for v in x.values())
        return False
    for k, ob in enumerate(f["blocks"]):
        if k in inside:
            continue
        if uses(ob["stmts"]) or uses(ob["term"]):
            return True
    return False


def _copy_only(b, known):
    """the statements of b are all plain copies `x = copy/move y` of locals whose constant value is known: returns {x: value} or None"""
    out = {}
    for s in b["stmts"]:
        if s["k"] != "assign" or not _is_local(s["lhs"]) or s["rv"]["k"] != "use":
            return None
        src = _op_place(s["rv"].get("op"))
        if not _is_local(src):
            return None
        v = out.get(src["l"], known.get(src["l"]))
        if v is None:
            return None
        out[s["lhs"]["l"]] = v
    return out


def thread_function(f):
    blocks = f["blocks"]
    taken = _address_taken(f)
    n = 0
    for _round in range(8):
        changed = False
        for i, b in enumerate(blocks):
            if b.get("cleanup") or b["term"]["k"] != "goto":
                continue
            # constant booleans known at the end of b
            known = {}
            for s in b["stmts"]:
                if s["k"] == "assign" and _is_local(s["lhs"]):
                    l = s["lhs"]["l"]
                    v = _const_bool(s, l)
                    if v is not None and l not in taken:
                        known[l] = v
                    else:
                        known.pop(l, None)
                elif isinstance(s.get("lhs"), dict):
                    known.pop(s["lhs"].get("l"), None)
            if not known:
                continue
            j = b["term"]["t"]
            skipped = []       # blocks whose (copy-only) statements are bypassed
            temps = set()      # locals they assign
            tgt = None
            for _hop in range(5):
                if j == i or j in skipped or blocks[j].get("cleanup"):
                    break
                cb = blocks[j]
                cp = _copy_only(cb, known)
                if cp is None:
                    break
                if any(x in taken for x in cp):
                    break
                known = dict(known); known.update(cp)
                temps |= set(cp)
                skipped.append(j)
                t = cb["term"]
                if t["k"] == "goto":
                    j = t["t"]
                    continue
                if t["k"] == "switch" and t.get("dty") == "bool":
                    pl = _op_place(t["discr"])
                    if _is_local(pl) and pl["l"] in known:
                        val = known[pl["l"]]
                        for v, bb in t["targets"]:
                            if bool(v) == val:
                                tgt = bb
                        if tgt is None and val not in [bool(v) for v, _ in t["targets"]]:
                            tgt = t["otherwise"]
                break
            if tgt is None or tgt == i:
                continue
            if temps and _uses_outside(f, temps, set(skipped)):
                continue
            b["term"] = dict(b["term"], t=tgt, threaded=skipped[-1])
            n += 1
            changed = True
        if not changed:
            break
    return n


def normalize_program(d):
    n = 0
    for f in d.get("functions", []):
        if f.get("blocks"):
            n += thread_function(f)
    return n
