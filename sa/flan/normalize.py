"""E1 pre-pass: jump threading over constant boolean joins.

`matches!(x, P if g)`, `a && b`, `a || b`, `match x { P => true, _ => false }` … are lowered to a temporary that is set to a constant on some
paths, after which every path joins in a block that only switches on that temporary.  A path-insensitive flow query then sees the infeasible
combination "took the `false` assignment, left the switch through the `true` edge".  This pass redirects the `goto` of a block whose last
definition of the temporary is a boolean constant straight to the switch target selected by that constant (classic jump threading): the
program's behaviour is unchanged, the infeasible paths disappear, and every engine (flow facts, decision tables, typestate, ranges) sees the
same control flow the source has.

Conditions (all syntactic, checked per function):
  * the join block J has no statements, or only copies `t = copy/move L` feeding the switch, and ends in `switchInt` on a plain local;
  * the predecessor P ends in `goto J` (possibly through empty goto-only blocks) and the last statement of P that writes L is
    `L = const <bool>` with L a plain local whose address is never taken in the body;
  * nothing is threaded through cleanup blocks."""


def _is_local(pl, l=None):
    return isinstance(pl, dict) and pl.get("p") == [] and (l is None or pl.get("l") == l)


def _op_place(op):
    if not isinstance(op, dict):
        return None
    return op.get("c") or op.get("m")


def _address_taken(f):
    out = set()
    for b in f["blocks"]:
        for s in b["stmts"]:
            if s["k"] == "assign" and s["rv"]["k"] in ("ref", "rawptr"):
                pl = s["rv"].get("place")
                if isinstance(pl, dict) and "*" not in pl.get("p", []):
                    out.add(pl["l"])
                elif isinstance(pl, dict) and pl.get("p") and pl["p"][0] != "*":
                    out.add(pl["l"])
    return out


def _switch_source(b):
    """(local, ok): the plain local whose value decides the switch of block b, looking through copy statements inside b; b must contain nothing else"""
    t = b["term"]
    if t["k"] != "switch" or t.get("dty") != "bool":
        return None
    pl = _op_place(t["discr"])
    if not _is_local(pl):
        return None
    l = pl["l"]
    for s in reversed(b["stmts"]):
        if s["k"] != "assign" or not _is_local(s["lhs"], l) or s["rv"]["k"] != "use":
            return None
        src = _op_place(s["rv"].get("op"))
        if not _is_local(src):
            return None
        l = src["l"]
    return l


def _const_bool(s, l):
    if s["k"] != "assign" or not _is_local(s["lhs"], l) or s["rv"]["k"] != "use":
        return None
    k = s["rv"].get("op", {}).get("k") if isinstance(s["rv"].get("op"), dict) else None
    if isinstance(k, dict) and k.get("ty") == "bool" and isinstance(k.get("v"), bool):
        return k["v"]
    return None


def _writes(s, l):
    if s["k"] == "assign":
        return isinstance(s["lhs"], dict) and s["lhs"].get("l") == l
    return isinstance(s.get("place"), dict) and s["place"].get("l") == l


def _uses_outside(f, temps, inside):
    """some local of `temps` is read or written in a block that is not in `inside`"""
    def uses(x):
        if isinstance(x, list):
            return any(uses(y) for y in x)
        if isinstance(x, dict):
            if set(x.keys()) == {"l", "p"}:
                if x["l"] in temps:
                    return True
                return any(isinstance(e, dict) and e.get("i") in temps for e in x["p"])
            return any(uses(v) for v in x.values())
        return False
    for k, ob in enumerate(f["blocks"]):
        if k in inside:
            continue
        if uses(ob["stmts"]) or uses(ob["term"]):
            return True
    return False


def _copy_only(b, known):
    """the statements of b are all plain copies `x = copy/move y` of locals whose constant value is known: returns {x: value} or None"""
    out = {}
    for s in b["stmts"]:
        if s["k"] != "assign" or not _is_local(s["lhs"]) or s["rv"]["k"] != "use":
            return None
        src = _op_place(s["rv"].get("op"))
        if not _is_local(src):
            return None
        v = out.get(src["l"], known.get(src["l"]))
        if v is None:
            return None
        out[s["lhs"]["l"]] = v
    return out


def thread_function(f):
    blocks = f["blocks"]
    taken = _address_taken(f)
    n = 0
    for _round in range(8):
        changed = False
        for i, b in enumerate(blocks):
            if b.get("cleanup") or b["term"]["k"] != "goto":
                continue
            # constant booleans known at the end of b
            known = {}
            for s in b["stmts"]:
                if s["k"] == "assign" and _is_local(s["lhs"]):
                    l = s["lhs"]["l"]
                    v = _const_bool(s, l)
                    if v is not None and l not in taken:
                        known[l] = v
                    else:
                        known.pop(l, None)
                elif isinstance(s.get("lhs"), dict):
                    known.pop(s["lhs"].get("l"), None)
            if not known:
                continue
            j = b["term"]["t"]
            skipped = []       # blocks whose (copy-only) statements are bypassed
            temps = set()      # locals they assign
            tgt = None
            for _hop in range(5):
                if j == i or j in skipped or blocks[j].get("cleanup"):
                    break
                cb = blocks[j]
                cp = _copy_only(cb, known)
                if cp is None:
                    break
                if any(x in taken for x in cp):
                    break
                known = dict(known); known.update(cp)
                temps |= set(cp)
                skipped.append(j)
                t = cb["term"]
                if t["k"] == "goto":
                    j = t["t"]
                    continue
                if t["k"] == "switch" and t.get("dty") == "bool":
                    pl = _op_place(t["discr"])
                    if _is_local(pl) and pl["l"] in known:
                        val = known[pl["l"]]
                        for v, bb in t["targets"]:
                            if bool(v) == val:
                                tgt = bb
                        if tgt is None and val not in [bool(v) for v, _ in t["targets"]]:
                            tgt = t["otherwise"]
                break
            if tgt is None or tgt == i:
                continue
            if temps and _uses_outside(f, temps, set(skipped)):
                continue
            b["term"] = dict(b["term"], t=tgt, threaded=skipped[-1])
            n += 1
            changed = True
        if not changed:
            break
    return n


def _fn_path(t):
    if t.get("k") != "call" or not isinstance(t.get("func"), dict):
        return ""
    return ((t["func"].get("k") or {}).get("fn") or {}).get("path", "") if isinstance(t["func"].get("k"), dict) else ""


def _plain(op):
    pl = _op_place(op)
    return pl["l"] if _is_local(pl) else None


def _mentions(x, locs):
    if isinstance(x, list):
        return any(_mentions(y, locs) for y in x)
    if isinstance(x, dict):
        if set(x.keys()) == {"l", "p"}:
            return x["l"] in locs
        return any(_mentions(v, locs) for v in x.values())
    return False


def thread_try(f, max_chain=14):
    """`?` applied to a value whose variant is known where it is produced - `from_residual(..)` (an Err/None built by an inner `?`), or an
    `Ok(..)/Some(..)/Err(..)/None` aggregate - reaches `Try::branch` and the switch on its result through a straight chain of blocks (the
    return path of an inlined helper: copies, drop flags, drops).  Every path-insensitive query sees that chain joined with the paths of the
    other variant, and with it the infeasible "the helper failed, the caller's `?` continued".  The chain is cloned for the known producer
    and its final switch replaced by the edge the variant selects (Err/None -> Break, Ok/Some -> Continue); the originals stay for the other
    producers.  std semantics used: `from_residual` yields the failure variant, `branch` maps Ok/Some to Continue and Err/None to Break."""
    import copy as _copy
    blocks = f["blocks"]
    n0 = len(blocks)
    done = 0
    for p in range(n0):
        b = blocks[p]
        if b.get("cleanup"):
            continue
        t = b["term"]
        known = None
        if t["k"] == "call" and _fn_path(t).endswith("FromResidual::from_residual") and _is_local(t.get("dest")) and isinstance(t.get("t"), int):
            dty_ = f["locals"][t["dest"]["l"]]["ty"] if t["dest"]["l"] < len(f["locals"]) else ""
            known = (t["dest"]["l"], "Break", "Err" if "Result<" in dty_[:40] else ("None" if "Option<" in dty_[:40] else None))
        elif t["k"] == "goto":
            for st in b["stmts"]:
                if st["k"] != "assign" or not isinstance(st.get("lhs"), dict):
                    continue
                if _is_local(st["lhs"]) and st["rv"]["k"] == "aggr" and st["rv"].get("ak") == "adt" and \
                        st["rv"].get("adt") in ("std::result::Result", "core::result::Result", "std::option::Option", "core::option::Option") and \
                        st["rv"].get("variant") in ("Ok", "Some", "Err", "None"):
                    known = (st["lhs"]["l"], "Continue" if st["rv"]["variant"] in ("Ok", "Some") else "Break", st["rv"]["variant"])
                elif known is not None and st["lhs"].get("l") == known[0]:
                    known = None
        if known is None:
            continue
        aliases = {known[0]}
        cur = t["t"]
        chain = []
        found = None
        for _step in range(max_chain):
            if cur is None or cur >= n0 or cur == p or cur in chain:
                break
            cb = blocks[cur]
            if cb.get("cleanup"):
                break
            ok = True
            for st in cb["stmts"]:
                if st["k"] != "assign" or not isinstance(st.get("lhs"), dict):
                    if _mentions(st, aliases):
                        ok = False
                    continue
                src = _plain(st["rv"].get("op")) if st["rv"]["k"] == "use" else None
                if src is not None and src in aliases and _is_local(st["lhs"]):
                    aliases.add(st["lhs"]["l"])
                elif st["lhs"].get("l") in aliases:
                    ok = False      # the tracked value is overwritten / written through
                elif st["rv"]["k"] in ("ref", "rawptr") and _mentions(st["rv"], aliases) and st["rv"].get("mut"):
                    ok = False
            if not ok:
                break
            ct = cb["term"]
            if ct["k"] == "switch" and known[2] is not None:
                # `match v { Some(..) => .., None => .. }` on the tracked value itself (the result of a rewritten combinator, a multi-arm `let`)
                dl = _plain(ct["discr"])
                vt = None
                for st in cb["stmts"]:
                    if st["k"] == "assign" and _is_local(st["lhs"], dl) and st["rv"]["k"] == "discr" and _is_local(st["rv"].get("place")) and st["rv"]["place"]["l"] in aliases:
                        vt = {nm: int(v) for v, nm in st["rv"].get("variants", [])}
                if vt and known[2] in vt:
                    tgt = None
                    for v, bb in ct["targets"]:
                        if int(v) == vt[known[2]]:
                            tgt = bb
                    if tgt is None and vt[known[2]] not in [int(v) for v, _ in ct["targets"]]:
                        tgt = ct["otherwise"]
                    if tgt is not None:
                        found = (None, cur, tgt)
                break
            if ct["k"] == "goto":
                chain.append(cur)
                cur = ct["t"]
                continue
            if ct["k"] == "drop":
                if _mentions(ct.get("place"), aliases):
                    break
                chain.append(cur)
                cur = ct.get("t")
                continue
            if ct["k"] == "call":
                fp = _fn_path(ct)
                if fp.endswith("Try::branch") and len(ct.get("args", [])) == 1 and _plain(ct["args"][0]) in aliases and _is_local(ct.get("dest")) and isinstance(ct.get("t"), int):
                    K = ct["t"]
                    kb = blocks[K] if K < n0 else None
                    if kb is None or kb.get("cleanup") or kb["term"]["k"] != "switch":
                        break
                    dl = _plain(kb["term"]["discr"])
                    vt = None
                    for st in kb["stmts"]:
                        if st["k"] == "assign" and _is_local(st["lhs"], dl) and st["rv"]["k"] == "discr" and _is_local(st["rv"].get("place"), ct["dest"]["l"]):
                            vt = {nm: int(v) for v, nm in st["rv"].get("variants", [])}
                        elif st["k"] == "assign" and st["lhs"].get("l") == ct["dest"]["l"]:
                            vt = None
                            break
                    if not vt or known[1] not in vt:
                        break
                    tgt = None
                    for v, bb in kb["term"]["targets"]:
                        if int(v) == vt[known[1]]:
                            tgt = bb
                    if tgt is None:
                        break
                    found = (cur, K, tgt)
                    break
                if _mentions(ct.get("args"), aliases) or (isinstance(ct.get("dest"), dict) and ct["dest"].get("l") in aliases) or not isinstance(ct.get("t"), int):
                    break
                chain.append(cur)
                cur = ct["t"]
                continue
            break
        if found is None:
            continue
        J, K, tgt = found
        seq = chain + ([J] if J is not None else []) + [K]
        base = len(blocks)
        for i, bi in enumerate(seq):
            nb = _copy.deepcopy(blocks[bi])
            nb["cloned_from"] = bi
            if bi == K:
                nb["term"] = {"k": "goto", "t": tgt, "sp": blocks[bi]["term"].get("sp"), "threaded": K}
            else:
                nb["term"]["t"] = base + i + 1
            blocks.append(nb)
        b["term"] = dict(b["term"], t=base, try_threaded=known[1])
        done += 1
    return done


def devirtualise(f):
    """`let secs = Duration::from_secs; secs(5)`: a call through a local that holds one function item is a call of that function"""
    blocks = f["blocks"]
    ndef = {}
    single = {}
    for b in blocks:
        for st in b["stmts"]:
            if st["k"] == "assign" and isinstance(st.get("lhs"), dict):
                l = st["lhs"]["l"]
                ndef[l] = ndef.get(l, 0) + 1
                if _is_local(st["lhs"]):
                    single[l] = st["rv"]
        t = b["term"]
        if t["k"] == "call" and isinstance(t.get("dest"), dict):
            ndef[t["dest"]["l"]] = ndef.get(t["dest"]["l"], 0) + 1
    n = 0
    for b in blocks:
        t = b["term"]
        if t["k"] != "call" or not isinstance(t.get("func"), dict):
            continue
        l = _plain(t["func"])
        hops = 0
        while l is not None and hops < 4 and ndef.get(l) == 1 and l in single:
            rv = single[l]
            if rv["k"] != "use":
                break
            op = rv.get("op")
            if isinstance(op, dict) and isinstance(op.get("k"), dict) and "fn" in op["k"]:
                t["func"] = {"k": op["k"]}
                n += 1
                break
            l = _plain(op)
            hops += 1
    return n


def _state_transfer_stmt(st, known, taken):
    """effect of one statement on the map  local -> ('b', bool) | ('v', variant name)"""
    if not isinstance(st.get("lhs"), dict):
        if st.get("k") == "setdiscr" and isinstance(st.get("place"), dict):
            known.pop(st["place"].get("l"), None)
        return
    l = st["lhs"]["l"]
    if st["lhs"].get("p"):
        known.pop(l, None)
        return
    if st["k"] != "assign" or l in taken:
        known.pop(l, None)
        return
    rv = st["rv"]
    v = None
    if rv["k"] == "use":
        op = rv.get("op")
        k = op.get("k") if isinstance(op, dict) else None
        if isinstance(k, dict) and k.get("ty") == "bool" and isinstance(k.get("v"), bool):
            v = ("b", k["v"])
        else:
            src = _plain(op)
            if src is not None and src in known:
                v = known[src]
    elif rv["k"] == "aggr" and rv.get("ak") == "adt" and rv.get("adt") in ("std::option::Option", "core::option::Option", "std::result::Result", "core::result::Result") \
            and rv.get("variant") in ("Some", "None", "Ok", "Err"):
        v = ("v", rv["variant"])
    if v is None:
        known.pop(l, None)
    else:
        known[l] = v


def _succ_edges(t):
    """[(key, target)] of the normal successors of a terminator; key identifies the edge for redirection"""
    k = t["k"]
    if k == "goto":
        return [(("t",), t["t"])]
    if k in ("call", "drop", "assert"):
        return [(("t",), t["t"])] if isinstance(t.get("t"), int) else []
    if k == "switch":
        return [(("s", i), bb) for i, (v, bb) in enumerate(t["targets"])] + [(("o",), t["otherwise"])]
    return []


def thread_states(f, max_chain=14, max_clones=80):
    """Generalisation of thread_function / thread_try: the constant (bool) or variant (Option/Result) a plain local holds is computed by a forward
    data-flow over the whole body (a value survives joins only when every incoming path agrees), and threading starts at any *edge* where such a
    value is known - not only at the block that assigns it.  `let mut found = None; for x in xs { if p(x) { found = Some(x); break } }
    let x = found?;` leaves the loop through its normal end with `found` still None on every path, and through the `break` with Some: both
    paths reach the same `?`, and each is routed to the arm its value selects."""
    import copy as _copy
    blocks = f["blocks"]
    n0 = len(blocks)
    if n0 > 600:
        return 0
    taken = _address_taken(f)
    locs = f["locals"]
    # ---- forward data-flow ---------------------------------------------------------------------------------------------------------------
    entry = {0: {}}
    work = [0]
    out_state = {}
    it = 0
    while work and it < 20000:
        it += 1
        bi = work.pop()
        b = blocks[bi]
        known = dict(entry[bi])
        for st in b["stmts"]:
            _state_transfer_stmt(st, known, taken)
        t = b["term"]
        if t["k"] == "call" and isinstance(t.get("dest"), dict):
            dl = t["dest"]["l"]
            known.pop(dl, None)
            if _is_local(t["dest"]) and _fn_path(t).endswith("FromResidual::from_residual") and dl < len(locs) and dl not in taken:
                ty = locs[dl]["ty"]
                if "Result<" in ty[:40]:
                    known[dl] = ("v", "Err")
                elif "Option<" in ty[:40]:
                    known[dl] = ("v", "None")
        out_state[bi] = known
        succs = [tg for _, tg in _succ_edges(t)]
        if isinstance(t.get("unwind"), int):
            succs.append(t["unwind"])
        for sb in succs:
            if sb is None or sb >= n0:
                continue
            if sb not in entry:
                entry[sb] = dict(known)
                work.append(sb)
            else:
                old = entry[sb]
                new = {k: v for k, v in old.items() if known.get(k) == v}
                if new != old:
                    entry[sb] = new
                    work.append(sb)
    # ---- threading from edges ---------------------------------------------------------------------------------------------------------------
    done = 0
    for p in range(n0):
        b = blocks[p]
        if b.get("cleanup") or p not in out_state or b.get("cloned_from") is not None:
            continue
        base_known = out_state[p]
        if not base_known:
            continue
        for (ekey, start) in _succ_edges(b["term"]):
            if done >= max_clones or start is None or start >= n0:
                continue
            known = dict(base_known)
            cur = start
            chain = []
            found = None
            for _step in range(max_chain):
                if cur is None or cur >= n0 or cur == p or cur in chain:
                    break
                cb = blocks[cur]
                if cb.get("cleanup"):
                    break
                kn = dict(known)
                for st in cb["stmts"]:
                    _state_transfer_stmt(st, kn, taken)
                ct = cb["term"]
                if ct["k"] == "switch":
                    dl = _plain(ct["discr"])
                    tgt = None
                    if ct.get("dty") == "bool" and dl in kn and kn[dl][0] == "b":
                        val = kn[dl][1]
                        for v, bb in ct["targets"]:
                            if bool(v) == val:
                                tgt = bb
                        if tgt is None and val not in [bool(v) for v, _ in ct["targets"]]:
                            tgt = ct["otherwise"]
                    else:
                        for st in cb["stmts"]:
                            if st["k"] == "assign" and _is_local(st.get("lhs"), dl) and st["rv"]["k"] == "discr" and _is_local(st["rv"].get("place")):
                                m = st["rv"]["place"]["l"]
                                # the value tested is the one held *before* this block's later statements: use the state at the discr read
                                k0 = dict(known)
                                for st2 in cb["stmts"]:
                                    if st2 is st:
                                        break
                                    _state_transfer_stmt(st2, k0, taken)
                                if m in k0 and k0[m][0] == "v":
                                    vt = {nm: int(v) for v, nm in st["rv"].get("variants", [])}
                                    if k0[m][1] in vt:
                                        for v, bb in ct["targets"]:
                                            if int(v) == vt[k0[m][1]]:
                                                tgt = bb
                                        if tgt is None and vt[k0[m][1]] not in [int(v) for v, _ in ct["targets"]]:
                                            tgt = ct["otherwise"]
                    if tgt is not None and chain is not None:
                        found = (None, cur, tgt)
                    break
                if ct["k"] == "call" and _fn_path(ct).endswith("Try::branch") and len(ct.get("args", [])) == 1 and _is_local(ct.get("dest")) and isinstance(ct.get("t"), int):
                    m = _plain(ct["args"][0])
                    if m in kn and kn[m][0] == "v" and ct["t"] < n0:
                        K = ct["t"]
                        kb = blocks[K]
                        if not kb.get("cleanup") and kb["term"]["k"] == "switch":
                            dl = _plain(kb["term"]["discr"])
                            vt = None
                            for st in kb["stmts"]:
                                if st["k"] == "assign" and _is_local(st.get("lhs"), dl) and st["rv"]["k"] == "discr" and _is_local(st["rv"].get("place"), ct["dest"]["l"]):
                                    vt = {nm: int(v) for v, nm in st["rv"].get("variants", [])}
                            cls = "Continue" if kn[m][1] in ("Ok", "Some") else "Break"
                            if vt and cls in vt:
                                for v, bb in kb["term"]["targets"]:
                                    if int(v) == vt[cls]:
                                        found = (cur, K, bb)
                    break
                # (blocks ending in a call are not copied: a copy would show the call site twice to every rule that enumerates sites)
                if ct["k"] in ("goto", "drop", "assert"):
                    if ct["k"] == "call":
                        if isinstance(ct.get("dest"), dict):
                            kn.pop(ct["dest"]["l"], None)
                        # a call that receives a tracked local by value may consume it; by reference it cannot change a non-address-taken local
                        for a_ in ct.get("args", []):
                            pl_ = _plain(a_)
                            if pl_ is not None and isinstance(a_, dict) and "m" in a_:
                                kn.pop(pl_, None)
                    elif ct["k"] == "drop" and isinstance(ct.get("place"), dict):
                        kn.pop(ct["place"].get("l"), None)
                    known = kn
                    chain.append(cur)
                    cur = ct.get("t")
                    if not known:
                        break
                    continue
                break
            if found is None:
                continue
            J, K, tgt = found
            if not chain and J is None and K == start:
                seq = [K]
            else:
                seq = chain + ([J] if J is not None else []) + [K]
            base = len(blocks)
            for i, bi in enumerate(seq):
                nb = _copy.deepcopy(blocks[bi])
                nb["cloned_from"] = bi
                if bi == K and i == len(seq) - 1:
                    nb["term"] = {"k": "goto", "t": tgt, "sp": blocks[bi]["term"].get("sp"), "threaded": K}
                else:
                    nb["term"]["t"] = base + i + 1
                blocks.append(nb)
            t = b["term"]
            if ekey[0] == "t":
                t["t"] = base
            elif ekey[0] == "s":
                t["targets"][ekey[1]][1] = base
            else:
                t["otherwise"] = base
            t["state_threaded"] = True
            done += 1
    return done


def normalize_program(d):
    n = 0
    for f in d.get("functions", []):
        if f.get("blocks"):
            n += devirtualise(f)
            n += thread_function(f)
            n += thread_try(f)
            n += thread_states(f)
    return n
