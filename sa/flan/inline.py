"""E1 pre-pass: functions that did not exist in the reviewed tree (sa/tables/baseline_functions.txt) are inlined into their callers.

The rules were written - and their instances confirmed - against the functions of the reviewed tree.  A function that is not in that baseline
(typically a private helper extracted by a refactoring) is unknown to every rule slot, so it is analysed as part of each caller: the call
terminator is replaced by the callee's blocks (locals renumbered, arguments assigned to the parameters, `return` turned into an assignment
of the destination and a goto).  Inlining is purely syntactic and changes no behaviour of the analysed program; it is bounded (depth 3, no
recursion, callee size <= 200 blocks) and only applies to statically resolved calls of local non-closure functions."""
import copy
import os

HERE = os.path.dirname(os.path.dirname(os.path.abspath(__file__)))
BASELINE_FILE = os.path.join(HERE, "tables", "baseline_functions.txt")
MAX_BLOCKS = 200
MAX_DEPTH = 3


def load_baseline():
    if not os.path.exists(BASELINE_FILE):
        return None
    return set(l.strip() for l in open(BASELINE_FILE) if l.strip() and not l.startswith("#"))


def _is_place(d):
    return isinstance(d, dict) and set(d.keys()) == {"l", "p"}


def _remap(x, loff, boff, poff):
    """deep copy of a JSON fragment with locals shifted by loff (block targets are handled by the caller)"""
    if isinstance(x, list):
        return [_remap(y, loff, boff, poff) for y in x]
    if isinstance(x, dict):
        if _is_place(x):
            return {"l": x["l"] + loff, "p": [({"i": e["i"] + loff} if isinstance(e, dict) and set(e.keys()) == {"i"} else copy.deepcopy(e)) for e in x["p"]]}
        out = {}
        for k, v in x.items():
            if k == "promoted" and isinstance(v, int):
                out[k] = v + poff
            else:
                out[k] = _remap(v, loff, boff, poff)
        return out
    return x


def _callee_of(term, by_path):
    if term.get("k") != "call":
        return None
    fn = (term.get("func") or {}).get("k", {}).get("fn") if isinstance(term.get("func"), dict) else None
    if not fn:
        return None
    if fn.get("rkind") not in ("item", None) and not fn.get("rlocal"):
        return None
    p = fn.get("rpath") or fn.get("path")
    if fn.get("rkind") == "virtual":
        return None
    return p if p in by_path else None


def splice(f, bi, g, upvars_unnamed=False):
    """replace the call terminator of block bi of f by the (already deep-copied) body g: locals renumbered, arguments assigned to the parameters,
    `return` turned into an assignment of the destination and a goto.  upvars_unnamed: debug names of places projected from parameter 1 (the
    captures of a closure) are dropped as well, so that they are shown in the caller's terms."""
    blk = f["blocks"][bi]
    t = blk["term"]
    loff = len(f["locals"])
    boff = len(f["blocks"])
    poff = len(f.get("promoted", []))
    f["locals"].extend(copy.deepcopy(g["locals"]))
    f.setdefault("promoted", []).extend(copy.deepcopy(g.get("promoted", [])))
    for dbg in g.get("debug", []):
        pl_ = (dbg.get("val") or {}).get("place")
        if pl_ and upvars_unnamed and pl_["l"] == 1:
            continue
        if pl_ and not pl_["p"] and 1 <= pl_["l"] <= g["argc"]:
            # parameters stay unnamed: they are single-definition temporaries (= the argument), so expressions over them are
            # shown in terms of the caller's values (`self.block_writer`, not `self~2.block_writer`)
            continue
        nd = _remap(dbg, loff, boff, poff)
        nd.pop("arg", None)
        f["debug"].append(nd)
    sp = t.get("sp")
    # arguments -> parameters
    for i, a in enumerate(t.get("args", [])):
        blk["stmts"].append({"k": "assign", "lhs": {"l": loff + 1 + i, "p": []}, "rv": {"k": "use", "op": copy.deepcopy(a)}, "sp": sp})
    dest = t.get("dest")
    ret_to = t.get("t")
    unwind = t.get("unwind")
    for gb in g["blocks"]:
        nb = {"cleanup": gb["cleanup"], "stmts": _remap(gb["stmts"], loff, boff, poff), "term": _remap(gb["term"], loff, boff, poff)}
        nt = nb["term"]
        k = nt["k"]
        if k == "return":
            if dest is not None:
                nb["stmts"].append({"k": "assign", "lhs": copy.deepcopy(dest), "rv": {"k": "use", "op": {"m": {"l": loff, "p": []}}}, "sp": sp})
            nb["term"] = {"k": "goto", "t": ret_to, "sp": sp} if ret_to is not None else {"k": "unreachable", "sp": sp}
        else:
            if isinstance(nt.get("t"), int):
                nt["t"] = nt["t"] + boff
            if isinstance(nt.get("unwind"), int):
                nt["unwind"] = nt["unwind"] + boff
            if k == "switch":
                nt["targets"] = [[v, tt + boff] for v, tt in nt["targets"]]
                nt["otherwise"] = nt["otherwise"] + boff
            if k == "resume" and unwind is not None:
                nb["term"] = {"k": "goto", "t": unwind, "sp": sp}
        f["blocks"].append(nb)
    blk["term"] = {"k": "goto", "t": boff, "sp": sp}


def inline_program(d, baseline=None):
    """d: facts dict of one crate (mutated in place); returns the list of (caller, callee) pairs that were inlined"""
    if baseline is None:
        baseline = load_baseline()
    if baseline is None:
        return []
    fns = d["functions"]
    by_path = {f["path"]: f for f in fns}
    new = set(p for p, f in by_path.items() if p not in baseline and f.get("kind") != "closure" and not f.get("derived") and
              f.get("parent") not in by_path)   # closures belong to their parent
    new = set(p for p in new if "{closure" not in p and len(by_path[p]["blocks"]) <= MAX_BLOCKS)
    if not new:
        return []
    done = []
    pristine = {p: copy.deepcopy(by_path[p]) for p in new}

    def inline_into(f, depth, stack):
        changed = True
        rounds = 0
        while changed and rounds < 50:
            changed = False
            rounds += 1
            for bi, blk in enumerate(f["blocks"]):
                t = blk["term"]
                cp = _callee_of(t, by_path)
                if cp is None or cp not in new or cp in stack or cp == f["path"] or depth >= MAX_DEPTH:
                    continue
                g = copy.deepcopy(pristine[cp])
                inline_into(g, depth + 1, stack + [cp])
                splice(f, bi, g)
                done.append((f["path"], cp))
                changed = True
                break
    for f in fns:
        if f["path"] in new:
            continue
        inline_into(f, 0, [f["path"]])
    # a new function none of whose call sites remains (and that is not reachable from outside the crate) is now part of its callers only
    still = set()
    for f in fns:
        if f["path"] in new:
            continue
        for blk in f["blocks"]:
            cp = _callee_of(blk["term"], by_path)
            if cp in new:
                still.add(cp)
        txt = None
    inlined_callees = set(c for _, c in done)
    drop = set(p for p in inlined_callees if p not in still and by_path[p].get("vis") != "pub")
    if drop:
        # (their closures stay: the inlined code still builds and calls them)
        d["functions"] = [f for f in fns if f["path"] not in drop]
    d.setdefault("inlined", []).extend(done)
    return done
