"""C12 — transfer lifecycle: counter discipline, expiry polarity, requeue-or-forget, bounded sender loops."""
import re

from ..rules import *  # noqa
from ..model import X, show, loc, walk
from ..cfg import Flow, Slicer, find_calls
from .. import polarity, loops

TI = "sender::filedesc::TransferInfo"
FD = "sender::filedesc::FileDesc"


def transfer_counter_rule(ctx, r1):
    """who writes the per-object transfer counters, and with what (shared with C02.R6 / C08.R9: is_last_transfer, which raises the B flag,
    assumes the running transfer is not yet counted)"""
    prog = ctx.prog
    def chk_count(a):
        fn = a["func"].path
        v = a["value"]
        if a["kind"] == "construct":
            return None
        if fn.endswith("TransferInfo::done") or prog.folded().get(TI + "::done") == fn:
            if not (v[0] == "bin" and v[1].startswith("Add") and show(v[3]) == "1" and "transfer_count" in show(v[2])):
                return "in done the counter must be incremented by exactly 1, found %s" % show(v, 80)
        elif fn.endswith("TransferInfo::init"):
            if not (v[0] == "const" and v[2] == 0):
                return "in init the counter may only be reset to 0, found %s" % show(v, 80)
            flow = Flow(a["func"].body)
            fs = flow.facts_at(a["bb"])
            has_car = any(f[0][0] == "variant" and "carousel_mode" in show(f[0][1]) and ((f[0][2] == "Some") == f[1]) for f in fs)
            if not has_car:
                return "the reset to 0 is not guarded by carousel_mode.is_some()"
        return None

    wwf(r1, prog, TI, "transfer_count", [r"TransferInfo::(done|init)$"], kinds=("assign", "assign_sub", "borrow_mut"), value_check=chk_count)

    def chk_total(a):
        v = a["value"]
        if not (v[0] == "bin" and v[1].startswith("Add") and show(v[3]) == "1" and "total_nb_transfer" in show(v[2])):
            return "total_nb_transfer must be incremented by exactly 1, found %s" % show(v, 80)
        return None

    wwf(r1, prog, TI, "total_nb_transfer", [r"TransferInfo::done$"], value_check=chk_total)
    r1.floor(3, "writes to the two counters")
    # done is called once per finished transfer: only from FileDesc::transfer_done <- Fdt::transfer_done <- release_file
    wmc(r1, prog, r"TransferInfo::done$", [r"^sender::filedesc::FileDesc::transfer_done$"])
    wmc(r1, prog, r"^sender::filedesc::FileDesc::transfer_done$", [r"^sender::fdt::Fdt::transfer_done$"])
    wmc(r1, prog, r"^sender::fdt::Fdt::transfer_done$", [r"^sender::sendersession::SenderSession::release_file$"])


def run(ctx):
    prog = ctx.prog
    ctx.explanation = (
        "C12 quantifies over operation histories; decided here are the mechanism's necessary conditions: R1 the "
        "transfer counters are written only by TransferInfo::done (+1) and TransferInfo::init (carousel reset), R2 the "
        "expiry / last-transfer predicates have the stated polarity over all orderings of (count, max) x carousel, "
        "R3 Fdt::transfer_done requeues or forgets, never both, and ignores removed objects, R4 every loop on the "
        "sender's read path has a progress argument.")
    ctx.not_decided += ["exact packet counts on the wire over all histories", "termination of read() in general",
                        "observer-visible transfer counter equals completed transfers (needs history)"]

    # ---- R1 ------------------------------------------------------------------------------
    r1 = ctx.rule("C12.R1", "TransferInfo.transfer_count is written only in TransferInfo::done (old + 1) and "
                            "TransferInfo::init (reset to 0 under carousel); total_nb_transfer only as old + 1 in done", "WWF")

    transfer_counter_rule(ctx, r1)

    # ---- R2 polarity ------------------------------------------------------------------------
    r2 = ctx.rule("C12.R2", "FileDesc::is_expired == (count >= max) && carousel is None; FileDesc::is_last_transfer == "
                            "carousel is None && (max == count + 1), over every ordering of the compared values", "E3 decision table")
    f = prog.fn(FD + "::is_expired")
    ctx.analysed(f.path)
    t = polarity.Table(f, name_sign={"max_minus_count": r"max_transfer_count.*transfer_count|transfer_count.*max_transfer_count"},
                       name_bool={"carousel": r"carousel_mode is Some"})
    _orient(t, "max_minus_count", "max_transfer_count")
    polarity.check_table(r2, t, lambda sc: (sc["max_minus_count"] * t.orient <= 0) and not sc["carousel"],
                         "is_expired", loc(f.sp), require_labels=("max_minus_count", "carousel"))
    f = prog.fn(FD + "::is_last_transfer")
    ctx.analysed(f.path)
    t2 = polarity.Table(f, name_sign={"d": r"max_transfer_count.*transfer_count|transfer_count.*max_transfer_count"},
                        name_bool={"carousel": r"carousel_mode is Some"})
    # the difference must be exactly max - count - 1 (or its negation)
    keys = [k for k, lab in t2.seen_sign.items() if lab == "d"]
    for k in keys:
        items, c = k
        coeffs = {n: v for n, v in items}
        mx = [v for n, v in coeffs.items() if "max_transfer_count" in n]
        ct = [v for n, v in coeffs.items() if "max_transfer_count" not in n and "transfer_count" in n]
        okshape = len(coeffs) == 2 and len(mx) == 1 and len(ct) == 1 and mx[0] == -ct[0] and c == -mx[0]
        if okshape:
            r2.ok("is_last_transfer difference", "compares %s with 0" % polarity.show_key(k), loc(f.sp))
        else:
            r2.violation("is_last_transfer difference", "is_last_transfer compares `%s` with 0; expected max_transfer_count - "
                                                        "transfer_count - 1" % polarity.show_key(k), loc(f.sp))
    polarity.check_table(r2, t2, lambda sc: (sc["d"] == 0) and not sc["carousel"], "is_last_transfer", loc(f.sp),
                         require_labels=("d", "carousel"))
    r2.floor(12, "scenarios of the two predicates")

    # ---- R3 requeue or forget ------------------------------------------------------------------
    r3 = ctx.rule("C12.R3", "Fdt::transfer_done (object branch): an object no longer in `files` returns before any requeue; "
                            "otherwise it is pushed back exactly when !is_expired() and removed from `files` exactly when "
                            "is_expired(); never both", "E3 decision table over calls")
    f = prog.fn("sender::fdt::Fdt::transfer_done")
    ctx.analysed(f.path)
    t3 = polarity.Table(f, name_sign={"toi": r"\.toi$"}, name_bool={"in_files": r"contains_key",
                                      "expired": r"FileDesc::is_expired"},
                        call_filter=r"VecDeque.*::push_back$|HashMap.*::remove$|VecDeque.*::push_front$|HashMap.*::insert$")
    if "toi" not in t3.labels_found():
        raise model.AnchorMissing("transfer_done: TOI test not found (seen %s)" % list(t3.seen_sign))
    missing = [l for l in ("in_files", "expired") if l not in t3.labels_found()]
    for l in missing:
        r3.violation("transfer_done tests %s" % l, "Fdt::transfer_done no longer tests %s before requeueing / forgetting the object "
                     "(conditions found: %s): %s" % ({"in_files": "membership in `files` (contains_key)", "expired": "FileDesc::is_expired()"}[l],
                                                     list(t3.seen_bool)[:6],
                                                     {"in_files": "an object removed during its transfer is pushed back into files_transfer_queue",
                                                      "expired": "requeueing does not depend on the transfer count"}[l]), loc(f.sp))
    if missing:
        t3 = None
    n = 0
    for sc in (t3.scenarios() if t3 is not None else []):
        if sc["toi"] == 0:
            continue  # TOI 0 = the FDT's own transfer
        res = t3.results(sc)
        callsets = set(tuple(sorted(set(re.sub(r"<.*>", "", c).split("::")[-1] for c in calls))) for _, calls in res)
        if not sc["in_files"]:
            exp = {()}
        elif sc["expired"]:
            exp = {("remove",)}
        else:
            exp = {("push_back",)}
        key = "transfer_done [%s]" % ", ".join("%s=%s" % kv for kv in sorted(sc.items()))
        n += 1
        if callsets == exp:
            r3.ok(key, "queue/map operations: %s" % sorted(callsets), loc(f.sp))
        else:
            r3.violation(key, "queue/map operations on this branch are %s, expected %s" % (sorted(callsets), sorted(exp)), loc(f.sp))
    if t3 is not None:
        r3.floor(4, "scenarios of transfer_done")

    # ---- R5 forced stop of removed objects ----------------------------------------------------------
    r5 = ctx.rule("C12.R5", "FileDesc::can_transfer_be_stopped == allow_immediate_stop_before_first_transfer == Some(true) || "
                            "total_nb_transfer > 0, where total_nb_transfer is the never-reset counter (TransferInfo.total_nb_transfer), "
                            "not the per-cycle transfer_count (the use of the result in SenderSession::run and the `stopped` latch are C08.R2)",
                  "E3 decision table")
    f = prog.fn(FD + "::can_transfer_be_stopped")
    ctx.analysed(f.path)
    t5 = polarity.Table(f, name_sign={"total": r"total_nb_transfer", "allow": r"Some\{0: True\}.*allow_immediate_stop_before_first_transfer|allow_immediate_stop_before_first_transfer.*Some\{0: True\}"})
    o5 = 1
    for k, lab in t5.seen_sign.items():
        if lab == "total":
            for n_, v_ in k[0]:
                if "total_nb_transfer" in n_:
                    o5 = 1 if v_ > 0 else -1
    if "allow" not in t5.labels_found():
        # the same test written on the option's shape: `matches!(x, Some(true))`, `if let Some(true) = x`, `x.unwrap_or(false)` …
        AL = r"allow_immediate_stop_before_first_transfer"
        t5 = polarity.Table(f, name_sign={"total": r"total_nb_transfer"},
                            name_bool={"allow_some": AL + r"\)? is Some$", "allow_val": AL + r"(@Some\.0|\)@Some\.0)$"})
        polarity.check_table(r5, t5, lambda sc: (sc["allow_some"] and sc["allow_val"]) or sc["total"] * o5 > 0, "can_transfer_be_stopped", loc(f.sp),
                             require_labels=("total", "allow_some", "allow_val"))
    else:
        polarity.check_table(r5, t5, lambda sc: sc["allow"] == 0 or sc["total"] * o5 > 0, "can_transfer_be_stopped", loc(f.sp),
                             require_labels=("total", "allow"))
    # the accessor returns the never-reset field
    g = prog.fn(FD + "::total_nb_transfer")
    ctx.analysed(g.path)
    gs = Slicer(g.body)
    rets = [show(gs.expand(e), 120) for e in _ret_values(g)]
    key = "FileDesc::total_nb_transfer returns TransferInfo.total_nb_transfer"
    if rets and all(re.search(r"\.total_nb_transfer$", r) for r in rets):
        r5.ok(key, "; ".join(rets), loc(g.sp))
    else:
        r5.violation(key, "accessor returns %s" % rets, loc(g.sp))
    r5.floor(5, "scenarios + accessor")

    # ---- R6 no restart at the same instant ------------------------------------------------------------------
    r6 = ctx.rule("C12.R6", "reads at a fixed instant terminate: a carousel object whose transfers are exhausted is not eligible again while the time "
                            "since its last transfer is <= the configured interval - in particular not at the very instant it finished when the interval is "
                            "zero - and never before its start time (decision table of should_transfer_now, shared with C14.R1a)", "E3 decision table")
    from . import c14
    c14.never_early_table(ctx, r6)

    # ---- R4 loops on the sender read path ------------------------------------------------------
    r4 = ctx.rule("C12.R4", "every loop reachable from Sender::read has a recognised progress argument", "loop inventory")
    loops.check_loops(ctx, r4, [r"^sender::sender::Sender::read$"], table=SENDER_LOOP_TABLE)


def _ret_values(func):
    out = []
    x = X(func.body)
    for blk in func.body.blocks:
        if blk.cleanup:
            continue
        for st in blk.stmts:
            if st.k == "assign" and st.lhs == (0, ()):
                out.append(x.rvalue(st.rv, x.depth))
        if blk.term.k == "call" and blk.term.dest == (0, ()):
            out.append(x.call_expr(blk.i, blk.term, x.depth))
    return out


def _orient(t, label, positive_leaf):
    """orientation of the canonical key w.r.t. (positive_leaf - other): t.orient = +1 if key == max - count"""
    t.orient = 1
    for k, lab in t.seen_sign.items():
        if lab == label:
            for n, v in k[0]:
                if positive_leaf in n:
                    t.orient = 1 if v > 0 else -1


# loops reviewed by hand: key -> reason (the machine-checked part is stated in loops.py)
SENDER_LOOP_TABLE = {
    "sender::sendersession::SenderSession::run": "each `continue` follows release_file(), which clears self.encoder, so the next "
        "iteration calls get_next(); get_next takes the file from the FDT queues, which only transfer_done() refills; a fresh "
        "encoder's first read returns a packet unless the object has no block left, in which case the file is released and "
        "the queue shrinks or the object waits for its next eligibility (should_transfer_now false while `transferring`).",
    "sender::blockencoder::BlockEncoder::read": "the only back edge follows self.blocks.remove(..) of a drained block; "
        "read_window() refills at most `window - len` blocks per iteration, each consuming one block of the finite partition "
        "(curr_sbn grows towards nb_blocks) or setting read_end; with read_end set and blocks empty the loop returns.",
    "sender::blockencoder::BlockEncoder::read_window": "each iteration either pushes one block (len grows towards the "
        "window bound that the loop condition tests) or sets read_end (error / end of stream), both of which the "
        "condition tests.",
    "sender::blockencoder::BlockEncoder::read_block_stream": "fill loop of the block buffer: every iteration either adds the "
        "number of bytes read (>= 1, a read of 0 leaves the loop) to `result`, which the loop condition compares with the buffer "
        "length, or retries after ErrorKind::Interrupted (the std read_exact idiom), or returns on any other error.",
    "sender::sender::Sender::read_priority_queue": "index advances by one modulo the fixed session list and the loop exits "
        "when it returns to its starting value.",
}
