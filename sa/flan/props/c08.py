"""C08 — emission discipline and end flags."""
import re

from ..rules import *  # noqa
from ..model import X, show, loc, walk
from ..cfg import Flow, Slicer, find_calls, call_sites
from .. import cfg as cfgmod

BE = "sender::blockencoder::BlockEncoder"
BLOCK = "sender::block::Block"
PKT = "common::pkt::Pkt"
SESSION = "sender::sendersession::SenderSession"

R1_TEXT = ("in BlockEncoder::read the non-forced close-object flag of a data packet depends on the drained state of EVERY "
           "block of the interleave window (iteration over self.blocks reading each block's remaining state, or a "
           "`blocks.len() == 1` guard), not only on the current block and the source-byte counter")


R5_TEXT = ("a symbol is a source symbol iff esi < nb_source_symbols (all orderings); only source symbols advance the "
           "source-byte counter that feeds the close-object decision")


def source_symbol_rule(ctx, r5):
    from .. import polarity
    prog = ctx.prog
    br = prog.fn(BLOCK + "::read")
    ctx.analysed(br.path)
    x5 = X(br.body)
    found = 0
    for blk in br.body.blocks:
        if blk.cleanup:
            continue
        for st in blk.stmts:
            if st.k == "assign" and st.rv.k == "aggr" and st.rv.j.get("adt") == "sender::block::EncodingSymbol":
                names = st.rv.j["fnames"]
                e = Slicer(br.body).expand(x5.operand(st.rv.ops[names.index("is_source_symbol")]))
                fs = cfgmod.facts_of(e, True)
                kind, key, fn = polarity.canon(fs[0])
                found += 1
                if kind != "sign":
                    r5.violation("Block::read is_source_symbol", "not a comparison of esi with nb_source_symbols: %s" % show(e, 80), loc(st.sp))
                    continue
                txt = polarity.show_key(key)
                coeff = {n: v for n, v in key[0]}
                esi_c = [v for n, v in coeff.items() if "esi" in n]
                k_c = [v for n, v in coeff.items() if "nb_source_symbols" in n]
                if not (len(coeff) == 2 and esi_c and k_c and key[1] == 0):
                    r5.violation("Block::read is_source_symbol", "compares `%s` with 0; expected esi - nb_source_symbols" % txt, loc(st.sp))
                    continue
                o = 1 if esi_c[0] > 0 else -1          # key = o * (esi - k)
                table = {d: fn(o * d) for d in (-1, 0, 1)}   # d = sign(esi - k)
                if table == {-1: True, 0: False, 1: False}:
                    r5.ok("Block::read is_source_symbol", "true iff esi < nb_source_symbols", loc(st.sp))
                else:
                    r5.violation("Block::read is_source_symbol", "is_source_symbol over sign(esi - nb_source_symbols) in (<0, =0, >0) is %s; a repair symbol "
                                                                 "(esi == k) must not count as source data" % [table[d] for d in (-1, 0, 1)], loc(st.sp))
    if not found:
        raise model.AnchorMissing("Block::read builds no EncodingSymbol")
    for a in field_accesses(prog, BE, "source_size_transferred"):
        if a["kind"] != "assign":
            continue
        fl5 = Flow(a["func"].body)
        fs = fl5.facts_at(a["bb"])
        if any(ff[0][0] == "true" and ff[1] and show(ff[0][1]).endswith("is_source_symbol") for ff in fs):
            r5.ok("%s counts source bytes only" % a["func"].path.split("::")[-1], "", loc(a["sp"]))
        else:
            r5.violation("%s counts source bytes only" % a["func"].path.split("::")[-1], "source_size_transferred advanced for a symbol not known to be a source symbol", loc(a["sp"]))


def pkt_constructions(prog, f):
    out = []
    for blk in f.body.blocks:
        if blk.cleanup:
            continue
        for i, s in enumerate(blk.stmts):
            if s.k == "assign" and s.rv.k == "aggr" and s.rv.j.get("adt") == PKT:
                out.append((blk.i, s))
    return out


def reads_block_state(prog, closure_path):
    """closure body (transitively through Block methods) reads Block.read_index / Block.shards"""
    seen = set()
    work = [closure_path]
    while work:
        p = work.pop()
        if p in seen or p not in prog.funcs:
            continue
        seen.add(p)
        f = prog.funcs[p]
        x = X(f.body)
        for blk in f.body.blocks:
            for s in blk.stmts:
                if s.k == "assign":
                    for pl in [o.place for o in s.rv.ops if o.place is not None] + ([s.rv.place] if s.rv.place else []):
                        for e in pl[1]:
                            if e[0] == "f" and e[3] == BLOCK and e[2] in ("read_index", "shards"):
                                return True
            t = blk.term
            if t.k == "call":
                cp = t.callee_path() or ""
                if cp.startswith(BLOCK + "::"):
                    work.append(cp)
    return False


def close_flag_window_rule(ctx, rule):
    prog = ctx.prog
    f = prog.fn(BE + "::read")
    ctx.analysed(f.path)
    sl = Slicer(f.body)
    flow = Flow(f.body)
    cons = pkt_constructions(prog, f)
    if len(cons) < 2:
        raise model.AnchorMissing("BlockEncoder::read builds %d Pkt values, expected the empty-object packet and the data packet" % len(cons))
    n = 0
    for bb, s in cons:
        names = s.rv.j["fnames"]
        e = sl.x.operand(s.rv.ops[names.index("close_object")])
        if e[0] == "const":
            continue  # the empty-object packet (constant true) is handled by R2
        n += 1
        srcs = sl.sources(e)
        key = "BlockEncoder::read data packet close_object"
        ok = False
        why = ""
        # idiom (i): iteration over self.blocks with a closure reading each block's state
        iters = [z for z in srcs if z.startswith("call:") and re.search(r"Iterator::(all|any|position|find|filter|count|fold|try_fold|for_each)$|iter::.*::(all|any)$", z)]
        closures = [z[len("closure:"):] for z in srcs if z.startswith("closure:")]
        over_blocks = any(z.startswith("var:self.blocks") for z in srcs)
        if iters and over_blocks and any(reads_block_state(prog, c) for c in closures):
            ok, why = True, "iterates self.blocks and reads each block's remaining state (%s)" % iters[0].split("::")[-1]
        # idiom (ii): guarded by blocks.len() == 1 (or <= 1)
        if not ok:
            for (a, t) in flow.facts_at(bb):
                txt = show(a[1]) + "|" + show(a[2]) if a[0] in ("eq", "le", "lt") else ""
                if "self.blocks" in txt and "len" in txt.lower():
                    if (a[0] == "eq" and t and "1" in (show(a[1]), show(a[2]))) or (a[0] == "le" and t and show(a[2]) == "1") or (a[0] == "lt" and t and show(a[2]) == "2"):
                        ok, why = True, "guarded by blocks.len() <= 1"
        if ok:
            rule.ok(key, why, loc(s.sp))
        else:
            deps = sorted(z for z in srcs if z.startswith("var:self.") or z.startswith("var:is_") or z.startswith("var:force"))
            rule.violation(key, "close_object of a data packet is computed from {%s}: with interleave_blocks > 1 another open block "
                                "may still hold repair symbols when the current block drains and the source-byte counter is complete, "
                                "so the B flag precedes later packets of the same transfer" % ", ".join(deps)[:300], loc(s.sp))
        # ... and not from the reader's own end-of-source latch: `read_end` is set with the last block for a buffer but only by one more read
        # (made when the window has room) for a stream - a flag that waits for it differs between the two kinds of source
        key3 = "BlockEncoder::read close_object independent of the reader's end-of-source state"
        if any(re.match(r"^var:self\.read_end\b", z) for z in srcs):
            rule.violation(key3, "close_object of a data packet depends on self.read_end: a stream source sets it one read later than a buffer (only "
                                 "when the interleaving window has room), so the last packet of a stream whose last block fills the window loses "
                                 "the B flag", loc(s.sp))
        else:
            rule.ok(key3, "", loc(s.sp))
        # the byte threshold of "every source byte has been read" is the transfer length (what is actually cut into symbols), compared with the
        # source-byte counter
        from ..cfg import cmp_kind, strip_ref
        cmps = []
        for blk in f.body.blocks:
            if blk.cleanup:
                continue
            exprs = [sl.x.rvalue(st.rv, sl.x.depth) for st in blk.stmts if st.k == "assign"]
            if blk.term.k == "switch":
                exprs.append(sl.x.operand(blk.term.discr))
            for ex in exprs:
                cmps += [cmp_kind(c) for c in walk(ex) if cmp_kind(c)]
        thr = []
        for (op, a, b) in cmps:
            if "source_size_transferred" in show(a) + show(b) and (op, show(a), show(b)) not in [(o_, show(x_), show(y_)) for (o_, x_, y_) in thr]:
                thr.append((op, a, b))
        key2 = "BlockEncoder::read last-packet byte threshold"
        if not thr:
            rule.violation(key2, "the close-object decision does not compare the source-byte counter with anything", loc(s.sp))
        for (op, a, b) in thr:
            cnt, lim = (a, b) if "source_size_transferred" in show(a) else (b, a)
            op2 = op if cnt is a else {"Lt": "Gt", "Le": "Ge", "Gt": "Lt", "Ge": "Le", "Eq": "Eq", "Ne": "Ne"}[op]
            limtxt = show(lim, 120)
            if re.search(r"\.object\)?\.transfer_length", limtxt) and not re.search(r"content_length", limtxt) and op2 in ("Ge", "Eq"):
                rule.ok(key2, "source_size_transferred %s %s" % ({"Ge": ">=", "Eq": "=="}[op2], limtxt[:60]), loc(s.sp))
            else:
                rule.violation(key2, "the counter of source bytes sent is compared (%s) with %s: the object is cut into symbols over its transfer length (the "
                                     "encoded size), any other limit closes the object before or after its last packet" % (op2, limtxt[:80]), loc(s.sp))
    rule.floor(2, "data packet constructions in BlockEncoder::read")


def run(ctx):
    prog = ctx.prog
    ctx.explanation = (
        "C08's payload clauses (each source payload is the E-byte slice, repair counts) depend on library behaviour and are NOT "
        "decided.  Decided: R1 the close-object flag of a data packet accounts for every open block, R2 the only other "
        "sources of a true close-object flag are the forced close (removed object that may be stopped) and the lone packet "
        "of an empty object, with `stopped` latched on the same path, R3 the close-session flag is a constant true only in "
        "new_alc_pkt_close_session, R4 shards of a block are emitted by a cursor that only moves forward by one, blocks are "
        "numbered by a counter incremented once per opened block, and `closabled_object` comes from is_last_transfer().")
    ctx.not_decided += ["payload slices equal the object's bytes", "number of repair symbols per block (FEC libraries)"]

    r1 = ctx.rule("C08.R1", R1_TEXT, "DEP with listed idioms")
    close_flag_window_rule(ctx, r1)

    # ---- R2 -----------------------------------------------------------------------------
    r2 = ctx.rule("C08.R2", "a true close-object flag otherwise stems only from (a) force_close_object, passed as "
                            "`!transfer_fdt_only && can_transfer_be_stopped() && !fdt.is_added(toi)`, latching `stopped`, or "
                            "(b) the packet built under `blocks.is_empty() && nb_pkt_sent == 0`", "DEP+DOM")
    f = prog.fn(BE + "::read")
    sl = Slicer(f.body)
    flow = Flow(f.body)
    FORCE = f.body.names.get(2, "force_close_object")   # read(&mut self, force_close_object): first explicit parameter
    for bb, s in pkt_constructions(prog, f):
        names = s.rv.j["fnames"]
        e = sl.x.operand(s.rv.ops[names.index("close_object")])
        if e[0] == "const":
            key = "BlockEncoder::read constant close_object=%s" % e[2]
            fs = flow.facts_at(bb)
            empty = any(a[0] == "true" and t and "is_empty" in show(a[1]) and "self.blocks" in show(a[1]) for (a, t) in fs)
            first = any(a[0] == "eq" and t and "self.nb_pkt_sent" in (show(a[1]), show(a[2])) and "0" in (show(a[1]), show(a[2])) for (a, t) in fs)
            if e[2] is False or (empty and first):
                r2.ok(key, "guarded by blocks.is_empty() && nb_pkt_sent == 0", loc(s.sp))
            else:
                r2.violation(key, "a packet with a constant close-object flag is built outside the empty-object case", loc(s.sp))
            if e[2] is True:
                # "no block and nothing sent yet" also describes an object whose first block could not be created (read error, encoder refusing the
                # block): the lone close-object packet is legitimate only for a transfer length of 0 - tested in release builds too
                rflow = Flow(f.body, drop_debug=True)
                zero = any(a[0] == "eq" and t and re.search(r"\.transfer_length$", show(sl.expand(a[1])) if show(a[2]) == "0" else show(sl.expand(a[2]))) and "0" in (show(a[1]), show(a[2]))
                           for (a, t) in rflow.facts_at(bb))
                key2 = "BlockEncoder::read empty-object packet only for transfer_length == 0"
                if zero:
                    r2.ok(key2, "dominated by transfer_length == 0 (not only by a debug_assert)", loc(s.sp))
                else:
                    r2.violation(key2, "the lone close-object packet (no payload, SBN 0 / ESI 0) is sent whenever no block is open and nothing was sent; that is also "
                                       "the state after the first block could not be created (stream read error, Reed-Solomon / Raptor encoder error such as "
                                       "Raptor K < 4): a non-empty object is then announced as closed with none of its symbols (only a debug_assert states "
                                       "transfer_length == 0, which panics Sender::read in debug builds)", loc(s.sp))
        else:
            srcs = sl.sources(e)
            extra = [z for z in srcs if z.startswith("var:") and not re.match(
                r"var:(" + re.escape(FORCE) + r"|self\.closabled_object|is_last_packet|is_last_symbol|self\.source_size_transferred|self\.blocks|self\.file|"
                r"self\.block_multiplex_index|symbol|block|self\.nb_pkt_sent|self$|Arc::deref\(&self\.file\))", z)]
            key = "BlockEncoder::read data packet close_object sources"
            if "var:" + FORCE in srcs and "var:self.closabled_object" in srcs:
                r2.ok(key, "force_close_object || (closabled_object && last packet)", loc(s.sp))
            else:
                r2.violation(key, "close_object no longer combines force_close_object and closabled_object (sources: %s)" % sorted(srcs)[:12], loc(s.sp))
    # stopped latch
    latched = False
    for a in field_accesses(prog, BE, "stopped"):
        if a["kind"] == "assign" and a["func"].path == f.path:
            fs = flow.facts_at(a["bb"])
            key = "BlockEncoder::read stopped = %s" % show(a["value"])
            if show(a["value"]) == "True" and any(ff[0][0] == "true" and ff[1] and show(ff[0][1]) == FORCE for ff in fs):
                r2.ok(key, "latched under force_close_object", loc(a["sp"]))
                latched = True
            elif show(a["value"]) == FORCE and any(ff[0][0] == "true" and not ff[1] and show(ff[0][1]) == "self.stopped" for ff in fs):
                # `self.stopped = force_close_object` where stopped is known to be false: sets the latch exactly when forced, never clears it
                r2.ok(key, "assigned the force flag where `stopped` is known to be false", loc(a["sp"]))
                latched = True
            else:
                r2.violation(key, "`stopped` written outside the forced-close path", loc(a["sp"]))
        elif a["kind"] in ("assign", "assign_sub", "borrow_mut") and a["func"].path != f.path:
            r2.violation("%s writes BlockEncoder.stopped" % a["func"].path, "stopped written outside read()", loc(a["sp"]))
    if not latched:
        r2.violation("BlockEncoder::read latches stopped", "force_close_object no longer latches `stopped`: packets keep flowing after the forced close-object packet", loc(f.sp))
    # first statement: if self.stopped return None
    nones = ret_assign_blocks(f.body, lambda e: is_variant(e, "None"))
    entry_guard = any(any(ff[0][0] == "true" and ff[1] and show(ff[0][1]) == "self.stopped" for ff in flow.facts_at(bb)) for bb, _ in nones)
    for bb, s in pkt_constructions(prog, f):
        fs = flow.facts_at(bb)
        ok = any(ff[0][0] == "true" and not ff[1] and show(ff[0][1]) == "self.stopped" for ff in fs)
        key = "BlockEncoder::read packet only when !stopped"
        if ok and entry_guard:
            r2.ok(key, "", loc(s.sp))
        else:
            r2.violation(key, "a packet can be produced after the forced-close packet (no dominating `!self.stopped`)", loc(s.sp))
    # the argument at the call site
    g = prog.fn(SESSION + "::run")
    ctx.analysed(g.path)
    gsl = Slicer(g.body)
    gflow = Flow(g.body)
    for s in call_sites(g, lambda p, c: p == BE + "::read"):
        arg = s.expr[2][1]
        key = "SenderSession::run force_close argument"
        if show(arg) != "must_stop_transfer":
            # any expression: check its definitions directly
            pass
        defs = gsl.defs_of(show(arg), "") if arg[0] == "var" else []
        if not defs:
            r2.violation(key, "force_close_object argument is %s; cannot relate it to the removal test" % show(arg, 80), s.loc)
            continue
        allok = True
        # every definition of the flag - followed through plain copies, e.g. the result slot of a helper that was inlined - is the constant
        # false (a short-circuit arm) or !fdt.is_added(file.toi) computed where the other two conditions hold
        roots = [l for l, nm in g.body.names.items() if nm == show(arg)]
        work, seen_l, checked = list(roots), set(), 0
        while work:
            l_ = work.pop()
            if l_ in seen_l:
                continue
            seen_l.add(l_)
            for (db_, di_, dk_) in g.body.defs().get(l_, []):
                if dk_ not in ("whole", "call"):
                    continue
                if di_ == "term":
                    v = gsl.x.call_expr(db_, g.body.blocks[db_].term, gsl.x.depth)
                    sp_ = g.body.blocks[db_].term.sp
                else:
                    st = g.body.blocks[db_].stmts[di_]
                    sp_ = st.sp
                    if st.rv.k == "use" and st.rv.ops[0].place is not None and not st.rv.ops[0].place[1] and len(g.body.defs().get(st.rv.ops[0].place[0], [])) > 1:
                        work.append(st.rv.ops[0].place[0])
                        continue
                    v = gsl.x.rvalue(st.rv, gsl.x.depth)
                if v[0] == "const" and v[2] is False:
                    continue
                checked += 1
                fs = gflow.facts_at(db_)
                c1 = any(ff[0][0] == "true" and not ff[1] and show(ff[0][1]) == "self.transfer_fdt_only" for ff in fs)
                c2 = any(ff[0][0] == "true" and ff[1] and "can_transfer_be_stopped" in show(ff[0][1]) for ff in fs)
                c3 = v[0] == "un" and v[1] == "Not" and v[2][0] == "call" and v[2][1].endswith("Fdt::is_added") and ".toi" in show(v[2][2][1])
                if not (c1 and c2 and c3):
                    allok = False
                    r2.violation(key, "must_stop_transfer = %s under {%s}: expected !fdt.is_added(file.toi) under "
                                      "!transfer_fdt_only && can_transfer_be_stopped()" % (show(v, 80), facts_text(gflow, db_)[:200]), loc(sp_))
        if not checked:
            allok = False
            r2.violation(key, "the force flag is never computed from the removal test", s.loc)
        if allok:
            r2.ok(key, "!transfer_fdt_only && can_transfer_be_stopped() && !fdt.is_added(toi)", s.loc)
    r2.floor(5, "close flag sources")

    # ---- R3 -----------------------------------------------------------------------------
    r3 = ctx.rule("C08.R3", "push_lct_header receives close_session = true only from new_alc_pkt_close_session, and "
                            "new_alc_pkt passes the constant false and Pkt.close_object", "ARG")
    for s in find_calls(prog, r"^common::lct::push_lct_header$"):
        caller = s.func.root().path
        cs = show(s.expr[2][7])
        co = show(s.expr[2][6])
        key = "%s push_lct_header(close_object=%s, close_session=%s)" % (caller, co, cs)
        if caller == "common::alc::new_alc_pkt_close_session":
            if cs == "True":
                r3.ok(key, "", s.loc)
            else:
                r3.violation(key, "close-session packet without the A flag", s.loc)
        elif caller == "common::alc::new_alc_pkt":
            if cs == "False" and co == "pkt.close_object":
                r3.ok(key, "", s.loc)
            else:
                r3.violation(key, "data packets must carry close_session = false and close_object = pkt.close_object", s.loc)
        else:
            if cs == "False":
                r3.ok(key, "", s.loc)
            else:
                r3.violation(key, "close_session flag set by %s" % caller, s.loc)
    r3.floor(2, "push_lct_header call sites")
    wmc(r3, prog, r"^common::alc::new_alc_pkt_close_session$", [r"^sender::sender::Sender::read_close_session$", r"^py::"])

    # ---- R4 -----------------------------------------------------------------------------
    r4 = ctx.rule("C08.R4", "Block.read_index only moves by +1 in Block::read and selects the shard emitted; "
                            "BlockEncoder.curr_sbn only moves by +1 right after a block is pushed; closabled_object is set once "
                            "from is_last_transfer()", "WWF+PAIR+ARG")

    def inc1(field):
        def chk(a):
            v = a["value"]
            if a["kind"] == "construct":
                return None
            if not (v[0] == "bin" and v[1].startswith("Add") and show(v[3]) == "1" and show(v[2]).endswith(field)):
                return "%s must only be incremented by 1, found %s" % (field, show(v, 80))
            return None
        return chk

    wwf(r4, prog, BLOCK, "read_index", [r"^sender::block::Block::read$"], value_check=inc1("read_index"))
    br = prog.fn(BLOCK + "::read")
    ctx.analysed(br.path)
    x = X(br.body)
    idx_ok = False
    for bb, t in br.body.calls():
        e = x.call_expr(bb, t, x.depth)
        if re.search(r"Index.*::index$", e[1]) and "self.shards" in show(e[2][0]) and "self.read_index" in show(e[2][1]):
            idx_ok = True
        # `self.shards.get(self.read_index as usize)?` selects the same element (None past the end instead of the is_empty() early return)
        if re.search(r"(<impl \[T\]>|Vec|VecDeque)::get$", e[1]) and len(e[2]) == 2 and "self.shards" in show(e[2][0]) and "self.read_index" in show(e[2][1]):
            idx_ok = True
    if idx_ok:
        r4.ok("Block::read emits shards[read_index]", "", loc(br.sp))
    else:
        r4.violation("Block::read emits shards[read_index]", "the shard returned is not shards[read_index]", loc(br.sp))
    acc = wwf(r4, prog, BE, "curr_sbn", [r"^sender::blockencoder::BlockEncoder::read_block_(buffer|stream)$"], value_check=inc1("curr_sbn"))
    for a in acc:
        if a["kind"] != "assign":
            continue
        f2 = a["func"]
        fl2 = Flow(f2.body)
        pushes = [s.bb for s, ai, mut in calls_on_field(prog, BE, "blocks", funcs=[f2]) if method_name(s) == "push"]
        key = "%s curr_sbn += 1 pairs with blocks.push" % f2.path
        ok = pushes and all(pb != a["bb"] and fl2.dominates(pb, a["bb"]) for pb in pushes) and len(pushes) == 1
        ok2 = pushes and fl2.postdominated_by(pushes[0], lambda b: b == a["bb"])[0]
        if ok and ok2:
            r4.ok(key, "", loc(a["sp"]))
        else:
            r4.violation(key, "block numbering and block opening are not paired one-to-one", loc(a["sp"]))
    for a in field_accesses(prog, BE, "closabled_object"):
        key = "%s %s closabled_object" % (a["func"].root().path, a["kind"])
        if a["kind"] == "construct" and a["func"].path == BE + "::new" and show(a["value"]) == "closabled_object":
            r4.ok(key, "= constructor parameter", loc(a["sp"]))
        else:
            r4.violation(key, "closabled_object changed after construction", loc(a["sp"]))
    for s in find_calls(prog, r"^sender::blockencoder::BlockEncoder::new$"):
        gs = Slicer(s.body)
        srcs = gs.sources(s.expr[2][2])
        key = "%s BlockEncoder::new closabled arg" % s.func.root().path
        if any(z.endswith("FileDesc::is_last_transfer") for z in srcs):
            r4.ok(key, "<- is_last_transfer()", s.loc)
        else:
            r4.violation(key, "closabled_object argument is %s" % show(s.expr[2][2], 60), s.loc)
    r4.floor(7, "cursor facts")

    # ---- R5 -----------------------------------------------------------------------------
    from .. import polarity
    r5 = ctx.rule("C08.R5", R5_TEXT, "E3 sign table + DOM")
    source_symbol_rule(ctx, r5)
    r5.floor(2, "source symbol facts")

    # ---- R6 -----------------------------------------------------------------------------
    from . import c20
    r6 = ctx.rule("C08.R6", "stream sources: " + c20.R1_TEXT + " — otherwise source symbols are silently missing from the transfer", "loop rule (shared with C20.R1)")
    c20.stream_fill_rule(ctx, r6)

    # ---- R8 every transfer starts at the first byte; end flags at their RFC positions -------------------------------
    r8 = ctx.rule("C08.R8", "every transfer of a stream object starts at its first byte: " + c20.R2_TEXT + " (shared with C20.R2); the A and B flags the rules "
                            "above reason about sit at their RFC 5651 bit positions in the LCT header on the writer and on the reader side (shared with C06.R7)",
                  "MPT+WWF + E5 bit provenance")
    c20.rewind_rule(ctx, r8)
    from . import c06
    c06.lct_first_word_rule(ctx, r8)
    r8.floor(15, "rewind + header flag facts")

    # ---- R7 shard creation ------------------------------------------------------------------------
    r7 = ctx.rule("C08.R7", "source symbols: Block::new_from_buffer counts nb_source_symbols = div_ceil(len(buffer), E), dispatches each FEC encoding "
                            "id to its own shard creator with (nb_source_symbols, max_number_of_parity_symbols, E) in those roles, and keeps that count "
                            "in the Block; No-Code and Reed-Solomon shards are consecutive chunks of E bytes numbered by their position (ESI = index), the "
                            "last RS shard zero-padded to E and the parity shards appended after the source shards", "ARG + DOM + value shape")
    shard_rule(ctx, r7)

    # ---- R9 which symbols exist ---------------------------------------------------------------------
    r9 = ctx.rule("C08.R9", "the set of source symbols of a transfer is derived from the object's own length: " + c07_text() + " (shared with C07.R1); and "
                            "the B flag rides on the last transfer only because TransferInfo.transfer_count counts completed transfers (shared with C12.R1)",
                  "ARG + WWF")
    from . import c07, c12
    c07.partition_call_agreement(ctx, r9)
    c12.transfer_counter_rule(ctx, r9)
    _r10(ctx)


def _r10(ctx):
    from . import c01
    r10 = ctx.rule("C08.R10", "every source symbol has its own (SBN, ESI) on the wire: an object is admitted only behind the refusal gate of the OTI "
                              "it is sent with (transfer_length <= that OTI's max_transfer_length(), which bounds the number of blocks by the SBN "
                              "field of the scheme) - shared with C01.R1", "MPT+WMC")
    c01.admission_gate_rule(ctx, r10)


def c07_text():
    from . import c07
    return c07.R1_TEXT


def shard_rule(ctx, rule):
    from ..cfg import strip_ref
    prog = ctx.prog
    f = prog.fn(BLOCK + "::new_from_buffer")
    ctx.analysed(f.path)
    sl = Slicer(f.body)
    fl = Flow(f.body)
    # the count
    vd = sl.var_defs()
    # the count local is whatever is stored in Block.nb_source_symbols
    CNT = "nb_source_symbols"
    for blk_ in f.body.blocks:
        for st_ in blk_.stmts:
            if st_.k == "assign" and st_.rv.k == "aggr" and st_.rv.j.get("adt") == BLOCK and not blk_.cleanup:
                nm_ = st_.rv.j["fnames"]
                CNT = show(sl.x.operand(st_.rv.ops[nm_.index("nb_source_symbols")]))
    cnt = [(e, bb) for (proj, e, bb) in vd.get(CNT, []) if proj == ""]
    key = "new_from_buffer nb_source_symbols"
    okc = False
    for e, bb in cnt:
        ex = sl.expand(e)
        if ex[0] == "call" and re.search(r"div_ceil$", ex[1]) and len(ex[2]) == 2:
            a0, a1 = show(strip_ref(ex[2][0]), 80), show(strip_ref(ex[2][1]), 80)
            if re.search(r"len\(&?buffer\)$", a0) and re.search(r"^\(?oti\.encoding_symbol_length as usize\)?$", a1):
                okc = True
    if okc and len(cnt) == 1:
        rule.ok(key, "div_ceil(buffer.len(), E)", loc(f.sp))
    else:
        rule.violation(key, "nb_source_symbols = %s; expected div_ceil(buffer.len(), oti.encoding_symbol_length)" % [show(e, 80) for e, _ in cnt], loc(f.sp))
    # dispatch
    want = {"NoCode": "create_shards_no_code", "ReedSolomonGF28": "create_shards_reed_solomon_gf8", "ReedSolomonGF28UnderSpecified": "create_shards_reed_solomon_gf8",
            "RaptorQ": "create_shards_raptorq", "Raptor": "create_shards_raptor"}
    seen = {}
    for s in call_sites(f, lambda p, c: p.startswith(BLOCK + "::create_shards_")):
        variants = held_variants(fl.facts_at(s.bb), lambda e_: "fec_encoding_id" in show(e_))
        name = s.term.callee_path().split("::")[-1]
        for v in variants:
            seen[v] = name
        key = "new_from_buffer %s -> %s" % ("/".join(variants) or "?", name)
        if variants and all(want.get(v) == name for v in variants):
            rule.ok(key, "", s.loc)
        else:
            rule.violation(key, "FEC encoding id %s is encoded by %s" % (variants, name), s.loc)
        # roles of the common arguments
        if name != "create_shards_no_code":
            a1 = show(strip_ref(s.expr[2][1]))
            if a1 == CNT:
                rule.ok(key + " count argument", "", s.loc)
            else:
                rule.violation(key + " count argument", "the creator receives %s as the number of source symbols" % a1, s.loc)
    for v, nm in want.items():
        if v not in seen:
            rule.violation("new_from_buffer %s -> %s" % (v, nm), "no shard creator is called under fec_encoding_id == %s" % v, loc(f.sp))
    # the Block keeps the count
    for blk in f.body.blocks:
        for st in blk.stmts:
            if st.k == "assign" and st.rv.k == "aggr" and st.rv.j.get("adt") == BLOCK and not blk.cleanup:
                names = st.rv.j["fnames"]
                vals = {n: show(sl.x.operand(st.rv.ops[i])) for i, n in enumerate(names)}
                if vals.get("nb_source_symbols") == CNT and vals.get("read_index") == "0" and vals.get("sbn") == "sbn" and re.match(r"^\w+(~\d+)?$", vals.get("shards") or ""):
                    rule.ok("new_from_buffer Block{..}", "sbn, read_index 0, shards, nb_source_symbols", loc(st.sp))
                else:
                    rule.violation("new_from_buffer Block{..}", "Block built with %s" % vals, loc(st.sp))
    # encoder constructors: (k, parity, E)
    CTORS = {"create_shards_reed_solomon_gf8": ("fec::rscodec::RSGalois8Codec::new", ["nb_source_symbols", r"oti\.max_number_of_parity_symbols", r"oti\.encoding_symbol_length"]),
             "create_shards_raptorq": ("fec::raptorq::RaptorQEncoder::new", ["nb_source_symbols", r"oti\.max_number_of_parity_symbols", r"oti\.encoding_symbol_length"]),
             "create_shards_raptor": ("fec::raptor::RaptorEncoder::new", ["nb_source_symbols", r"oti\.max_number_of_parity_symbols"])}
    for cr, (ctor, roles) in sorted(CTORS.items()):
        g = prog.fn(BLOCK + "::" + cr)
        ctx.analysed(g.path)
        cs = call_sites(g, lambda p, c: p == ctor)
        if not cs:
            rule.violation("%s -> %s" % (cr, ctor.split("::")[-2]), "constructor call not found", loc(g.sp))
        for s in cs:
            for i, rx_ in enumerate(roles):
                a = show(strip_ref(s.expr[2][i]), 80)
                key = "%s -> %s::new arg %d" % (cr, ctor.split("::")[-2], i)
                if re.search(rx_, a) and not any(re.search(o, a) for j, o in enumerate(roles) if j != i):
                    rule.ok(key, a, s.loc)
                else:
                    rule.violation(key, "argument %d is %s, expected %s" % (i, a, rx_), s.loc)
    # chunking and numbering: No-Code
    nc = prog.fn(BLOCK + "::create_shards_no_code")
    ctx.analysed(nc.path)
    ncs = Slicer(nc.body)
    chunks = call_sites(nc, lambda p, c: re.search(r"<impl \[T\]>::chunks$", p) is not None)
    okch = chunks and all(re.search(r"oti\.encoding_symbol_length", show(s.expr[2][1], 80)) and show(strip_ref(s.expr[2][0])) == "buffer" for s in chunks)
    if okch:
        rule.ok("create_shards_no_code chunks(E)", "", chunks[0].loc)
    else:
        rule.violation("create_shards_no_code chunks(E)", "the block is not cut with buffer.chunks(oti.encoding_symbol_length)", loc(nc.sp))
    okesi = False
    for cp in prog.with_closures(nc.path)[1:]:
        cf = prog.funcs[cp]
        for s in call_sites(cf, lambda p, c: p == "fec::DataFecShard::new"):
            cs_ = Slicer(cf.body)
            a0, a1 = show(cs_.expand(s.expr[2][0]), 80), show(cs_.expand(s.expr[2][1]), 80)
            # closure parameter is the (index, chunk) tuple
            if re.search(r"\.0\b|index", a1) and re.search(r"\.1\b|chunk", a0):
                okesi = True
    # the same numbering as an explicit loop: `for (index, chunk) in buffer.chunks(E).enumerate() { shards.push(DataFecShard::new(chunk, index)) }`
    for s in call_sites(nc, lambda p, c: p == "fec::DataFecShard::new"):
        a0, a1 = show(ncs.expand(s.expr[2][0]), 200), show(ncs.expand(s.expr[2][1]), 200)
        if re.search(r"Enumerate::next\(.*\)@Some\.0\.0\b", a1) and re.search(r"Enumerate::next\(.*\)@Some\.0\.1\b", a0):
            okesi = True
    en = call_sites(nc, lambda p, c: p.endswith("Iterator::enumerate"))
    if okesi and en:
        rule.ok("create_shards_no_code ESI = position", "enumerate() index -> DataFecShard::new(chunk, index)", loc(nc.sp))
    else:
        rule.violation("create_shards_no_code ESI = position", "a No-Code shard is not numbered by its position in the block", loc(nc.sp))
    # Reed-Solomon: create_shards + encode
    cs_fn = prog.fn("fec::rscodec::RSCodecParam::create_shards")
    ctx.analysed(cs_fn.path)
    chunks = call_sites(cs_fn, lambda p, c: re.search(r"<impl \[T\]>::chunks$", p) is not None)
    css_ = Slicer(cs_fn.body)
    if chunks and all(show(strip_ref(css_.expand(s.expr[2][1]))) == "self.encoding_symbol_length" and show(strip_ref(s.expr[2][0])) == cs_fn.body.names.get(2, "data") for s in chunks):
        rule.ok("RS create_shards chunks(E)", "", chunks[0].loc)
    else:
        rule.violation("RS create_shards chunks(E)", "source shards are not data.chunks(self.encoding_symbol_length)", loc(cs_fn.sp))
    cfl = Flow(cs_fn.body)
    rz = call_sites(cs_fn, lambda p, c: re.search(r"Vec.*::resize$", p) is not None)
    okpad = rz and all(show(strip_ref(css_.expand(s.expr[2][1]))) == "self.encoding_symbol_length" and show(s.expr[2][2]) == "0" for s in rz)
    if okpad:
        rule.ok("RS create_shards pads the last shard", "resize(E, 0)", rz[0].loc)
    else:
        rule.violation("RS create_shards pads the last shard", "the last source shard is not zero-padded to the symbol length", loc(cs_fn.sp))
    errs = ret_assign_blocks(cs_fn.body, lambda e: is_variant(e, "Err"))
    okcnt = errs and any(any(a[0] == "eq" and not t and "self.nb_source_symbols" in show(a[1]) + show(a[2]) and "len(" in show(a[1]) + show(a[2]) for (a, t) in cfl.facts_at(bb)) for bb, _ in errs)
    if okcnt:
        rule.ok("RS create_shards checks the shard count", "Err unless shards.len() == nb_source_symbols", loc(cs_fn.sp))
    else:
        rule.violation("RS create_shards checks the shard count", "no Err return under shards.len() != nb_source_symbols", loc(cs_fn.sp))
    enc = prog.fn("<fec::rscodec::RSGalois8Codec as fec::FecEncoder>::encode")
    ctx.analysed(enc.path)
    okidx = False
    for cp in prog.with_closures(enc.path)[1:]:
        cf = prog.funcs[cp]
        for blk in cf.body.blocks:
            for st in blk.stmts:
                if st.k == "assign" and st.rv.k == "aggr" and st.rv.j.get("adt") == "fec::DataFecShard":
                    names = st.rv.j["fnames"]
                    cs_ = Slicer(cf.body)
                    iv = show(cs_.expand(cs_.x.operand(st.rv.ops[names.index("index")])), 80)
                    sv = show(cs_.expand(cs_.x.operand(st.rv.ops[names.index("shard")])), 80)
                    if re.search(r"index|\.0\b", iv) and re.search(r"shard|\.1\b", sv):
                        okidx = True
    # the same as an explicit loop over `shards.into_iter().enumerate()`
    ens_ = Slicer(enc.body)
    for blk in enc.body.blocks:
        for st in blk.stmts:
            if st.k == "assign" and st.rv.k == "aggr" and st.rv.j.get("adt") == "fec::DataFecShard" and not blk.cleanup:
                names = st.rv.j["fnames"]
                iv = show(ens_.expand(ens_.x.operand(st.rv.ops[names.index("index")])), 200)
                sv = show(ens_.expand(ens_.x.operand(st.rv.ops[names.index("shard")])), 200)
                if re.search(r"Enumerate::next\(.*\)@Some\.0\.0\b", iv) and re.search(r"Enumerate::next\(.*\)@Some\.0\.1\b", sv):
                    okidx = True
    if okidx and call_sites(enc, lambda p, c: p.endswith("Iterator::enumerate")):
        rule.ok("RS encode ESI = position", "", loc(enc.sp))
    else:
        rule.violation("RS encode ESI = position", "an RS shard is not numbered by its position", loc(enc.sp))
    rule.floor(22, "shard creation facts")
