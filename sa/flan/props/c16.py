"""C16 — carousel late join (narrow structural clauses)."""
import re

from ..rules import *  # noqa
from ..model import X, show, loc, walk
from ..cfg import Flow, Slicer, find_calls, call_sites
from . import c09

OR = "receiver::objectreceiver::ObjectReceiver"
RC = "receiver::receiver::Receiver"


def attach_order_rule(ctx, rule):
    """attach_fdt establishes what init_object_writer requires before it calls it (shared with C02.R5)"""
    prog = ctx.prog
    f = prog.fn(OR + "::attach_fdt")
    fl = Flow(f.body)
    inits = call_sites(f, lambda p, c: p == OR + "::init_object_writer")
    if not inits:
        raise model.AnchorMissing("attach_fdt does not call init_object_writer")
    for fld in ("fdt_instance_id", "cenc", "oti", "transfer_length"):
        accs = [a for a in field_accesses(prog, OR, fld, funcs=[f]) if a["kind"] == "assign"]
        late = [a for a in accs for c in inits if c.bb != a["bb"] and fl.dominates(c.bb, a["bb"])]
        key = "attach_fdt: self.%s set before init_object_writer" % fld
        if late:
            rule.violation(key, "self.%s is assigned after init_object_writer() was called: init_object_writer refuses to create the writer while a required "
                                "field is unknown, so the writer is not opened and blocks decoded before the FDT are never flushed" % fld, loc(late[0]["sp"]))
        elif accs:
            rule.ok(key, "%d assignment(s), none after the call" % len(accs), loc(accs[0]["sp"]))
    replays = set(s.bb for s in call_sites(f, lambda p, c: p == OR + "::push_from_cache"))
    for s in inits:
        ok, w = fl.postdominated_by(s.bb, lambda b: b in replays)
        if ok and replays:
            rule.ok("attach_fdt: init_object_writer -> push_from_cache", "", s.loc)
        else:
            rule.violation("attach_fdt: init_object_writer -> push_from_cache", "packets cached before the FDT are not replayed once the "
                                                                            "object can be decoded: a late joiner loses them", s.loc)
    # blocks that were decoded before the writer existed are flushed right after the writer is opened: write_blocks(0, ..)
    flush = set(s.bb for s in call_sites(f, lambda p, c: p == OR + "::write_blocks") if show(s.expr[2][1]) == "0")
    for s in inits:
        ok, w = fl.postdominated_by(s.bb, lambda b: b in flush)
        key = "attach_fdt: init_object_writer -> write_blocks(0)"
        if ok and flush:
            rule.ok(key, "", s.loc)
        else:
            rule.violation(key, "source blocks completed before the FDT was attached (in-band OTI, late join) are never handed to the "
                              "writer: write_blocks(0, ..) does not follow the opening of the writer; the object stays Receiving for ever", s.loc)
    # the instance id is set on every path to the call
    ids = set(a["bb"] for a in field_accesses(prog, OR, "fdt_instance_id", funcs=[f]) if a["kind"] == "assign" and show(a["value"]).startswith("Option::Some"))
    for c in inits:
        ok, w = fl.must_pass(0, [c.bb], lambda n: n[0] == "b" and n[1] in ids)
        key = "attach_fdt: fdt_instance_id = Some(..) on every path to init_object_writer"
        if ok and ids:
            rule.ok(key, "", c.loc)
        else:
            rule.violation(key, "init_object_writer can be reached without the FDT instance id being recorded", c.loc)
    replay_order_rule(ctx, rule)


def replay_order_rule(ctx, rule):
    """the packet cache is replayed in the order the packets were received (shared by C16.R2 and C02.R5): the sender puts the close-object
    flag on its last packet; replayed first, that packet interrupts an object whose other symbols are still waiting in the cache"""
    prog = ctx.prog
    grow_end = set()
    for s, ai, mut in calls_on_field(prog, OR, "cache"):
        m = method_name(s)
        if ai != 0:
            continue
        if m in ("push", "push_back", "extend", "append"):
            grow_end.add("back")
        elif m == "push_front" or (m == "insert" and show(s.expr[2][1]) == "0"):
            grow_end.add("front")
        elif m == "insert":
            grow_end.add("?")
    f = prog.fn(OR + "::push_from_cache")
    ctx.analysed(f.path)
    fl = Flow(f.body)
    key = "push_from_cache replays the cache in reception order"
    takes = []
    for s, ai, mut in calls_on_field(prog, OR, "cache", funcs=[f]):
        if ai != 0:
            continue
        m = method_name(s)
        if m in ("pop", "pop_back"):
            takes.append((s, "back"))
        elif m == "pop_front" or (m in ("remove", "swap_remove") and show(s.expr[2][1]) == "0"):
            takes.append((s, "front"))
        elif m in ("remove", "swap_remove", "swap_remove_back", "swap_remove_front", "split_off"):
            takes.append((s, "?"))
        elif m in ("drain", "into_iter", "iter", "iter_mut"):
            takes.append((s, "front"))
    # `for item in std::mem::take(&mut self.cache)`: the taken vector is iterated front to back
    for s in call_sites(f, lambda p, c: re.search(r"mem::(take|replace)$", p) is not None):
        if "self.cache" in show(s.expr[2][0]):
            rev_after = any(method_name(z).startswith("rev") for z in call_sites(f, lambda p, c: re.search(r"Iterator::rev$|::reverse$", p) is not None))
            takes.append((s, "back" if rev_after else "front"))
    # (`self.cache.reverse()` is a slice method: its receiver is `deref_mut(&mut self.cache)`)
    revs = [s for s in call_sites(f, lambda p, c: re.search(r"::reverse$", p) is not None) if re.search(r"\bself\.cache\b", show(s.expr[2][0], 200))]
    if not takes or not grow_end:
        raise model.AnchorMissing("push_from_cache: how the cache is consumed (%d) / filled (%s) was not recognised" % (len(takes), sorted(grow_end)))
    if "?" in grow_end or len(grow_end) != 1:
        rule.violation(key, "the cache is filled at %s: no single reception order to replay" % sorted(grow_end), loc(f.sp))
        return
    g = list(grow_end)[0]
    for (s, end) in takes:
        flipped = bool(revs) and all(fl.dominates(r_.bb, s.bb) and r_.bb != s.bb for r_ in revs)
        if revs and not flipped:
            rule.violation(key, "self.cache.reverse() does not run exactly once before every take", s.loc)
            return
        eff = end if not flipped else {"back": "front", "front": "back"}.get(end, "?")
        if eff == "?" or eff == g:
            rule.violation(key, "packets are appended at the %s of the cache (%s) and replayed from the %s (%s%s): last in, first out. The packet carrying the "
                                "close-object flag - the last one sent - is then replayed first and interrupts an object all of whose symbols are in the cache" % (
                                    g, "push", eff, method_name(s), " after reverse()" if flipped else ""), s.loc)
            return
    rule.ok(key, "filled at the %s, taken from the %s" % (g, "front" if g == "back" else "back"), takes[0][0].loc)


def latest_instance_rule(ctx, r5):
    """attach_latest_fdt_to_objects takes the instance push_fdt_obj has just stored and checked (shared with C19.R6: that instance is the only
    one whose expiry was evaluated at this moment)"""
    prog = ctx.prog
    g2 = prog.fn(RC + "::push_fdt_obj")
    al2 = prog.fn(RC + "::attach_latest_fdt_to_objects")
    push_end = set(method_name(s).split("_")[-1] for s, ai, mut in calls_on_field(prog, RC, "fdt_current", funcs=[g2]) if method_name(s) in ("push_front", "push_back"))
    take_end = set(re.sub(r"_mut$", "", method_name(s)) for s, ai, mut in calls_on_field(prog, RC, "fdt_current", funcs=[al2]) if method_name(s) in ("front", "front_mut", "back", "back_mut"))
    key = "attach_latest_fdt_to_objects offers the instance that just completed"
    if push_end and take_end and push_end == take_end:
        r5.ok(key, "push_%s / %s" % (sorted(push_end)[0], sorted(take_end)[0]), loc(al2.sp))
    else:
        r5.violation(key, "push_fdt_obj stores the completed instance with push_%s but attach_latest_fdt_to_objects takes %s: waiting objects are offered an old "
                          "instance and stay unattached for several cycles" % (sorted(push_end), sorted(take_end)), loc(al2.sp))


def run(ctx):
    prog = ctx.prog
    ctx.explanation = (
        "C16's core (delivery within two cycles for every join offset) is a liveness statement over packet histories and is "
        "NOT decided.  Decided: R1 an object enters the registry that suppresses later copies (state Completed -> "
        "objects_completed) only if complete() was delivered to a writer or the builder answered ObjectAlreadyReceived "
        "(typestate over all entry orders, shared with C09.R2); R2 the replay pairings without which a late joiner never "
        "catches up: attach_fdt initialises the writer and then replays the packet cache; a completed FDT instance is pushed "
        "to the front of fdt_current and then attached to all waiting objects; a new object is attached to the known "
        "instances before it is registered; R3 only a Completed object is entered into objects_completed.")
    ctx.not_decided += ["delivery within two further cycles for every join offset (liveness)"]

    r1 = ctx.rule("C16.R1", "state Completed at the exit of any ObjectReceiver entry point implies complete() was delivered or the "
                            "builder answered ObjectAlreadyReceived", "E3 typestate")
    it, spec, entries, R, FR = c09.typestate_run(ctx)
    ctx.extra["states"] = len(R)
    ctx.extra["transitions"] = it.ntrans
    bad = [(k, m, w, wit) for (k, m, w, wit) in it.reports if k.startswith("Completed without delivery")]
    for (k, m, where, wit) in bad:
        r1.violation(k, "%s  [witness: %s]" % (m, wit), where)
    for h in sorted(R, key=lambda z: tuple(str(v) for v in z)):
        H = spec.thaw(h)
        if H["st"] == "Completed":
            r1.ok("reachable Completed store %s" % (dict(H),), "", "src/receiver/objectreceiver.rs") if (H["g"] == "completed" or H["ar"] == "yes") else None
    r1.ok("typestate exploration", "%d reachable stores, entries %s" % (len(R), [e.split("::")[-1] for e in entries]), "src/receiver/objectreceiver.rs")
    r1.floor(1, "exploration")

    r2 = ctx.rule("C16.R2", "replay pairings: attach_fdt: init_object_writer -> push_from_cache; push_fdt_obj: fdt_current.push_front "
                            "-> attach_latest_fdt_to_objects; create_obj: attach loop before objects.insert", "PAIR")
    f = prog.fn(OR + "::attach_fdt")
    ctx.analysed(f.path)
    fl = Flow(f.body)
    inits = call_sites(f, lambda p, c: p == OR + "::init_object_writer")
    attach_order_rule(ctx, r2)
    parts = set(s.bb for s in call_sites(f, lambda p, c: p == OR + "::init_blocks_partitioning"))
    for s in inits:
        if parts and all(fl.dominates(pb, s.bb) for pb in parts):
            r2.ok("attach_fdt: init_blocks_partitioning before init_object_writer", "", s.loc)
        else:
            r2.violation("attach_fdt: init_blocks_partitioning before init_object_writer", "", s.loc)
    g = prog.fn(RC + "::push_fdt_obj")
    ctx.analysed(g.path)
    gf = Flow(g.body)
    pf = [s for s, ai, mut in calls_on_field(prog, RC, "fdt_current", funcs=[g]) if method_name(s) == "push_front"]
    att = set(s.bb for s in call_sites(g, lambda p, c: p == RC + "::attach_latest_fdt_to_objects"))
    for s in pf:
        ok, w = gf.postdominated_by(s.bb, lambda b: b in att)
        if ok and att:
            r2.ok("push_fdt_obj: push_front -> attach_latest_fdt_to_objects", "", s.loc)
        else:
            r2.violation("push_fdt_obj: push_front -> attach_latest_fdt_to_objects", "a completed FDT instance is stored but waiting objects "
                                                                                   "are not attached to it", s.loc)
    al = prog.fn(RC + "::attach_latest_fdt_to_objects")
    ctx.analysed(al.path)
    # every waiting object is offered the new instance: explicit loop or iterator adaptor over self.objects, attach_fdt on every element
    fe = foreach_sites(prog, al, r"^self\.objects\b", lambda p: p == OR + "::attach_fdt")
    if fe:
        r2.ok("attach_latest_fdt_to_objects iterates self.objects", fe[0][1], fe[0][2].loc)
    else:
        r2.violation("attach_latest_fdt_to_objects iterates self.objects", "waiting objects are not all offered the new instance", loc(al.sp))
    co = prog.fn(RC + "::create_obj")
    ctx.analysed(co.path)
    cf = Flow(co.body)
    ins = [s for s, ai, mut in calls_on_field(prog, RC, "objects", funcs=[co]) if method_name(s) == "insert"]
    atc = call_sites(co, lambda p, c: p == OR + "::attach_fdt")
    nxt = [s for s in call_sites(co, lambda p, c: p.endswith("::next"))]
    # the same search written with an adaptor: `self.fdt_current.iter_mut().position(|fdt| .. obj.attach_fdt(..))`
    srch = foreach_sites(prog, co, r"^self\.fdt_current\b", lambda p: p == OR + "::attach_fdt", unconditional=False, search=True)
    if not nxt and srch:
        atc = atc or [z_[2] for z_ in srch]
        nxt = [z_[2] for z_ in srch]
    for s in ins:
        # the loop (iterator next) dominates the insert: attachment attempted before registration
        if atc and nxt and all(cf.dominates(n.bb, s.bb) for n in nxt):
            r2.ok("create_obj: attach loop before objects.insert", "", s.loc)
        else:
            r2.violation("create_obj: attach loop before objects.insert", "a new object is registered without being offered the FDT "
                                                                        "instances already received", s.loc)
    # the loop walks fdt_current
    sl = Slicer(co.body)
    if nxt and any(z.startswith("var:self.fdt_current") for z in sl.sources(nxt[0].expr)):
        r2.ok("create_obj walks self.fdt_current", "", nxt[0].loc)
    else:
        r2.violation("create_obj walks self.fdt_current", "", loc(co.sp))
    r2.floor(9, "pairings")

    r3 = ctx.rule("C16.R3", "objects_completed.insert happens only in check_object_state under the Completed arm of the object's state", "DOM+WMC")
    for s, ai, mut in calls_on_field(prog, RC, "objects_completed"):
        if s.func.derived or method_name(s) not in ("insert", "entry", "extend", "append"):
            continue
        caller = s.func.root().path
        key = "%s objects_completed.%s" % (caller, method_name(s))
        if caller != RC + "::check_object_state":
            r3.violation(key, "completed registry filled outside check_object_state", s.loc)
            continue
        fl2 = Flow(s.func.body)
        fs = fl2.facts_at(s.bb)
        if any(a[0] == "variant" and a[2] == "Completed" and t and ".state" in show(a[1]) for (a, t) in fs):
            r3.ok(key, "under obj.state == Completed", s.loc)
        else:
            r3.violation(key, "an object that is not Completed can be registered as received", s.loc)
    r3.floor(1, "registry insert")

    # ---- R4 the in-band OTI a late joiner decodes with is the sender's own partition ----------------------------
    r4 = ctx.rule("C16.R4", "a late joiner that sees object packets before the FDT partitions the object from EXT_FTI alone: the Z / B the "
                            "sender announces there come from the same block_partitioning(B, L, E) argument roles at every call site "
                            "(sender encoder, sender FileDesc, receiver) - same analysis as C07.R1", "ARG")
    from . import c07
    c07.partition_call_agreement(ctx, r4)

    # ---- R5 / R6 what a late joiner depends on, shared with C11 / C03 -------------------------------------------------
    r5 = ctx.rule("C16.R5", "being-transferred mode keeps a live FDT for every carouselled object: every transfer start in get_next_file_transfer - first "
                            "transfer or carousel repeat alike - is followed by Fdt::publish (shared with C11.R4); in the receiver the instance offered to the "
                            "waiting objects is the one that just completed (same end of fdt_current as the push)", "PAIR under assumption + ARG")
    from . import c11
    c11.auto_publish_rule(ctx, r5)
    latest_instance_rule(ctx, r5)
    r5.floor(2, "carousel FDT facts")
    from . import c01
    c01.decoding_params_provenance(ctx, ctx.rule("C16.R6", "a packet seen before the FDT must not freeze decoding parameters the FDT will bring: " + c01.DECODING_TEXT, "WWF + value provenance (shared with C03.R6)"))
    r7 = ctx.rule("C16.R7", "the FDT instance on the carousel is valid while it is on the wire, so a receiver that joins at any time can use it: Expires = "
                            "ntp(now of this very publication) + duration, publish hands its own `now` down, and last_publish is recorded only once the "
                            "instance was queued (shared with C10.R3)", "DEP + ARG + DOM")
    from . import c10
    c10.publication_rule(ctx, r7)
    r7.floor(5, "expiry facts")
