"""C10 — FDT instances: id discipline, metadata flow, expiry, listing."""
import re

from ..rules import *  # noqa
from ..model import X, show, loc, walk
from ..cfg import Flow, Slicer, find_calls, call_sites
from .. import ranges
from . import c01

FDT = "sender::fdt::Fdt"
FDTI = "common::fdtinstance::FdtInstance"


EXTRACTION_TEXT = ("receiver-side per-file extraction: get_oti_for_file prefers the File element's FEC-OTI over the "
                   "FDT-Instance's; File::get_transfer_length prefers Transfer-Length over Content-Length over 0; "
                   "File::get_oti and FdtInstance::get_oti map each FEC-OTI attribute to the same Oti field")


def receiver_extraction_rule(ctx, r6):
    prog = ctx.prog
    fallback_chain(r6, prog, FDTI + "::get_oti_for_file",
                   [("File FEC-OTI", r"File::get_oti\(&file\)", r"File::get_oti\(&file\)"),
                    ("FDT-Instance FEC-OTI", r"FdtInstance::get_oti\(&self\)", r"FdtInstance::get_oti\(&self\)")], "get_oti_for_file")
    fallback_chain(r6, prog, "common::fdtinstance::File::get_transfer_length",
                   [("Transfer-Length", r"self\.transfer_length", r"self\.transfer_length$"),
                    ("Content-Length", r"self\.content_length", r"self\.content_length$"),
                    ("0", r"^0$", r"^$")], "File::get_transfer_length")
    maps = {}
    for fp in ("common::fdtinstance::File::get_oti", FDTI + "::get_oti"):
        g_ = prog.fn(fp)
        ctx.analysed(fp)
        sg = Slicer(g_.body)
        cons_ = [(blk.i, st) for blk in g_.body.blocks if not blk.cleanup for st in blk.stmts
                 if st.k == "assign" and st.rv.k == "aggr" and st.rv.j.get("adt") == "common::oti::Oti"]
        if len(cons_) != 1:
            raise model.AnchorMissing("%s builds %d Oti values" % (fp, len(cons_)))
        bb_, st = cons_[0]
        names_ = st.rv.j["fnames"]
        m_ = {}
        for i_, n_ in enumerate(names_):
            ex_ = sg.expand(sg.x.operand(st.rv.ops[i_]))
            m_[n_] = (show(ex_, 400), sorted(set(z for z in sg.sources(sg.x.operand(st.rv.ops[i_])) if z.startswith("var:self."))), ex_)
        maps[fp] = (m_, st)

    def attrs(e):
        return set(re.sub(r"@.*$", "", show(c)) for c in walk(e) if c[0] == "var" and show(c).startswith("self."))
    ONE = {"fec_instance_id": "self.fec_oti_fec_instance_id", "maximum_source_block_length": "self.fec_oti_maximum_source_block_length",
           "encoding_symbol_length": "self.fec_oti_encoding_symbol_length"}
    DEP = {"fec_encoding_id": "var:self.fec_oti_fec_encoding_id", "scheme_specific": "var:self.fec_oti_scheme_specific_info"}
    for fp, (m_, st) in sorted(maps.items()):
        short = "::".join(fp.split("::")[-2:])
        for n_, want in sorted(ONE.items()):
            txt, srcs, ex_ = m_[n_]
            key = "%s Oti.%s" % (short, n_)
            if attrs(ex_) == {want}:
                r6.ok(key, txt[:80], loc(st.sp))
            else:
                r6.violation(key, "Oti.%s is built from %s; expected exactly the attribute %s" % (n_, txt[:120], want), loc(st.sp))
        for n_, want in sorted(DEP.items()):
            txt, srcs, ex_ = m_[n_]
            key = "%s Oti.%s" % (short, n_)
            if any(z == want or z.startswith(want + "@") or z.startswith(want + ".") for z in srcs):
                r6.ok(key, "<- %s" % want[4:], loc(st.sp))
            else:
                r6.violation(key, "Oti.%s does not derive from %s (sources %s)" % (n_, want[4:], srcs), loc(st.sp))
        txt, srcs, ex_ = m_["max_number_of_parity_symbols"]
        key = "%s Oti.max_number_of_parity_symbols" % short
        sub = [c for c in walk(ex_) if (c[0] == "call" and re.search(r"::(saturating_sub|wrapping_sub|checked_sub)$", c[1]) and len(c[2]) == 2)
               or (c[0] == "bin" and c[1].startswith("Sub"))]
        okp = False
        for c in sub:
            l_, r_ = (c[2][0], c[2][1]) if c[0] == "call" else (c[2], c[3])
            if "self.fec_oti_max_number_of_encoding_symbols" in attrs(l_) and attrs(l_) <= {"self.fec_oti_max_number_of_encoding_symbols", "self.fec_oti_maximum_source_block_length"} \
                    and attrs(r_) == {"self.fec_oti_maximum_source_block_length"}:
                okp = True
        if okp:
            r6.ok(key, "max encoding symbols (default B) - B", loc(st.sp))
        else:
            r6.violation(key, "parity = %s; expected (max_number_of_encoding_symbols or B) - B" % txt[:200], loc(st.sp))
    a_, b_ = (maps["common::fdtinstance::File::get_oti"][0], maps[FDTI + "::get_oti"][0])
    for n_ in sorted(a_):
        key = "File::get_oti / FdtInstance::get_oti agree on Oti.%s" % n_
        if a_[n_][0] == b_.get(n_, (None,))[0] or (n_ in b_ and show(norm_unwrap(a_[n_][2]), 600) == show(norm_unwrap(b_[n_][2]), 600)):
            r6.ok(key, "", loc(maps[FDTI + "::get_oti"][1].sp))
        else:
            r6.violation(key, "File: %s ; FdtInstance: %s" % (a_[n_][0][:100], b_.get(n_, ("?",))[0][:100]), loc(maps[FDTI + "::get_oti"][1].sp))


def fdt_bytes_rule(ctx, rule):
    """the FDT instance's bytes reach FdtInstance::parse unaltered"""
    prog = ctx.prog
    FWI = "receiver::fdtreceiver::FdtWriterInner"
    ty = field_type(prog, FWI, "data")
    if re.match(r"^(std|alloc)::vec::Vec<u8>$", ty):
        rule.ok("FdtWriterInner.data type", ty, "src/receiver/fdtreceiver.rs")
    else:
        rule.violation("FdtWriterInner.data type", "the FDT reassembly buffer is a `%s`: pieces are written per source block / inflate buffer, any per-piece text "
                                                   "conversion alters multi-byte characters that straddle a piece boundary" % ty, "src/receiver/fdtreceiver.rs")
    W = "<receiver::fdtreceiver::FdtWriter as receiver::writer::ObjectWriter>::write"
    w = prog.fn(W)
    ctx.analysed(w.path)
    grow = [s for s, ai, mut in calls_on_field(prog, FWI, "data", funcs=[w]) if method_name(s) in ("extend", "extend_from_slice", "append", "push_str", "push")]
    from ..cfg import strip_ref
    if grow and all(show(strip_ref(s.expr[2][1])) == "data" for s in grow):
        rule.ok("FdtWriter::write appends the written slice", method_name(grow[0]), grow[0].loc)
    else:
        rule.violation("FdtWriter::write appends the written slice", "the buffer grows by %s, not by the `data` slice itself" % [show(s.expr[2][1], 60) for s in grow], loc(w.sp))
    C = "<receiver::fdtreceiver::FdtWriter as receiver::writer::ObjectWriter>::complete"
    c = prog.fn(C)
    ps = call_sites(c, lambda p, cc: p == FDTI + "::parse")
    if ps and all(re.search(r"inner\)?\.data", show(s.expr[2][0], 120)) for s in ps):
        rule.ok("FdtWriter::complete parses the buffer", "", ps[0].loc)
    else:
        rule.violation("FdtWriter::complete parses the buffer", "FdtInstance::parse is fed %s" % [show(s.expr[2][0], 60) for s in ps], loc(c.sp))


def fdtid_width_rule(ctx, rule):
    """every value stored in Fdt.fdtid fits the 20-bit FDT Instance ID field (shared with C06: push_fdt ORs the id with the version and HET)"""
    prog = ctx.prog
    n = 0
    for a in field_accesses(prog, FDT, "fdtid"):
        if a["kind"] not in ("assign", "construct"):
            continue
        n += 1
        rng = operand_range_at(prog, a)
        key = "%s %s Fdt.fdtid fits 20 bits" % (a["func"].root().path.split("::")[-1], a["kind"])
        if rng is not None and rng[0] >= 0 and rng[1] <= 2 ** 20 - 1:
            rule.ok(key, "range [%s, %s]" % rng, loc(a["sp"]))
        else:
            rule.violation(key, "Fdt.fdtid receives %s with range %s: push_fdt ORs the id into EXT_FDT without masking, so bits above 19 overwrite the version "
                                "(and the HET)" % (show(a["value"], 50), rng), loc(a["sp"]))
    if n < 2:
        raise model.AnchorMissing("Fdt.fdtid: %d writes found" % n)


def operand_range_at(prog, a):
    """E4 interval of the operand stored by the aggregate/assignment access `a` (field_accesses record)"""
    f = a["func"]
    rp = ranges.analyse(prog, f)
    st = rp.entry.get(a["bb"])
    if st is None:
        return None
    st = st.copy()
    blk = f.body.blocks[a["bb"]]
    for i, s2 in enumerate(blk.stmts):
        if i == a["idx"]:
            if s2.rv.k == "aggr":
                names = s2.rv.j.get("fnames") or []
                fld = a.get("field") or "fdtid"
                if fld in names:
                    return rp.operand(st, s2.rv.ops[names.index(fld)])[0]
                return None
            if s2.rv.k == "use":
                return rp.operand(st, s2.rv.ops[0])[0]
            if s2.rv.k == "bin":
                x_, _ = rp.operand(st, s2.rv.ops[0])
                y_, _ = rp.operand(st, s2.rv.ops[1])
                return rp.binop(s2.rv.j["op"], x_, y_, "u32")
            return None
        if s2.k == "assign":
            rp.assign(st, s2.lhs, s2.rv, a["bb"], s2.sp)
    return None


class _NoRule:
    """stands in for a rule whose clauses are not wanted where a rule function is shared"""
    def ok(self, *a, **k):
        pass

    def violation(self, *a, **k):
        pass

    def floor(self, *a, **k):
        pass


def publication_rule(ctx, r3, r5=None):
    """what an FDT instance says about its own validity (r3) and what it lists (r5); r3 is shared with C16.R7"""
    prog = ctx.prog
    r5 = r5 or _NoRule()
    pub = prog.fn(FDT + "::publish")
    flow = Flow(pub.body)
    pushes = [s for s, ai, mut in calls_on_field(prog, FDT, "fdt_transfer_queue", funcs=[pub]) if method_name(s) in ("push_back", "push_front", "insert")]
    gi = prog.fn(FDT + "::get_fdt_instance")
    ctx.analysed(gi.path)
    gs = Slicer(gi.body)
    cons = [(blk.i, s) for blk in gi.body.blocks if not blk.cleanup for s in blk.stmts
            if s.k == "assign" and s.rv.k == "aggr" and s.rv.j.get("adt") == FDTI]
    if not cons:
        raise model.AnchorMissing("get_fdt_instance does not build an FdtInstance")
    for bb, s in cons:
        names = s.rv.j["fnames"]
        e = gs.x.operand(s.rv.ops[names.index("expires")])
        srcs = gs.sources(e)
        if "var:now" in srcs and any(z.startswith("var:self.duration") for z in srcs) and any(z.endswith("system_time_to_ntp") for z in srcs):
            ex = gs.expand(e)
            r3.ok("get_fdt_instance expires", show(ex, 100), loc(s.sp))
        else:
            r3.violation("get_fdt_instance expires", "Expires is computed from {%s}; it must depend on now and self.duration" % ", ".join(sorted(z for z in srcs if z.startswith("var:")))[:160], loc(s.sp))
        # the sum: (ntp >> 32) + duration.as_secs()
        ee = gs.expand(e)
        adds = [c for c in walk(ee) if c[0] == "bin" and c[1].startswith("Add")]
        okadd = any(("as_secs" in show(c[3]) and ">> 32" in show(c[2])) or ("as_secs" in show(c[2]) and ">> 32" in show(c[3])) for c in adds)
        if okadd:
            r3.ok("get_fdt_instance expires = ntp seconds + duration", "", loc(s.sp))
        else:
            r3.violation("get_fdt_instance expires = ntp seconds + duration", "Expires is %s" % show(ee, 120), loc(s.sp))
        fe = gs.x.operand(s.rv.ops[names.index("file")])
        fsrc = gs.sources(fe)
        need = {"self.files": any(z.startswith("var:self.files") for z in fsrc),
                "get_files_being_transferred": any(z.endswith("Fdt::get_files_being_transferred") for z in fsrc),
                "publish_mode": any(z.startswith("var:self.publish_mode") for z in fsrc)}
        if all(need.values()):
            r5.ok("get_fdt_instance file list sources", "self.files | get_files_being_transferred selected by publish_mode", loc(s.sp))
        else:
            r5.violation("get_fdt_instance file list sources", "file list does not derive from %s" % [k for k, v in need.items() if not v], loc(s.sp))
        clos = [z[len("closure:"):] for z in fsrc if z.startswith("closure:")]
        okx = False
        for c in clos:
            cf = prog.funcs.get(c)
            if cf and any(True for _ in call_sites(cf, lambda p, cc: p == "sender::filedesc::FileDesc::to_file_xml")):
                okx = True
        # the same as an explicit loop pushing desc.to_file_xml(now) for every element of the selected list
        if not okx and any(z.endswith("FileDesc::to_file_xml") for z in fsrc if z.startswith("call:")) and \
                foreach_sites(prog, gi, r".", lambda p: p == "sender::filedesc::FileDesc::to_file_xml"):
            okx = True
        if okx:
            r5.ok("get_fdt_instance entries = to_file_xml", "", loc(s.sp))
        else:
            r5.violation("get_fdt_instance entries = to_file_xml", "file entries are not produced by FileDesc::to_file_xml", loc(s.sp))
        ge = gs.x.operand(s.rv.ops[names.index("group")])
        if any(z.startswith("var:self.groups") for z in gs.sources(ge)):
            r5.ok("get_fdt_instance group", "<- self.groups", loc(s.sp))
        else:
            r5.violation("get_fdt_instance group", "session groups not listed", loc(s.sp))
        ce = gs.x.operand(s.rv.ops[names.index("complete")])
        if show(ce) == "self.complete":
            r5.ok("get_fdt_instance complete", "", loc(s.sp))
        else:
            r5.violation("get_fdt_instance complete", show(ce, 40), loc(s.sp))
    # arm polarity of the list selection
    flow_g = Flow(gi.body)
    for s in call_sites(gi, lambda p, c: p == FDT + "::get_files_being_transferred"):
        fs = flow_g.facts_at(s.bb)
        if any(mode_is((a, tr), "ObjectsBeingTransferred") is True for (a, tr) in fs):
            r5.ok("being-transferred list only in ObjectsBeingTransferred mode", "", s.loc)
        else:
            r5.violation("being-transferred list only in ObjectsBeingTransferred mode", "list selection arms swapped or unguarded", s.loc)
    gb = prog.fn(FDT + "::get_files_being_transferred")
    okf = False
    for c in prog.with_closures(gb.path)[1:]:
        cf = prog.funcs[c]
        if any(True for _ in call_sites(cf, lambda p, cc: p == "sender::filedesc::FileDesc::is_transferring")):
            rets = ret_assign_blocks(cf.body, lambda e: True)
            if rets and all(e[0] == "call" and e[1].endswith("is_transferring") for _, e in rets):
                okf = True
    if okf:
        r5.ok("get_files_being_transferred filter", "filter(is_transferring)", loc(gb.sp))
    else:
        r5.violation("get_files_being_transferred filter", "filter predicate is not exactly is_transferring()", loc(gb.sp))
    # the time base of Expires is the `now` of this very publication: get_fdt_instance feeds its own parameter to
    # system_time_to_ntp, and publish passes its `now` through and records it as last_publish
    for bb, s in cons:
        ee = gs.expand(gs.x.operand(s.rv.ops[s.rv.j["fnames"].index("expires")]))
        ntp = [c for c in walk(ee) if c[0] == "call" and c[1].endswith("system_time_to_ntp")]
        key = "get_fdt_instance expires time base"
        if ntp and all(show(c[2][0]) == "now" for c in ntp):
            r3.ok(key, "system_time_to_ntp(now)", loc(s.sp))
        else:
            r3.violation(key, "Expires is based on %s, not on the publication time `now`" % [show(c[2][0], 80) for c in ntp], loc(s.sp))
    for s in call_sites(pub, lambda p, c: p in (FDT + "::get_fdt_instance", FDT + "::to_xml")):
        key = "publish -> %s(now)" % s.term.callee_path().split("::")[-1]
        if show(s.expr[2][-1]) == "now":
            r3.ok(key, "", s.loc)
        else:
            r3.violation(key, "publish passes %s as the publication time" % show(s.expr[2][-1], 60), s.loc)
    for fn_ in (FDT + "::to_xml",):
        g_ = prog.funcs.get(fn_)
        if g_ is not None:
            for s in call_sites(g_, lambda p, c: p == FDT + "::get_fdt_instance"):
                key = "to_xml -> get_fdt_instance(now)"
                if show(s.expr[2][-1]) == "now":
                    r3.ok(key, "", s.loc)
                else:
                    r3.violation(key, "to_xml passes %s as the publication time" % show(s.expr[2][-1], 60), s.loc)
    lp = [a for a in field_accesses(prog, FDT, "last_publish") if a["kind"] in ("assign", "assign_sub", "borrow_mut")]
    for a in lp:
        caller = a["func"].root().path
        key = "%s writes Fdt.last_publish" % caller.split("::")[-1]
        if caller == FDT + "::publish" and show(a["value"]) == "Option::Some{0: now}":
            # a publish() that fails before the instance is queued must not look like a publication: the renewal decision (R7) measures the
            # age of the instance on the wire from last_publish
            pbs = set(s.bb for s in pushes)
            queued, w = flow.must_pass(0, [a["bb"]], lambda n: n[0] == "b" and n[1] in pbs) if a["bb"] not in pbs else (True, None)
            if a["func"].root() is not pub or (queued and pbs and a["bb"] != 0):
                r3.ok(key, "= Some(now), after the instance was queued", loc(a["sp"]))
            else:
                r3.violation(key, "last_publish is refreshed on a path of publish() that has not queued an instance (before a fallible step): after "
                                  "a failed publish the sender believes a fresh instance is on the wire and does not renew it before it expires",
                             loc(a["sp"]))
        else:
            r3.violation(key, "last_publish = %s in %s: it must record the `now` of publish()" % (show(a["value"], 60), caller), loc(a["sp"]))


def oti_announced_rule(ctx, rule):
    """the FEC OTI of an object is announced at one of two places: on FDT-Instance (the session OTI, Fdt::get_fdt_instance) or on the File element
    (FileDesc::to_file_xml).  Both call Oti::get_attributes(&self.oti) under a test of self.oti.fec_encoding_id; every scheme must be covered by
    one of the two calls (the per-object override of to_file_xml is optional and does not count)."""
    prog = ctx.prog
    adts = [a_ for p_, a_ in prog.adts.items() if p_.endswith("oti::FECEncodingID")]
    if not adts:
        raise model.AnchorMissing("FECEncodingID not found")
    ALL = set(v_["name"] for v_ in adts[0]["variants"])
    covered = {}
    for fn_ in (FDT + "::get_fdt_instance", "sender::filedesc::FileDesc::to_file_xml"):
        f = prog.fn(fn_)
        fl = Flow(f.body)
        got = set()
        sites = [s_ for s_ in call_sites(f, lambda p, c: p.endswith("Oti::get_attributes")) if re.search(r"^&*self\.oti$", show(s_.expr[2][0]))]
        for s_ in sites:
            pos, neg = set(), set()
            for (a_, t_) in fl.facts_at(s_.bb):
                if a_[0] == "variant" and "fec_encoding_id" in show(a_[1]) and a_[2] in ALL:
                    (pos if t_ else neg).add(a_[2])
                elif a_[0] == "variant_in" and "fec_encoding_id" in show(a_[1]) and t_:
                    pos |= set(a_[2]) & ALL
                elif a_[0] == "eq":
                    for (x_, y_) in ((a_[1], a_[2]), (a_[2], a_[1])):
                        m_ = re.search(r"FECEncodingID::(\w+)", show(y_))
                        if m_ and "fec_encoding_id" in show(x_) and m_.group(1) in ALL:
                            (pos if t_ else neg).add(m_.group(1))
            got |= pos if pos else (ALL - neg)
        covered[fn_] = (got, sites, f)
    gi_set, gi_sites, gi = covered[FDT + "::get_fdt_instance"]
    tf_set, tf_sites, tf = covered["sender::filedesc::FileDesc::to_file_xml"]
    if not gi_sites and not tf_sites:
        raise model.AnchorMissing("neither get_fdt_instance nor to_file_xml calls Oti::get_attributes(&self.oti)")
    key = "FEC OTI announced on FDT-Instance or on every File"
    missing = ALL - gi_set - tf_set
    if missing:
        rule.violation(key, "for %s neither the FDT-Instance element (get_fdt_instance writes the session OTI for %s) nor the File element (to_file_xml always "
                            "writes it for %s only) carries the FEC OTI: a receiver that relies on the FDT cannot decode such an object" % (
                                sorted(missing), sorted(gi_set) or "no scheme", sorted(tf_set) or "no scheme"), loc(gi.sp))
    else:
        rule.ok(key, "instance-level OTI for %s, per-File OTI always for %s" % (sorted(gi_set), sorted(tf_set)), loc(gi.sp))


def run(ctx):
    prog = ctx.prog
    ctx.explanation = (
        "C10: XML well-formedness / escaping (quick-xml), set equality of listed objects over operation histories and the "
        "'superseded before expiry' timing are NOT decided.  Decided: R1 the instance id is written only in new/publish, the "
        "value assigned in publish lies in [0, 2^20-1], every queued instance is followed by the increment and carries the "
        "pre-increment id; R2 every File attribute derives from the object's own field (shared with C01.R4); R3 Expires "
        "depends on now and on the configured duration; R4 publish marks every listed file; R5 the file list comes from "
        "`files` (FullFDT) or from the objects in transmission (other mode), selected by publish_mode.")
    ctx.not_decided += ["XML well-formedness and escaping (quick-xml / serde)", "set equality of listed objects over all add/remove/publish histories",
                        "an instance is superseded before it expires as a timing statement (R7 decides the renewal predicate's shape only)"]

    # ---- R1 ----------------------------------------------------------------------------------
    r1 = ctx.rule("C10.R1", "Fdt.fdtid: written only in Fdt::new (initial) and Fdt::publish; in publish the new value is in "
                            "[0, 2^20-1] and equals (old + 1) masked; each push to fdt_transfer_queue is followed by the increment "
                            "and the queued FileDesc was built with the pre-increment id", "WWF+E4+PAIR+ARG")
    pub = prog.fn(FDT + "::publish")
    ctx.analysed(pub.path)
    rp = ranges.analyse(prog, pub)
    flow = Flow(pub.body)
    sl = Slicer(pub.body)
    incs = []
    for a in field_accesses(prog, FDT, "fdtid"):
        caller = a["func"].root().path
        key = "%s %s Fdt.fdtid" % (caller, a["kind"])
        if a["kind"] == "construct" and caller == FDT + "::new":
            rng = operand_range_at(prog, a)
            if rng is not None and rng[0] >= 0 and rng[1] <= 2 ** 20 - 1:
                r1.ok(key, "initial value = %s in [%s, %s]" % (show(a["value"], 40), rng[0], rng[1]), loc(a["sp"]))
            else:
                r1.violation(key, "the first instance id is %s with range %s: a configured start id >= 2^20 is not reduced modulo 2^20 and spills into the "
                                  "version bits (and beyond 2^24 into the HET) of EXT_FDT, which push_fdt ORs together without masking" % (show(a["value"], 40), rng), loc(a["sp"]))
        elif a["kind"] == "assign" and caller == FDT + "::publish":
            incs.append(a)
            # range of the assigned value: evaluate at the assignment
            st = rp.entry.get(a["bb"])
            st = st.copy() if st else None
            val = None
            if st is not None:
                blk = pub.body.blocks[a["bb"]]
                for i, s2 in enumerate(blk.stmts):
                    if i == a["idx"]:
                        v, _ = (rp.operand(st, s2.rv.ops[0]) if s2.rv.k == "use" else (None, None))
                        if s2.rv.k == "bin":
                            x_, _ = rp.operand(st, s2.rv.ops[0])
                            y_, _ = rp.operand(st, s2.rv.ops[1])
                            v = rp.binop(s2.rv.j["op"], x_, y_, "u32")
                        val = v
                        break
                    if s2.k == "assign":
                        rp.assign(st, s2.lhs, s2.rv, a["bb"], s2.sp)
            ex = sl.expand(a["value"])
            shape = ex[0] == "bin" and ex[1] == "BitAnd" and "self.fdtid + 1" in show(ex)
            if val is not None and val[0] >= 0 and val[1] <= 2 ** 20 - 1 and shape:
                r1.ok(key, "new id in [%s, %s] = %s" % (val[0], val[1], show(ex, 60)), loc(a["sp"]))
            elif val is None or val[1] > 2 ** 20 - 1:
                r1.violation(key, "the id assigned in publish ranges over %s: it can leave the 20-bit EXT_FDT field (%s)" % (val, show(ex, 60)), loc(a["sp"]))
            else:
                r1.violation(key, "the id is not advanced as (old + 1) mod 2^20: %s" % show(ex, 80), loc(a["sp"]))
        else:
            r1.violation(key, "instance id written outside new/publish", loc(a["sp"]))
    pushes = [s for s, ai, mut in calls_on_field(prog, FDT, "fdt_transfer_queue", funcs=[pub]) if method_name(s) in ("push_back", "push_front", "insert")]
    allpush = [s for s, ai, mut in calls_on_field(prog, FDT, "fdt_transfer_queue") if method_name(s) in ("push_back", "push_front", "insert", "extend", "append")]
    for s in allpush:
        caller = s.func.root().path
        key = "%s queues an FDT instance" % caller
        if caller != FDT + "::publish":
            r1.violation(key, "FDT instance queued outside publish()", s.loc)
            continue
        incbbs = [a["bb"] for a in incs]
        ok, w = flow.postdominated_by(s.bb, lambda b: b in incbbs) if s.bb not in incbbs else (True, None)
        if ok and incs:
            r1.ok(key, "followed by the id increment", s.loc)
        else:
            r1.violation(key, "an instance is queued on a path that does not advance the id: two different contents share one id", s.loc)
    for s in call_sites(pub, lambda p, c: p == "sender::filedesc::FileDesc::new"):
        arg = s.expr[2][3]
        key = "publish FileDesc::new fdt_id argument"
        pre = all(flow.dominates(s.bb, a["bb"]) and s.bb != a["bb"] for a in incs)
        # the id may have been read into a local first (`let instance_id = self.fdtid;`): then the read is where that local is defined
        if arg[0] == "aggr" and arg[2] == "Some" and len(arg[3]) == 1 and arg[3][0][0] == "var" and not arg[3][0][2] and show(sl.expand(arg)) == "Option::Some{0: self.fdtid}":
            rd = [bb_ for (pj_, e_, bb_) in sl.var_defs().get(arg[3][0][1], []) if pj_ == ""]
            if len(rd) == 1 and all(flow.dominates(rd[0], a["bb"]) for a in incs) and \
                    not any(a["bb"] == rd[0] for a in incs):
                arg = sl.expand(arg)
                pre = True
        if show(arg) == "Option::Some{0: self.fdtid}" and pre:
            r1.ok(key, "Some(self.fdtid) read before the increment", s.loc)
        else:
            r1.violation(key, "queued instance carries %s%s" % (show(arg, 50), "" if pre else " read after the increment"), s.loc)
    r1.floor(4, "id facts")
    # wire side: push_fdt masks 20 bits / fdt_id argument is pkt.fdt_id
    # ---- R2 ----------------------------------------------------------------------------------
    c01.metadata_flow_sender(ctx, ctx.rule("C10.R2", c01.SENDER_FLOW_TEXT, "ARG/DEP"))

    # ---- R3 / R5 -----------------------------------------------------------------------------
    r3 = ctx.rule("C10.R3", "FdtInstance.expires depends on `now` and on self.duration (publish time + configured duration)", "DEP")
    r5 = ctx.rule("C10.R5", "FdtInstance.file lists self.files in FullFDT mode and the objects in transmission otherwise; each entry is "
                            "FileDesc::to_file_xml of the listed object; the instance's OTI attributes come from the session OTI", "DEP")
    publication_rule(ctx, r3, r5)
    r3.floor(5, "expiry facts")
    oti_announced_rule(ctx, r5)
    r5.floor(6, "listing facts")

    # ---- R6 receiver-side extraction -----------------------------------------------------------
    r6 = ctx.rule("C10.R6", EXTRACTION_TEXT + "; the FDT receiver hands the instance's bytes to the XML parser unaltered (FdtWriterInner.data is a "
                            "byte vector extended with the written slice itself)", "fallback order + sibling agreement + TYP")
    receiver_extraction_rule(ctx, r6)
    fdt_bytes_rule(ctx, r6)
    r6.floor(23, "extraction facts")

    # ---- R7 renewal before expiry ---------------------------------------------------------------
    r7 = ctx.rule("C10.R7", "renewal: Fdt::current_fdt_will_expire answers true whenever the time since last_publish has reached the configured "
                            "duration (every non-constant answer is `duration - margin < elapsed` or `duration <= elapsed` with margin >= 0 and "
                            "elapsed = now - last_publish; `false` only while an instance is still queued; `true` when nothing was published yet); "
                            "get_next_fdt_transfer publishes under that answer before it takes the next instance from the queue", "value shape + DOM")
    from ..cfg import cmp_kind, strip_ref
    we = prog.fn(FDT + "::current_fdt_will_expire")
    ctx.analysed(we.path)
    wsl = Slicer(we.body)
    wfl = Flow(we.body)
    for bb, e in ret_assign_blocks(we.body, lambda e: True):
        if e[0] == "const" and e[2] is False:
            key = "current_fdt_will_expire returns false"
            fs = wfl.facts_at(bb)
            if any(a[0] == "true" and not t and "is_empty" in show(a[1]) and "fdt_transfer_queue" in show(a[1]) for (a, t) in fs):
                r7.ok(key, "only while an instance is still queued", loc(we.sp))
            else:
                r7.violation(key, "answers `false` unconditionally on a path where no instance is queued", loc(we.sp))
            continue
        if e[0] == "const" and e[2] is True:
            r7.ok("current_fdt_will_expire returns true", "nothing published / no current transfer", loc(we.sp))
            continue
        ex = wsl.expand(e)
        ck = cmp_kind(ex)
        key = "current_fdt_will_expire answer %s" % show(e, 70)
        ok = False
        why = "not a comparison"
        if ck:
            op, a, b = ck
            if op in ("Gt", "Ge"):
                op, a, b = {"Gt": "Lt", "Ge": "Le"}[op], b, a
            a, b = strip_ref(a), strip_ref(b)
            elapsed = b[0] == "call" and b[1].endswith("unwrap_or_default") and "duration_since(&now" in show(b, 200) and "self.last_publish" in show(b, 200)
            thr = None
            if show(a) == "self.duration":
                thr = 0
            elif a[0] == "call" and re.search(r"(Sub.*::sub|Duration::sub|saturating_sub|checked_sub)$", a[1]) and show(strip_ref(a[2][0])) == "self.duration":
                m_ = strip_ref(a[2][1])
                if m_[0] == "call" and m_[1].endswith("Duration::from_secs"):
                    thr = const_value(m_[2][0])
            if not elapsed:
                why = "right-hand side is %s, not the time since last_publish" % show(b, 80)
            elif thr is None:
                why = "threshold is %s, not self.duration minus a constant margin" % show(a, 80)
            elif thr == 0 and op not in ("Le", "Lt"):
                why = "operator %s" % op
            elif thr == 0 and op == "Lt":
                why = "`duration < elapsed` misses elapsed == duration"
            else:
                ok = True
        if ok:
            r7.ok(key, "threshold <= duration, compared with the time since last_publish", loc(we.sp))
        else:
            r7.violation(key, "the renewal test can answer false after the instance's validity has run out: %s" % why, loc(we.sp))
    gn = prog.fn(FDT + "::get_next_fdt_transfer")
    ctx.analysed(gn.path)
    gfl = Flow(gn.body)
    pubs = call_sites(gn, lambda p, c: p == FDT + "::publish")
    pops = [s for s, ai, mut in calls_on_field(prog, FDT, "fdt_transfer_queue", funcs=[gn]) if method_name(s) in ("pop_front", "pop_back", "remove")]
    if not pubs or not pops:
        r7.violation("get_next_fdt_transfer renews", "publish (%d) / pop (%d) sites not found" % (len(pubs), len(pops)), loc(gn.sp))
    for s in pubs:
        fs = gfl.facts_at(s.bb)
        if any(a[0] == "true" and t and "current_fdt_will_expire" in show(a[1]) for (a, t) in fs):
            r7.ok("get_next_fdt_transfer publishes when the instance will expire", "", s.loc)
        else:
            r7.violation("get_next_fdt_transfer publishes when the instance will expire", "publish is not under current_fdt_will_expire(now)", s.loc)
    # ... and on every path where the answer is true
    pub_bbs = set(s.bb for s in pubs)
    for blk in gn.body.blocks:
        t_ = blk.term
        if t_.k != "switch":
            continue
        for k in range(len(t_.targets) + 1):
            if any(a[0] == "true" and t and a[1][0] == "call" and a[1][1].endswith("current_fdt_will_expire") for (a, t) in gfl.edge_facts(("e", blk.i, k))):
                tgt = t_.targets[k][1] if k < len(t_.targets) else t_.otherwise
                for s in pops:
                    ok, w_ = gfl.must_pass(tgt, [s.bb], lambda n: n[0] == "b" and n[1] in pub_bbs)
                    key = "get_next_fdt_transfer: will-expire => publish before the next instance is taken"
                    if ok:
                        r7.ok(key, "", s.loc)
                    else:
                        r7.violation(key, "a path from `current_fdt_will_expire(now) == true` reaches the queue pop without publishing: %s" % path_text(gn.body, w_), s.loc)
    wes = call_sites(gn, lambda p, c: p == FDT + "::current_fdt_will_expire")
    for s in pops:
        if wes and all(w_.bb != s.bb and gfl.dominates(w_.bb, s.bb) for w_ in wes):
            r7.ok("get_next_fdt_transfer: renewal test before taking the next instance", "", s.loc)
        else:
            r7.violation("get_next_fdt_transfer: renewal test before taking the next instance", "the queue is popped on a path that skipped the renewal test", s.loc)
    r7.floor(8, "renewal facts")

    # ---- R4 ----------------------------------------------------------------------------------
    r4 = ctx.rule("C10.R4", "in Fdt::publish the push to the FDT queue is followed by set_published() on every entry of self.files, "
                            "and the instance content is serialised before either", "PAIR")
    # every entry of self.files is marked: `files.iter().for_each(|f| f.set_published())` or the same as an explicit loop
    marks = [bb for bb, how, _s in foreach_sites(prog, pub, r"^self\.files\b", lambda p: p == "sender::filedesc::FileDesc::set_published")]
    for s in pushes:
        ok, w = flow.postdominated_by(s.bb, lambda b: b in marks)
        if ok and marks:
            r4.ok("publish: queue -> mark all files published", "", s.loc)
        else:
            r4.violation("publish: queue -> mark all files published", "an instance can be queued while some listed file stays unpublished (never sent in FullFDT mode)", s.loc)
    xmls = [s.bb for s in call_sites(pub, lambda p, c: p == FDT + "::to_xml")]
    for s in pushes:
        if xmls and all(flow.dominates(xb, s.bb) for xb in xmls):
            r4.ok("publish: content serialised before queueing", "", s.loc)
        else:
            r4.violation("publish: content serialised before queueing", "", s.loc)
    r4.floor(2, "publish pairing")
