"""C06 — ALC/LCT wire format: writer layout = reader layout = RFC layout (bit provenance), header-length bookkeeping,
lossy narrow shifts, flag constants."""
import re

from ..rules import *  # noqa
from ..model import X, show, loc, walk
from ..cfg import Flow, Slicer, find_calls, call_sites, show_fact
from .. import bits, ranges

CODECS = {
    "NoCode": "common::alccodec::alcnocode::AlcNoCode",
    "RS28": "common::alccodec::alcrs28::AlcRS28",
    "RS28US": "common::alccodec::alcrs28underspecified::AlcRS28UnderSpecified",
    "RaptorQ": "common::alccodec::alcraptorq::AlcRaptorQ",
    "Raptor": "common::alccodec::alcraptor::AlcRaptor",
}

# ---- RFC layouts (DESIGN appendix D), transcribed from the RFCs: list of (field, width, what) in wire order ----------------
#  what: ('const', value) | ('field', regex on the source leaf) | ('opaque', regex) | ('any',)
L_ = ("field", r"transfer_length$")
E_ = ("field", r"encoding_symbol_length$")
B_ = ("field", r"maximum_source_block_length$")
MAXN = ("opaque", r"max_number_of_parity_symbols.*maximum_source_block_length|maximum_source_block_length.*max_number_of_parity_symbols")
RFC_FTI = {
    "NoCode": [("HET", 8, ("const", 64)), ("HEL", 8, ("const", 4)), ("L", 48, L_), ("reserved/instance", 16, ("constfield", 0, r"fec_instance_id$")),
               ("E", 16, E_), ("B", 32, B_)],
    "RS28": [("HET", 8, ("const", 64)), ("HEL", 8, ("const", 3)), ("L", 48, L_), ("E", 16, E_), ("B", 8, B_), ("max_n", 8, MAXN)],
    "RS28US": [("HET", 8, ("const", 64)), ("HEL", 8, ("const", 4)), ("L", 48, L_), ("instance", 16, ("field", r"fec_instance_id$")),
               ("E", 16, E_), ("B", 16, B_), ("max_n", 16, MAXN)],
    "RaptorQ": [("HET", 8, ("const", 64)), ("HEL", 8, ("const", 4)), ("F", 40, L_), ("reserved", 8, ("const", 0)), ("T", 16, E_),
                ("Z", 8, ("field", r"source_blocks_length$")), ("N", 16, ("field", r"sub_blocks_length$")),
                ("Al", 8, ("field", r"symbol_alignment$")), ("padding", 16, ("const", 0))],
    "Raptor": [("HET", 8, ("const", 64)), ("HEL", 8, ("const", 4)), ("F", 40, L_), ("reserved", 8, ("const", 0)), ("T", 16, E_),
               ("Z", 16, ("field", r"source_blocks_length$")), ("N", 8, ("field", r"sub_blocks_length$")),
               ("Al", 8, ("field", r"symbol_alignment$")), ("padding", 16, ("const", 0))],
}
SBN = ("field", r"\.sbn$")
ESI = ("field", r"\.esi$")
RFC_PID = {
    "NoCode": [("SBN", 16, SBN), ("ESI", 16, ESI)],
    "RS28": [("SBN", 24, SBN), ("ESI", 8, ESI)],
    "RS28US": [("SBN", 32, SBN), ("SBL", 16, ("field", r"source_block_length$")), ("ESI", 16, ESI)],
    "RaptorQ": [("SBN", 8, SBN), ("ESI", 24, ESI)],
    "Raptor": [("SBN", 16, SBN), ("ESI", 16, ESI)],
}
RFC_EXT = {
    "common::alc::push_fdt": [("HET", 8, ("const", 192)), ("V", 4, ("field", r"^version$")), ("FDT Instance ID", 20, ("field", r"^fdt_id$"))],
    "common::alc::push_cenc": [("HET", 8, ("const", 193)), ("CENC", 8, ("field", r"^cenc$")), ("reserved", 16, ("const", 0))],
    # RFC 5651 section 5.2.2 EXT_TIME with SCT-High and SCT-Low: Use field bits SCT-Hi, SCT-Low, ERT, SLC, 4 reserved, 8 PI-specific
    "common::alc::push_sct": [("HET", 8, ("const", 2)), ("HEL", 8, ("const", 3)), ("SCT-High", 1, ("const", 1)), ("SCT-Low", 1, ("const", 1)),
                              ("ERT", 1, ("const", 0)), ("SLC", 1, ("const", 0)), ("reserved", 4, ("const", 0)), ("PI-specific", 8, ("const", 0)),
                              ("SCT (NTP seconds . fraction)", 64, ("field", r"system_time_to_ntp"))],
}
# sources whose value range is narrower than their type, with the reason (the layout check uses the declared width)
LEAF_WIDTH = {
    r"^fdt_id$": (20, "FDT instance ids are kept in [0, 2^20) by Fdt::publish (C10.R1) and by the domain of fdt_start_id"),
    r"^version$": (4, "push_fdt is called with the constants 1 or 2 (checked by C06.R6)"),
}
# reader side: field of the produced value -> (wire bit offset, width) per RFC, offsets counted from the start of the item
def offsets(layout):
    out = {}
    o = 0
    for name, w, what in layout:
        out[name] = (o, w)
        o += w
    return out, o


def append_sequences(prog, f):
    """all distinct sequences of byte-append calls on the `data` parameter along acyclic CFG paths: list of lists of (kind, expr, sp)"""
    body = f.body
    x = X(body)
    seqs = set()
    results = []

    def is_data(e):
        e = bits.strip(e)
        while e[0] == "call" and re.search(r"(DerefMut.*::deref_mut|Deref.*::deref|as_mut_slice|as_mut|as_slice)$", e[1]) and e[2]:
            e = bits.strip(e[2][0])
        return e[0] == "var" and e[1] == "data"

    def walk_cfg(bb, acc, vis):
        if bb in vis:
            return
        vis = vis | {bb}
        blk = body.blocks[bb]
        if blk.cleanup:
            return
        t = blk.term
        acc2 = acc
        if t.k == "call":
            e = x.call_expr(bb, t, x.depth)
            p = e[1]
            if e[2] and is_data(e[2][0]):
                if re.search(r"Extend.*::extend$|Vec::extend_from_slice$", p):
                    acc2 = acc + (("extend", e[2][1], tuple(t.sp[:2]) if t.sp else None),)
                elif re.search(r"Vec::push$", p):
                    acc2 = acc + (("push", e[2][1], tuple(t.sp[:2]) if t.sp else None),)
                elif p == "common::lct::inc_hdr_len":
                    acc2 = acc + (("inc_hdr_len", e[2][1], tuple(t.sp[:2]) if t.sp else None),)
            if t.target is None:
                return  # diverges (panic)
            walk_cfg(t.target, acc2, vis)
        elif t.k == "return":
            if acc2 not in seqs:
                seqs.add(acc2)
                results.append(list(acc2))
        else:
            for s in t.succs(False):
                walk_cfg(s, acc2, vis)

    walk_cfg(0, (), frozenset())
    return results


def leaf_namer(e):
    return show(e, 200)


def writer_layouts(prog, f):
    """for each non-empty append sequence: (runs, nbytes, inc_hdr_len words or None, problems)"""
    sl = Slicer(f.body)
    def lw(name):
        for rx_, (w, why) in LEAF_WIDTH.items():
            if re.search(rx_, name):
                return w
        return None

    ev = bits.Eval(leaf_namer=leaf_namer, leaf_width=lw)
    out = []
    for seq in append_sequences(prog, f):
        if not any(k in ("extend", "push") for k, _, _ in seq):
            continue
        allbits = []
        words = None
        problems = []
        for kind, e, sp in seq:
            ex = sl.expand(e)
            try:
                if kind == "extend":
                    for b in ev.bytes_of(ex):
                        allbits.extend(b)
                elif kind == "push":
                    allbits.extend(ev.bits(ex, 8))
                else:
                    from ..rules import const_value
                    cv = const_value(bits.strip(ex)) if bits.strip(ex)[0] != "var" else None
                    if cv is None:
                        exx = bits.strip(ex)
                        cv = const_value(exx)
                    words = cv if words is None else (words + cv if cv is not None else None)
            except bits.Unknown as u:
                problems.append("cannot evaluate %s: %s" % (show(ex, 60), u))
        out.append((bits.runs(allbits), len(allbits) // 8, words, problems, seq))
    return out


def narrow_runs(runs):
    """apply LEAF_WIDTH: a field run wider than its declared width becomes zero padding + the declared low bits
    (only when the run starts at the field's low bit 0)"""
    out = []
    for r in runs:
        if r[0] == "field":
            for rx_, (w, why) in LEAF_WIDTH.items():
                if re.search(rx_, r[2]) and r[1] > w and r[3] == 0:
                    out.append(("const", r[1] - w, 0))
                    r = ("field", w, r[2], 0)
            out.append(r)
        else:
            out.append(r)
    # merge adjacent constants
    merged = []
    for r in out:
        if merged and merged[-1][0] == "const" and r[0] == "const":
            p = merged.pop()
            merged.append(("const", p[1] + r[1], (p[2] << r[1]) | r[2]))
        else:
            merged.append(r)
    return merged


def match_layout(runs, layout):
    """compare extracted runs with an RFC layout. returns list of problems"""
    probs = []
    # expand the layout into per-bit expectations and the runs into per-bit descriptors
    exp = []
    for name, w, what in layout:
        for i in range(w):
            exp.append((name, w, what, w - 1 - i))
    got = []
    for r in runs:
        if r[0] == "const":
            for i in range(r[1]):
                got.append(("const", (r[2] >> (r[1] - 1 - i)) & 1))
        elif r[0] == "field":
            for i in range(r[1]):
                got.append(("field", r[2], r[3] + r[1] - 1 - i))
        elif r[0] == "opaque":
            for i in range(r[1]):
                got.append(("opaque", r[2], r[3] + r[1] - 1 - i))
        else:
            for i in range(r[1]):
                got.append(("conflict", r[2]))
    if len(got) != len(exp):
        probs.append("writes %d bits, the RFC item has %d" % (len(got), len(exp)))
    seen = set()
    for i in range(min(len(got), len(exp))):
        name, w, what, bit = exp[i]
        g = got[i]
        ok = True
        if what[0] == "const":
            ok = g[0] == "const" and g[1] == ((what[1] >> bit) & 1)
        elif what[0] == "field":
            ok = g[0] == "field" and re.search(what[1], g[1]) is not None and g[2] == bit
        elif what[0] == "opaque":
            ok = g[0] in ("opaque", "field") and re.search(what[1], g[1]) is not None and g[2] == bit
        elif what[0] == "constfield":
            ok = (g[0] == "const" and g[1] == ((what[1] >> bit) & 1)) or (g[0] == "field" and re.search(what[2], g[1]) is not None and g[2] == bit)
        if not ok and name not in seen:
            seen.add(name)
            probs.append("field %s (%d bits at bit offset %d): wire bit %d carries %s, expected %s bit %d" % (
                name, w, i - (w - 1 - bit), i, describe(g), what[1] if what[0] != "const" else "constant %d" % what[1], bit))
    return probs


def describe(g):
    if g[0] == "const":
        return "constant %d" % g[1]
    if g[0] == "conflict":
        return "overlapping fields (%s)" % g[1]
    return "%s bit %d" % (g[1], g[2])


def reader_field_bits(prog, f, adt_fields, byte_source_names):
    """evaluate, for a reader function, the bit provenance of the listed fields of the aggregates it builds.
    adt_fields: {adt path: [field names]} ; returns {field: runs} plus problems"""
    sl = Slicer(f.body)

    def bsrc(e):
        e = bits.strip(e)
        if e[0] == "var" and e[1] in byte_source_names and e[2] in ("", "[_]"):
            return e[1]
        return None

    ev = bits.Eval(byte_source=bsrc)
    out = {}
    probs = []

    def ev_expr(e):
        e = sl.expand(e, stop=byte_source_names)
        return reader_bits(ev, e)

    for blk in f.body.blocks:
        if blk.cleanup:
            continue
        for s in blk.stmts:
            if s.k == "assign" and s.rv.k == "aggr" and s.rv.j.get("adt") in adt_fields:
                names = s.rv.j["fnames"]
                for fld in adt_fields[s.rv.j["adt"]]:
                    if fld not in names:
                        continue
                    e = sl.x.operand(s.rv.ops[names.index(fld)])
                    try:
                        out[fld] = bits.runs(ev_expr(e))
                    except bits.Unknown as u:
                        probs.append("%s: %s" % (fld, u))
            if s.k == "assign" and s.rv.k == "aggr" and s.rv.j.get("ak") == "tuple" and len(s.rv.ops) == 2:
                # (oti, transfer_length)
                t0 = s.rv.ops[0]
                if t0.place is not None and "oti::Oti" in f.body.locals[t0.place[0]]["ty"]:
                    try:
                        out["<transfer_length>"] = bits.runs(ev_expr(sl.x.operand(s.rv.ops[1])))
                    except bits.Unknown as u:
                        probs.append("transfer_length: %s" % u)
    return out, probs


def reader_bits(ev, e):
    """Eval.bits extended with single wire bytes  src[k]"""
    e0 = bits.strip(e)
    b = ev.byte_elem(e0)
    if b is not None:
        return b
    k = e0[0]
    if k == "cast":
        inner = reader_bits(ev, e0[2])
        return bits.resize(inner, bits.WIDTH[e0[1]]) if e0[1] in bits.WIDTH else inner
    if k == "bin":
        op = e0[1].replace("WithOverflow", "")
        if op in ("BitAnd", "BitOr", "Shl", "Shr", "BitXor"):
            # evaluate children with this function, then combine through Eval on synthetic leaves
            class _E(bits.Eval):
                pass
            a = reader_bits(ev, e0[2])
            if op in ("Shl", "Shr"):
                kb = ev.bits(e0[3])
                if not all(x in (0, 1) for x in kb):
                    raise bits.Unknown("variable shift")
                kv = int("".join(str(x) for x in kb), 2)
                w = len(a)
                return ((a + [0] * kv)[-w:] if kv < w else [0] * w) if op == "Shl" else (([0] * kv + a)[:w] if kv < w else [0] * w)
            b2 = reader_bits(ev, e0[3])
            w = max(len(a), len(b2))
            a, b2 = bits.resize(a, w), bits.resize(b2, w)
            out = []
            for x_, y_ in zip(a, b2):
                if op == "BitAnd":
                    out.append(0 if (x_ == 0 or y_ == 0) else (y_ if x_ == 1 else (x_ if y_ == 1 else ("O", "and", 0))))
                elif op == "BitOr":
                    out.append(y_ if x_ == 0 else (x_ if y_ == 0 else (1 if 1 in (x_, y_) else ("X", "overlap", 0))))
                else:
                    out.append(y_ if x_ == 0 else (x_ if y_ == 0 else ("O", "xor", 0)))
            return out
        if op in ("Sub", "Add"):
            a = reader_bits(ev, e0[2])
            return [("O", "%s(..)" % op, len(a) - 1 - i) for i in range(len(a))]
    if k == "aggr" and e0[1].endswith("option::Option") and e0[2] == "Some":
        return reader_bits(ev, e0[3][0])
    if k == "call" and re.search(r"(unwrap_or_default|unwrap_or|checked_sub|saturating_sub)$", e0[1]):
        raise bits.Unknown("arithmetic (%s)" % e0[1].split("::")[-1])
    return ev.bits(e0)


def wire_run(runs, src=None):
    """a reader field must be one run of wire bits, right-aligned (possibly below zero padding): -> (first wire bit, width) or None"""
    rs = [r for r in runs if not (r[0] == "const" and r[2] == 0)]
    if len(rs) == 1 and rs[0][0] == "wire" and runs[-1] == rs[0]:
        return rs[0][3], rs[0][1]
    return None


def run(ctx):
    prog = ctx.prog
    ctx.explanation = (
        "C06: value-dependent CCI/TSI/TOI field widths, NTP<->SystemTime arithmetic and the RS GF(2^m) payload id (variable "
        "shift) are NOT decided.  Decided with a bit-provenance interpreter over the writers and readers: R1 each writer's wire "
        "layout (EXT_FTI and FEC payload id of the five implemented schemes, EXT_FDT, EXT_CENC) equals the layout transcribed "
        "from the RFCs, field by field and bit by bit; R2 each reader takes every field from the RFC's wire bits; R3 reader "
        "and writer therefore agree (composition); R4 every function that calls inc_hdr_len(data, k) appends exactly 4*k bytes "
        "on that path; R5 no header-field arithmetic loses bits in a narrow type before widening (range engine); R6 flag / "
        "version constants.")
    ctx.not_decided += ["choice of CCI/TSI/TOI field widths as a function of the values", "NTP <-> SystemTime conversion arithmetic (microsecond loss)",
                        "RS GF(2^m) payload id (variable shift; scheme not implemented in the block layer)"]
    ctx.assume("RFC layouts as transcribed in DESIGN.md appendix D (RFC 5651, 6726, 5445, 5510, 6330, 5053)")

    r1 = ctx.rule("C06.R1", "writer layout = RFC layout (EXT_FTI, FEC payload id per scheme; EXT_FDT; EXT_CENC)", "E5 bit provenance vs RFC table")
    r4 = ctx.rule("C06.R4", "a function that calls inc_hdr_len(data, k) appends exactly 4*k bytes to data on that path", "E5 byte count")
    writers = []
    for nm, cpath in CODECS.items():
        writers.append(("%s add_fti" % nm, "<%s as common::alccodec::AlcCodec>::add_fti" % cpath, RFC_FTI[nm]))
        writers.append(("%s add_fec_payload_id" % nm, "<%s as common::alccodec::AlcCodec>::add_fec_payload_id" % cpath, RFC_PID[nm]))
    for pth, lay in RFC_EXT.items():
        writers.append((pth.split("::")[-1], pth, lay))
    for label, pth, layout in writers:
        f = prog.fn(pth)
        ctx.analysed(f.path)
        lays = writer_layouts(prog, f)
        if len(lays) != 1:
            r1.violation(label, "expected exactly one way of appending bytes, found %d" % len(lays), loc(f.sp))
            continue
        runs_, nbytes, words, problems, seq = lays[0]
        if problems:
            r1.violation(label, "; ".join(problems), loc(f.sp))
            continue
        probs = match_layout(narrow_runs(runs_), layout)
        if probs:
            r1.violation(label, "wire layout deviates from the RFC: " + "; ".join(probs[:3]), loc(f.sp))
        else:
            r1.ok(label, "%d bytes: %s" % (nbytes, " | ".join("%s:%d" % (n, w) for n, w, _ in layout)), loc(f.sp))
        if words is not None:
            if words * 4 == nbytes:
                r4.ok(label, "inc_hdr_len(%d) and %d bytes appended" % (words, nbytes), loc(f.sp))
            else:
                r4.violation(label, "inc_hdr_len(data, %d) announces %d bytes but %d bytes are appended: every later header "
                                    "extension is mis-located by the receiver" % (words, words * 4, nbytes), loc(f.sp))
    # the narrow leaves the layouts rely on are really that narrow
    from . import c10
    c10.fdtid_width_rule(ctx, r1)
    r1.floor(15, "writers + leaf widths")
    # other inc_hdr_len callers (push_sct: variable number of words)
    for s in find_calls(prog, r"^common::lct::inc_hdr_len$"):
        caller = s.func.root().path
        if any(caller == w[1] for w in writers):
            continue
        f = prog.fn(caller)
        ctx.analysed(caller)
        lays = writer_layouts(prog, f)
        key = "%s (all paths)" % caller.split("::")[-1]
        bad = []
        n = 0
        for runs_, nbytes, words, problems, seq in lays:
            n += 1
            if problems:
                bad.append("; ".join(problems))
            elif words is None or words * 4 != nbytes:
                bad.append("a path appends %d bytes but announces %s words" % (nbytes, words))
        if bad:
            r4.violation(key, bad[0], s.loc)
        elif n:
            r4.ok(key, "%d append path(s), each announcing bytes/4 words" % n, s.loc)
    r4.floor(8, "inc_hdr_len callers")

    # ---- R2 readers --------------------------------------------------------------------------------
    r2 = ctx.rule("C06.R2", "reader layout = RFC layout: every field is read from the wire bits the RFC assigns to it", "E5 bit provenance vs RFC table")
    OTI = "common::oti::Oti"
    for nm, cpath in CODECS.items():
        f = prog.fn("<%s as common::alccodec::AlcCodec>::get_fti" % cpath)
        ctx.analysed(f.path)
        offs, total = offsets(RFC_FTI[nm])
        fields = {OTI: ["encoding_symbol_length", "maximum_source_block_length", "fec_instance_id"],
                  "common::oti::RaptorQSchemeSpecific": ["source_blocks_length", "sub_blocks_length", "symbol_alignment"],
                  "common::oti::RaptorSchemeSpecific": ["source_blocks_length", "sub_blocks_length", "symbol_alignment"]}
        got, probs = reader_field_bits(prog, f, fields, {"fti"})
        want = {"<transfer_length>": "L" if "L" in offs else "F", "encoding_symbol_length": "E" if "E" in offs else "T"}
        if "B" in offs:
            want["maximum_source_block_length"] = "B"
        if "Z" in offs:
            want.update({"source_blocks_length": "Z", "sub_blocks_length": "N", "symbol_alignment": "Al"})
        if "instance" in offs:
            want["fec_instance_id"] = "instance"
        for fld, rf in sorted(want.items()):
            key = "%s get_fti %s" % (nm, fld.strip("<>"))
            if fld not in got:
                r2.violation(key, "field not recognised in the reader (%s)" % "; ".join(probs)[:160], loc(f.sp))
                continue
            wr = wire_run(got[fld])
            if wr is None:
                r2.violation(key, "not a single right-aligned run of wire bits: %s" % (got[fld],), loc(f.sp))
            elif wr == offs[rf]:
                r2.ok(key, "wire bits %d..%d (%s)" % (wr[0], wr[0] + wr[1] - 1, rf), loc(f.sp))
            else:
                r2.violation(key, "read from wire bits %d..%d, RFC field %s is at %d..%d" % (wr[0], wr[0] + wr[1] - 1, rf, offs[rf][0], offs[rf][0] + offs[rf][1] - 1), loc(f.sp))
        # payload id
        g = prog.fn("<%s as common::alccodec::AlcCodec>::get_fec_inline_payload_id" % cpath)
        ctx.analysed(g.path)
        offs2, total2 = offsets(RFC_PID[nm])
        got2, probs2 = reader_field_bits(prog, g, {"common::alc::PayloadID": ["sbn", "esi", "source_block_length"]}, {"arr", "data"})
        want2 = {"sbn": "SBN", "esi": "ESI"}
        if "SBL" in offs2:
            want2["source_block_length"] = "SBL"
        for fld, rf in sorted(want2.items()):
            key = "%s get_fec_inline_payload_id %s" % (nm, fld)
            if fld not in got2:
                r2.violation(key, "field not recognised in the reader (%s)" % "; ".join(probs2)[:160], loc(g.sp))
                continue
            wr = wire_run(got2[fld])
            if wr is None:
                r2.violation(key, "not a single right-aligned run of wire bits: %s" % (got2[fld],), loc(g.sp))
            elif wr == offs2[rf]:
                r2.ok(key, "wire bits %d..%d (%s)" % (wr[0], wr[0] + wr[1] - 1, rf), loc(g.sp))
            else:
                r2.violation(key, "read from wire bits %d..%d, RFC field %s is at %d..%d" % (wr[0], wr[0] + wr[1] - 1, rf, offs2[rf][0], offs2[rf][0] + offs2[rf][1] - 1), loc(g.sp))
    # EXT_FDT reader
    pf = prog.fn("common::alc::parse_ext_fdt")
    ctx.analysed(pf.path)
    offs3, _ = offsets(RFC_EXT["common::alc::push_fdt"])
    got3, probs3 = reader_field_bits(prog, pf, {"common::alc::ExtFDT": ["version", "fdt_instance_id"]}, {"ext"})
    for fld, rf in (("version", "V"), ("fdt_instance_id", "FDT Instance ID")):
        key = "parse_ext_fdt %s" % fld
        wr = wire_run(got3[fld]) if fld in got3 else None
        if wr == offs3[rf]:
            r2.ok(key, "wire bits %d..%d" % (wr[0], wr[0] + wr[1] - 1), loc(pf.sp))
        else:
            r2.violation(key, "read from %s, RFC field %s is at bits %d..%d (%s)" % (wr, rf, offs3[rf][0], offs3[rf][0] + offs3[rf][1] - 1, "; ".join(probs3)[:100]), loc(pf.sp))
    r2.floor(24, "reader fields")

    # ---- R3 composition -----------------------------------------------------------------------------
    r3 = ctx.rule("C06.R3", "reader o writer = identity on field bits: both sides matched the same RFC offsets (R1 and R2 without violations)", "composition")
    nviol = sum(1 for r in (r1, r2) for i in r.instances if i["verdict"] == "violation")
    if nviol == 0:
        r3.ok("writer and reader agree on every field", "%d writer layouts, %d reader fields" % (len(r1.examined()), len(r2.examined())), "src/common/alccodec")
    else:
        r3.note("composition", "not established while R1/R2 report %d deviations" % nviol, "src/common/alccodec")

    # ---- R5 lossy narrow shift ----------------------------------------------------------------------
    r5 = ctx.rule("C06.R5", "no `<<` on a u8/u16 header value whose result range exceeds the narrow type before it is widened", "E4")
    funcs = [p for p in prog.funcs if re.match(r"^common::(lct|alc)::|^<common::alccodec::", p)]
    n = 0
    for p in sorted(funcs):
        f = prog.funcs[p]
        if f.derived:
            continue
        r = ranges.analyse(prog, f)
        ctx.analysed(p)
        seenk = set()
        for (bb, sp, lty, a, b, txt) in r.lossy:
            if lty not in ("u8", "u16", "i8", "i16"):
                continue
            key = "%s %s" % (p, txt)
            if key in seenk:
                continue
            seenk.add(key)
            r5.violation(key, "`%s` is evaluated in %s: the operand ranges over %s, so the shifted value needs more than %d bits and the "
                              "high bits are lost before the value is widened" % (txt, lty, a, bits.WIDTH[lty]), loc(sp))
        n += 1
    r5.ok("functions scanned", "%d header codec functions" % n, "src/common")
    r5.floor(1, "scan")

    # ---- R9 value-dependent widths ------------------------------------------------------------------------------
    r9 = ctx.rule("C06.R9", "field-width selection: nb_bytes_64 / nb_bytes_128 return the smallest even byte count that holds every set bit (2*k under "
                            "`value & (0xFFFF << 16(k-1)) != 0` and all higher 16-bit groups zero, `min` for 0); in push_lct_header S is bit 2 and the TSI half-word "
                            "flag bit 1 of that count, O bits 3..2 and the TOI half-word flag bit 1 of the TOI count, H their OR, and C the smallest value with "
                            "4*(C+1) >= the CCI count; get_ext treats an extension as fixed-length (one word) iff HET >= 128", "arm table + E5 bit provenance + sign table")
    width_class_rule(ctx, r9)

    # ---- R8 EXT_TIME reader and the NTP helpers -----------------------------------------------------------------
    r8 = ctx.rule("C06.R8", "EXT_TIME: parse_sct takes SCT-High / SCT-Low / ERT / SLC from Use-field bits 16..19, expects 4*(1 + number of flags) bytes, "
                            "returns None without SCT-High, reads the seconds from wire bits 32..63 and (only with SCT-Low) the fraction from bits 64..95, "
                            "seconds in the upper half of the NTP value; system_time_to_ntp / ntp_to_system_time use the same 1900->1970 offset with "
                            "opposite signs, seconds << 32 | fraction, and inverse fraction scalings (2^32 / 10^6)", "E5 bit provenance + affine forms")
    ext_time_rule(ctx, r8)

    # ---- R7 first LCT word + value-dependent lengths ------------------------------------------------------
    r7 = ctx.rule("C06.R7", "LCT first word: every flag sits at its RFC 5651 bit position on both sides; the bytes written / read for CCI, TSI, TOI are "
                            "4*(C+1), 4*S+2*H, 4*O+2*H of the SAME flag values, and HDR_LEN = 2+O+S+H+C (structure of the value-dependent widths)", "E5 + affine forms + E4 leaf widths")
    lct_first_word_rule(ctx, r7)

    # ---- R6 constants ---------------------------------------------------------------------------------
    r6 = ctx.rule("C06.R6", "push_fdt receives version 2 (RFC 6726) or 1 (RFC 3926) selected by the profile, and the packet's fdt_id", "ARG")
    for s in find_calls(prog, r"^common::alc::push_fdt$"):
        sl = Slicer(s.body)
        v = sl.sources(s.expr[2][1])
        consts = sorted(z for z in v if z.startswith("const:"))
        idsrc = sl.sources(s.expr[2][2])
        if set(consts) <= {"const:1", "const:2"} and consts and any("profile" in z for z in v):
            r6.ok("new_alc_pkt push_fdt version", "%s selected by profile" % consts, s.loc)
        else:
            r6.violation("new_alc_pkt push_fdt version", "version argument derives from %s" % sorted(v)[:6], s.loc)
        if any("fdt_id" in z for z in idsrc):
            r6.ok("new_alc_pkt push_fdt id", "", s.loc)
        else:
            r6.violation("new_alc_pkt push_fdt id", "id argument derives from %s" % sorted(idsrc)[:6], s.loc)
    r6.floor(2, "push_fdt arguments")


# ---------------------------------------------------------------------------------------------------------------------
def width_class_rule(ctx, rule):
    from .. import polarity
    from ..cfg import facts_of
    prog = ctx.prog
    for fn, width in (("common::lct::nb_bytes_64", 64), ("common::lct::nb_bytes_128", 128)):
        f = prog.fn(fn)
        ctx.analysed(f.path)
        fl = Flow(f.body)
        rets = ret_assign_blocks(f.body, lambda e: True)
        short = fn.split("::")[-1]
        seen = set()
        bad = []
        for bb, e in rets:
            nz, z = set(), set()
            for (a, t) in fl.facts_at(bb):
                if a[0] == "eq":
                    l_, r_ = bits.strip(a[1]), bits.strip(a[2])
                    ops_ = None
                    if l_[0] == "bin" and l_[1] == "BitAnd":
                        ops_ = (l_[2], l_[3])
                    elif l_[0] == "call" and l_[1].endswith("::bitand") and len(l_[2]) == 2:
                        ops_ = (l_[2][0], l_[2][1])
                    if show(r_) == "0" and ops_:
                        m = const_value(bits.strip(ops_[1]))
                        if m is None:
                            m = const_value(bits.strip(ops_[0]))
                        if m is not None:
                            (z if t else nz).add(m)
            v = const_value(e)
            groups = width // 16
            masks = {k: 0xFFFF << (16 * (k - 1)) for k in range(1, groups + 1)}
            if v is None:
                # the `min` fallback: every group is zero
                if show(e) == "min" and z == set(masks.values()) and not nz:
                    seen.add(0)
                else:
                    bad.append("returns %s under non-zero %s / zero %s" % (show(e, 30), sorted(nz), sorted(z)))
                continue
            k = v // 2
            if v % 2 or not (1 <= k <= groups):
                bad.append("returns the odd or out-of-range byte count %s" % v)
                continue
            if nz == {masks[k]} and z == {masks[j] for j in range(k + 1, groups + 1)}:
                seen.add(k)
            else:
                bad.append("returns %d under non-zero %s / zero %s" % (v, [hex(m) for m in sorted(nz)], [hex(m) for m in sorted(z)]))
        key = "%s width classes" % short
        if not bad and seen == set(range(0, width // 16 + 1)):
            rule.ok(key, "%d classes: 2k bytes iff the k-th 16-bit group is the highest non-zero one" % len(seen), loc(f.sp))
        else:
            rule.violation(key, "%s does not return the smallest even byte count holding the value (%s): push_lct_header derives the S/O/H flags from bits 1..3 of "
                                "that count and would drop the top byte(s) of the field" % (short, "; ".join(bad[:2]) or "classes found %s" % sorted(seen)), loc(f.sp))
    # flags from the counts (locals are found by what they are, not by how they are called)
    w = prog.fn("common::lct::push_lct_header")
    sl = Slicer(w.body)
    fl = Flow(w.body)
    vd = sl.var_defs()
    params = {1: None}
    size_of = {}   # role -> local name
    for name, ds in vd.items():
        ds = [d for d in ds if d[0] == ""]
        if len(ds) == 1 and ds[0][1][0] == "call" and re.search(r"lct::nb_bytes_(64|128)$", ds[0][1][1]):
            e = ds[0][1]
            arg0 = re.sub(r"[&*()]", "", show(e[2][0]))
            role = {"cci": "CCI", "tsi": "TSI", "toi": "TOI"}.get(arg0)
            fn = e[1].split("::")[-1]
            want_fn, want_min = {"CCI": ("nb_bytes_128", "0"), "TSI": ("nb_bytes_64", "2"), "TOI": ("nb_bytes_128", "2")}.get(role, (None, None))
            key = "push_lct_header %s byte count" % (role or arg0)
            if role and fn == want_fn and show(e[2][1]) == want_min:
                size_of[role] = name
                rule.ok(key, "`%s` = %s(%s, %s)" % (name, fn, arg0, want_min), loc(w.sp))
            else:
                rule.violation(key, "`%s` = %s; expected %s(%s, %s)" % (name, show(e, 60), want_fn, arg0, want_min), loc(w.sp))
    for role in ("CCI", "TSI", "TOI"):
        if role not in size_of:
            rule.violation("push_lct_header %s byte count" % role, "no local computed with nb_bytes_64/128 from the %s argument" % role.lower(), loc(w.sp))
    if len(size_of) < 3:
        return
    stop = set(size_of.values())
    ev = bits.Eval(leaf_namer=lambda e: show(e, 40))

    def only(rs):
        return [r for r in (rs or []) if not (r[0] == "const" and r[2] == 0)]
    found = {}
    want = {"S": (size_of["TSI"], 1, 2), "H_tsi": (size_of["TSI"], 1, 1), "O": (size_of["TOI"], 2, 2), "H_toi": (size_of["TOI"], 1, 1)}
    for name, ds in vd.items():
        ds = [d for d in ds if d[0] == ""]
        if len(ds) != 1 or name in stop:
            continue
        try:
            rs = bits.runs(ev.bits(sl.expand(ds[0][1], stop=stop)))
        except bits.Unknown:
            continue
        nz = only(rs)
        for role, (src, wd, lowbit) in want.items():
            if len(nz) == 1 and nz[0][0] == "field" and nz[0][1] == wd and nz[0][2] == src and nz[0][3] == lowbit and rs[-1] == nz[0]:
                found.setdefault(role, name)
    for role, (src, wd, lowbit) in sorted(want.items()):
        key = "push_lct_header %s" % {"S": "s", "O": "o", "H_tsi": "h_tsi", "H_toi": "h_toi"}[role]
        if role in found:
            rule.ok(key, "`%s` = bit%s %s of %s" % (found[role], "s" if wd > 1 else "", "%d..%d" % (lowbit + wd - 1, lowbit) if wd > 1 else lowbit, src), loc(w.sp))
        else:
            rule.violation(key, "no local equals bit%s %d.. of %s (byte count = 4*%s + 2*H): the flag is derived differently" % ("s" if wd > 1 else "", lowbit, src, role[0]), loc(w.sp))
    hok = False
    for name, ds in vd.items():
        ds = [d for d in ds if d[0] == ""]
        if len(ds) == 1 and ds[0][1][0] == "bin" and ds[0][1][1] == "BitOr" and {show(ds[0][1][2]), show(ds[0][1][3])} == {found.get("H_tsi"), found.get("H_toi")}:
            hok = True
    if hok:
        rule.ok("push_lct_header h", "H = TSI half-word flag | TOI half-word flag", loc(w.sp))
    else:
        rule.violation("push_lct_header h", "no local is the OR of the two half-word flags", loc(w.sp))
    # C from the CCI count: a local with the four constant definitions 0..3, each under its interval of the CCI byte count
    okc = False
    for name, ds in vd.items():
        cd = [d for d in ds if d[0] == ""]
        if len(cd) != 4 or not all(const_value(d[1]) in (0, 1, 2, 3) for d in cd):
            continue
        seen = set()
        good = True
        for (_, e, bb) in cd:
            k = const_value(e)
            ub, lb = None, None
            for (a, t) in fl.facts_at(bb):
                if a[0] == "le" and t and const_value(a[2]) is not None and const_value(a[1]) is None:
                    ub = const_value(a[2]) if ub is None else min(ub, const_value(a[2]))
                if a[0] == "lt" and t and const_value(a[1]) is not None and const_value(a[2]) is None:
                    lb = const_value(a[1]) if lb is None else max(lb, const_value(a[1]))
            if (k < 3 and ub != 4 * (k + 1)) or (k > 0 and lb != 4 * k):
                good = False
            seen.add(k)
        if good and seen == {0, 1, 2, 3}:
            okc = True
    if okc:
        rule.ok("push_lct_header c", "C = k for 4k < count <= 4(k+1)", loc(w.sp))
    else:
        rule.violation("push_lct_header c", "no local is the smallest C with 4*(C+1) >= CCI byte count", loc(w.sp))
    # get_ext: fixed-length extensions are HET 128..255
    g = prog.fn("common::lct::get_ext")
    gfl = Flow(g.body)
    gsl = Slicer(g.body)
    found = False
    for blk in g.body.blocks:
        if blk.cleanup:
            continue
        for st in blk.stmts:
            if st.k == "assign" and not st.lhs[1]:
                e = gsl.x.rvalue(st.rv, gsl.x.depth)
                if e[0] == "const" and e[2] == 4 and g.body.names.get(st.lhs[0], "").startswith("hel") or (e[0] == "const" and e[2] == 4 and "usize" in str(e[1])):
                    fs = gfl.facts_at(blk.i)
                    cmp_ = [(a, t) for (a, t) in fs if a[0] in ("lt", "le") and t and ("het" in show(a[1]) + show(a[2]) or "lct_ext_ext[0]" in show(a[1]) + show(a[2]))]
                    if not cmp_:
                        continue
                    found = True
                    okb = any((a[0] == "le" and const_value(a[1]) == 128) or (a[0] == "lt" and const_value(a[1]) == 127) for (a, t) in cmp_)
                    if okb:
                        rule.ok("get_ext fixed-length extensions", "HEL = 1 word iff HET >= 128", loc(st.sp))
                    else:
                        rule.violation("get_ext fixed-length extensions", "one-word length chosen under %s; RFC 5651: HET 128..255 are fixed-length" % [
                            "%s %s %s" % (show(a[1], 20), "<" if a[0] == "lt" else "<=", show(a[2], 20)) for a, t in cmp_], loc(st.sp))
    if not found:
        rule.violation("get_ext fixed-length extensions", "no one-word length selected by a comparison of HET found", loc(g.sp))
    rule.floor(12, "width facts")


def ext_time_rule(ctx, rule):
    from .. import polarity
    from ..cfg import facts_of
    prog = ctx.prog
    f = prog.fn("common::alc::parse_sct")
    ctx.analysed(f.path)
    sl = Slicer(f.body)
    fl = Flow(f.body)

    def bsrc(e):
        e = bits.strip(e)
        if e[0] == "var" and e[1] == "ext" and e[2] in ("", "[_]"):
            return e[1]
        return None
    ev = bits.Eval(byte_source=bsrc)
    vd = sl.var_defs()
    # the four flag locals: one wire bit each
    flags = {}
    for name, defs in vd.items():
        for (proj, e, bb) in defs:
            if proj != "":
                continue
            try:
                rs = bits.runs(reader_bits(ev, sl.expand(e, stop={"ext"})))
            except bits.Unknown:
                continue
            nz = [r for r in rs if not (r[0] == "const" and r[2] == 0)]
            if len(nz) == 1 and nz[0][0] == "wire" and nz[0][1] == 1 and rs[-1] == nz[0] and 16 <= nz[0][3] <= 23:
                flags[nz[0][3]] = name
    want = {16: "SCT-High", 17: "SCT-Low", 18: "ERT", 19: "SLC"}
    for b, nm in sorted(want.items()):
        key = "parse_sct %s flag" % nm
        if b in flags:
            rule.ok(key, "`%s` = wire bit %d" % (flags[b], b), loc(f.sp))
        else:
            rule.violation(key, "no local of parse_sct is read from Use-field bit %d (%s); flag bits found: %s" % (b, nm, flags), loc(f.sp))
    extra = [b for b in flags if b not in want]
    if extra:
        rule.violation("parse_sct reserved Use bits", "reserved Use-field bits %s are interpreted as flags" % extra, loc(f.sp))
    if not all(b in flags for b in want):
        return
    hi, low = flags[16], flags[17]
    # expected length
    done = False
    LEN_LOCAL = None
    for name, defs in vd.items():
        for (proj, e, bb) in defs:
            ex = sl.expand(e, stop=set(flags.values()))
            if proj == "" and all(any(c[0] == "var" and c[1] == n_ for c in walk(ex)) for n_ in flags.values()):
                form, c0 = polarity.affine(ex)
                if form and not done:
                    done = True
                    if all(form.get(n_) == 4 for n_ in flags.values()) and c0 == 4 and len(form) == 4:
                        LEN_LOCAL = name
                        rule.ok("parse_sct expected length", "4 * (1 + SCT-High + SCT-Low + ERT + SLC)", loc(f.sp))
                    else:
                        rule.violation("parse_sct expected length", "the extension length is compared with %s + %s; RFC 5651: one word per flag plus the "
                                                                   "header word" % (form, c0), loc(f.sp))
    if not done:
        rule.violation("parse_sct expected length", "no length expression over the four flags found", loc(f.sp))
    # None without SCT-High
    nones = ret_assign_blocks(f.body, lambda e: is_variant(e, "Ok") and "None" in show(e))
    okn = nones and all(any(a[0] == "eq" and t and {show(a[1]), show(a[2])} == {hi, "0"} for (a, t) in fl.facts_at(bb)) for bb, _ in nones)
    if okn:
        rule.ok("parse_sct without SCT-High", "Ok(None) under %s == 0" % hi, loc(f.sp))
    else:
        rule.violation("parse_sct without SCT-High", "Ok(None) is not tied to SCT-High == 0", loc(f.sp))
    # refusals: only a length that disagrees with the flags (or an unrepresentable time) - SCT-High alone (8 bytes) is a valid EXT_TIME
    for bb, e in ret_assign_blocks(f.body, lambda e: is_variant(e, "Err")):
        fs = fl.facts_at(bb)
        mism = any(a[0] == "eq" and not t and "len(" in show(a[1]) + show(a[2]) and (LEN_LOCAL or "expected_len") in (show(a[1]), show(a[2])) for (a, t) in fs)
        key = "parse_sct refusal"
        if mism:
            rule.ok(key, "Err under ext.len() != expected_len", loc(f.sp))
        else:
            rule.violation(key, "parse_sct refuses an extension under %s: RFC 5651 allows any combination of the four time flags (e.g. SCT-High alone, "
                                "8 bytes); the only structural refusal is a length that disagrees with the flags" % (
                                    "; ".join(show_fact(x) for x in fs if x[0][0] in ("lt", "le", "eq"))[:160] or "no length/flag comparison"), loc(f.sp))
    # the NTP value handed to ntp_to_system_time
    calls = call_sites(f, lambda p, c: p == "tools::ntp_to_system_time")
    if not calls:
        rule.violation("parse_sct -> ntp_to_system_time", "parse_sct does not convert through tools::ntp_to_system_time", loc(f.sp))
    for s_ in calls:
        multi = set(n_ for n_, ds in vd.items() if len([d for d in ds if d[0] == ""]) > 1)
        ex = sl.expand(s_.expr[2][0], stop={"ext"} | multi)
        key = "parse_sct NTP value"
        try:
            rs = bits.runs(reader_bits(ev, ex))
        except bits.Unknown as u:
            rule.violation(key, "cannot evaluate %s: %s" % (show(ex, 80), u), s_.loc)
            continue
        hi_ok = len(rs) >= 1 and rs[0][0] == "wire" and rs[0][1] == 32 and rs[0][3] == 32
        lo = rs[1:] if hi_ok else []
        lo_ok = False
        why = ""
        if len(lo) == 1 and lo[0][0] == "wire" and lo[0][1] == 32 and lo[0][3] == 64:
            # unconditional read of the second word: only right if SCT-Low is known to be set
            lo_ok = any(a[0] == "eq" and t and {show(a[1]), show(a[2])} == {low, "1"} for (a, t) in fl.facts_at(s_.bb))
            why = "fraction word read without testing SCT-Low"
        elif len(lo) == 1 and lo[0][0] == "field" and lo[0][1] == 32 and lo[0][2] in multi:
            lo_ok = True
            for (proj, e, bb) in vd[lo[0][2]]:
                if proj != "":
                    continue
                try:
                    r2_ = bits.runs(reader_bits(ev, sl.expand(e, stop={"ext"})))
                except bits.Unknown as u:
                    lo_ok, why = False, str(u)
                    continue
                if len(r2_) == 1 and r2_[0][0] == "const" and r2_[0][2] == 0:
                    continue
                if len(r2_) == 1 and r2_[0][0] == "wire" and r2_[0][1] == 32 and r2_[0][3] == 64:
                    fs = fl.facts_at(bb)
                    if not any((a[0] == "eq" and t and {show(a[1]), show(a[2])} == {low, "1"}) for (a, t) in fs):
                        lo_ok, why = False, "the fraction word is read on a path where SCT-Low is not known to be 1"
                    continue
                lo_ok, why = False, "fraction defined as %s" % (r2_,)
        if hi_ok and lo_ok:
            rule.ok(key, "seconds = wire bits 32..63 (upper half), fraction = wire bits 64..95 under SCT-Low", s_.loc)
        else:
            rule.violation(key, "the NTP value is built from %s%s" % (rs, (": " + why) if why else ""), s_.loc)
    # get_sender_current_time asks for the EXT_TIME extension
    g = prog.fn("common::alc::get_sender_current_time")
    ctx.analysed(g.path)
    for s_ in call_sites(g, lambda p, c: p == "common::lct::get_ext"):
        a = Slicer(g.body).expand(s_.expr[2][2])
        key = "get_sender_current_time -> get_ext(Ext::Time)"
        val = None
        try:
            bb_ = bits.Eval().bits(a)
            if all(x in (0, 1) for x in bb_):
                val = int("".join(str(x) for x in bb_), 2)
        except bits.Unknown:
            pass
        if re.search(r"Ext::Time", show(a, 80)) or val == 2:
            rule.ok(key, show(a, 40), s_.loc)
        else:
            rule.violation(key, "looks up extension %s" % show(a, 60), s_.loc)
    # NTP helpers
    OFF = 2208988800
    w = prog.fn("tools::system_time_to_ntp")
    r_ = prog.fn("tools::ntp_to_system_time")
    ctx.analysed(w.path, r_.path)
    ws, rs_ = Slicer(w.body), Slicer(r_.body)
    wret = [ws.expand(e) for _, e in ret_assign_blocks(w.body, lambda e: is_variant(e, "Ok"))]
    okw = False
    for e in wret:
        ors = [c for c in walk(e) if c[0] == "bin" and c[1] == "BitOr"]
        for c in ors:
            l_ = bits.strip(c[2])
            if l_[0] == "bin" and l_[1].startswith("Shl") and show(l_[3]) == "32":
                form, c0 = polarity.affine(l_[2])
                if c0 == OFF and len(form) == 1 and list(form.values()) == [1] and "as_secs" in list(form)[0]:
                    fr = show(c[3], 300)
                    if re.search(r"subsec_(micros|nanos)", fr):
                        okw = True
    if okw:
        rule.ok("system_time_to_ntp", "(as_secs + 2208988800) << 32 | fraction", loc(w.sp))
    else:
        rule.violation("system_time_to_ntp", "returns %s; expected (unix seconds + 2208988800) << 32 | fraction" % [show(e, 120) for e in wret], loc(w.sp))
    # fraction scalings
    def consts_of(fn_, sl_, op):
        out = set()
        for blk in fn_.body.blocks:
            for st in blk.stmts:
                if st.k == "assign":
                    for c in walk(sl_.expand(sl_.x.rvalue(st.rv, sl_.x.depth))):
                        if c[0] == "bin" and c[1].replace("WithOverflow", "").startswith(op):
                            for side in (c[2], c[3]):
                                v = const_value(bits.strip(side))
                                if v is None and bits.strip(side)[0] == "bin" and bits.strip(side)[1].startswith("Shl"):
                                    a_, b_ = const_value(bits.strip(side)[2]), const_value(bits.strip(side)[3])
                                    if a_ is not None and b_ is not None:
                                        v = a_ << b_
                                if isinstance(v, int) and v > 1000:
                                    out.add(v)
        return out
    wm, wd = consts_of(w, ws, "Mul"), consts_of(w, ws, "Div")
    rm, rd = consts_of(r_, rs_, "Mul"), consts_of(r_, rs_, "Div")
    key = "NTP fraction scaling"
    if (1 << 32) in wm and 1000000 in wd and 1000000 in rm and (1 << 32) in rd:
        rule.ok(key, "writer: micros * 2^32 / 10^6 ; reader: fraction * 10^6 / 2^32", loc(w.sp))
    else:
        rule.violation(key, "writer multiplies by %s and divides by %s; reader multiplies by %s and divides by %s; expected 2^32 / 10^6 in inverse roles" % (
            sorted(wm), sorted(wd), sorted(rm), sorted(rd)), loc(w.sp))
    # reader offset
    okr = False
    for name, defs in rs_.var_defs().items():
        for (proj, e, bb) in defs:
            ex = rs_.expand(e, stop={"ntp"})
            form, c0 = polarity.affine(ex)
            if c0 == -OFF and len(form) == 1 and list(form.values()) == [1] and re.search(r"ntp >> 32", list(form)[0]):
                fs = Flow(r_.body).facts_at(bb)
                okr = True
    if okr:
        rule.ok("ntp_to_system_time", "unix seconds = (ntp >> 32) - 2208988800", loc(r_.sp))
    else:
        rule.violation("ntp_to_system_time", "the unix seconds are not (ntp >> 32) - 2208988800", loc(r_.sp))
    rule.floor(12, "EXT_TIME facts")


# R7: the first LCT word and the value-dependent field lengths (structure only: which flag drives which length)

RFC_LCT_WORD = [("V", 4), ("C", 2), ("PSI", 2), ("S", 1), ("O", 2), ("H", 1), ("Res", 2), ("A", 1), ("B", 1), ("HDR_LEN", 8), ("CP", 8)]


def lct_first_word_rule(ctx, rule):
    from .. import polarity
    prog = ctx.prog
    w = prog.fn("common::lct::push_lct_header")
    ctx.analysed(w.path)
    sl = Slicer(w.body)
    r = ranges.analyse(prog, w)
    # interval of each named local at the function exits -> declared leaf widths (h, o, s, c, a, b are narrower than their type)
    widths = {}
    for (bb, st) in r.exit_states:
        for k, v in st.iv.items():
            m = re.match(r"^(\w+)'\d+$", k)
            if m and v[0] >= 0 and v[1] != ranges.INF:
                widths[m.group(1)] = max(widths.get(m.group(1), 0), int(v[1]).bit_length())

    # PSI is a 2-bit field fed from a u8 parameter: every caller must pass a constant in 0..3
    psi_ok = True
    for s_ in find_calls(prog, r"^common::lct::push_lct_header$"):
        a = s_.expr[2][1]
        if a[0] == "const" and isinstance(a[2], int) and 0 <= a[2] <= 3:
            rule.ok("%s passes PSI=%s" % (s_.func.root().path.split("::")[-1], a[2]), "fits the 2-bit PSI field", s_.loc)
        else:
            psi_ok = False
            rule.violation("%s PSI argument" % s_.func.root().path.split("::")[-1], "PSI argument %s may exceed the 2-bit field and overwrite C / V" % show(a, 40), s_.loc)
    if psi_ok:
        widths["psi"] = 2

    def lw(name):
        return widths.get(name) if name in widths and widths[name] < 32 else None

    ev = bits.Eval(leaf_namer=lambda e: show(e, 80), leaf_width=lw)
    seqs = append_sequences(prog, w)
    seqs = [q for q in seqs if any(k == "extend" for k, _, _ in q)]
    if len(seqs) != 1 or len(seqs[0]) != 4:
        rule.violation("push_lct_header append sequence", "expected exactly word + CCI + TSI + TOI appends, found %s" % [len(q) for q in seqs], loc(w.sp))
        return
    vd0 = sl.var_defs()
    consts = set(n for n, ds in vd0.items() if len(ds) == 1 and ds[0][0] == "" and ds[0][1][0] == "const")
    word = sl.expand(seqs[0][0][1], stop=set(widths) - {"lct_header"} - consts)
    try:
        by = ev.bytes_of(word)
    except bits.Unknown as u:
        rule.violation("push_lct_header first word", "cannot evaluate: %s" % u, loc(w.sp))
        return
    allb = [b for byte in by for b in byte]
    rs = bits.runs(allb)
    # map RFC fields to what sits there
    got = {}
    off = 0
    flat = []
    for r_ in rs:
        for i in range(r_[1]):
            flat.append(r_)
    pos = 0
    problems = []
    flag_leaf = {}
    for name, wd in RFC_LCT_WORD:
        seg = allb[pos:pos + wd]
        rr = bits.runs(seg)
        if name == "V":
            ok = len(rr) == 1 and rr[0][0] == "const" and rr[0][2] == 1
        elif name == "Res":
            ok = len(rr) == 1 and rr[0][0] == "const" and rr[0][2] == 0
        else:
            ok = len(rr) == 1 and rr[0][0] == "field" and rr[0][1] == wd and rr[0][3] == 0 or \
                (len(rr) == 2 and rr[0][0] == "const" and rr[0][2] == 0 and rr[1][0] == "field" and rr[1][3] == 0)
            if ok:
                flag_leaf[name] = rr[-1][2]
        key = "push_lct_header first word %s" % name
        if ok:
            rule.ok(key, "bits %d..%d: %s" % (31 - pos, 32 - pos - wd, rr), loc(w.sp))
        else:
            rule.violation(key, "RFC 5651 field %s (bits %d..%d) carries %s" % (name, 31 - pos, 32 - pos - wd, rr), loc(w.sp))
        pos += wd
    # which value sits in each flag position: A <- close_session, B <- close_object, CP <- codepoint, PSI <- psi
    fl_w = Flow(w.body)
    vdw = sl.var_defs()

    def derives_from(leaf, param):
        leaf = re.sub(r"\s+as\s+\w+|[()]", "", leaf or "")
        if leaf == param:
            return True
        ds = [d for d in vdw.get(leaf, []) if d[0] == ""]
        if not ds:
            return False
        okk = True
        for (_, e_, bb_) in ds:
            if e_[0] == "const":
                # match arm: the constant is chosen by the parameter
                fs = fl_w.facts_at(bb_)
                if not any(param in show(a_[1]) + (show(a_[2]) if len(a_) > 2 and isinstance(a_[2], tuple) else "") for (a_, t_) in fs):
                    okk = False
                else:
                    want1 = any(a_[0] == "true" and t_ and show(a_[1]) == param for (a_, t_) in fs)
                    if (e_[2] == 1) != want1:
                        okk = False
            elif param not in show(sl.expand(e_), 200):
                okk = False
        return okk
    for fld, param in (("A", "close_session"), ("B", "close_object"), ("CP", "codepoint"), ("PSI", "psi")):
        if fld in flag_leaf:
            key = "push_lct_header first word %s <- %s" % (fld, param)
            if derives_from(flag_leaf[fld], param):
                rule.ok(key, "leaf `%s`" % flag_leaf[fld], loc(w.sp))
            else:
                rule.violation(key, "the %s position carries `%s`, which is not derived from the `%s` argument: flute-to-flute traffic still works when the parser "
                                    "is changed the same way, any RFC 5651 implementation reads the wrong flag" % (fld, flag_leaf[fld], param), loc(w.sp))
    # lengths of the three variable fields as affine forms over the flag leaves
    def appended(e):
        """number of bytes of  &arr[start..]  as an affine form"""
        ex = sl.expand(e, stop=set(flag_leaf.values()))
        for c in walk(ex):
            if c[0] == "call" and re.search(r"Index.*::index$", c[1]) and len(c[2]) == 2:
                arr, idx = bits.strip(c[2][0]), bits.strip(c[2][1])
                for _i in range(6):      # `&net[..]` where `net: &[u8]` is the unsized borrow of the array (a helper's parameter)
                    if arr[0] in ("ref", "deref"):
                        arr = bits.strip(arr[1])
                    elif arr[0] == "cast":
                        arr = bits.strip(arr[2])
                    else:
                        break
                n = None
                ty = arr[3] if (arr[0] in ("var", "tmp") and len(arr) > 3 and isinstance(arr[3], str)) else ""
                m = re.search(r"\[u8; (\d+)\]", ty or "")
                if m:
                    n = int(m.group(1))
                m2 = re.search(r"num::<impl (\w+)>::to_be_bytes$", arr[1]) if arr[0] == "call" else None
                if m2:
                    n = bits.WIDTH[m2.group(1)] // 8
                if idx[0] == "aggr" and "RangeFrom" in idx[1] and n is not None:
                    st_ = idx[3][0]
                    # replace len(arr) by the constant
                    def sub(z):
                        if isinstance(z, tuple) and z and z[0] == "call" and re.search(r"::len$", z[1]):
                            return ("const", "usize", n)
                        if isinstance(z, tuple):
                            return tuple(sub(q) if isinstance(q, tuple) else q for q in z)
                        return z
                    f, c0 = polarity.affine(sub(st_))
                    return {k: -v for k, v in f.items()}, n - c0
        return None
    want = {}
    if all(k in flag_leaf for k in ("C", "S", "O", "H")):
        C, S, O, H = (flag_leaf[k] for k in ("C", "S", "O", "H"))
        want = {"CCI": ({C: 4}, 4), "TSI": ({S: 4, H: 2}, 0), "TOI": ({O: 4, H: 2}, 0)}
    for (nm, (kind, e, sp)) in zip(("CCI", "TSI", "TOI"), seqs[0][1:]):
        got_ = appended(e)
        key = "push_lct_header %s length" % nm
        if got_ is None or nm not in want:
            rule.violation(key, "appended length not recognised (%s)" % show(e, 80), loc(w.sp))
        elif ({k: v for k, v in got_[0].items() if v}, got_[1]) == want[nm]:
            rule.ok(key, "bytes = %s" % (want[nm],), loc(w.sp))
        else:
            rule.violation(key, "the %s field is written with %s bytes but the flags announce %s (RFC 5651: CCI 32*(C+1), TSI 32*S+16*H, TOI 32*O+16*H bits): "
                                "every later field of the packet is displaced" % (nm, got_, want[nm]), loc(w.sp))
    # HDR_LEN = 2 + O + S + H + C
    if "HDR_LEN" in flag_leaf and want:
        hl = None
        for name, defs in sl.var_defs().items():
            if name == flag_leaf["HDR_LEN"] or flag_leaf["HDR_LEN"].startswith(name):
                for pj, d, _bb in defs:
                    dd = sl.expand(d, stop=set(flag_leaf.values()))
                    while dd[0] == "cast":
                        dd = dd[2]
                    hl = polarity.affine(dd)
        exp = ({flag_leaf["O"]: 1, flag_leaf["S"]: 1, flag_leaf["H"]: 1, flag_leaf["C"]: 1}, 2)
        if hl is not None and hl == exp:
            rule.ok("push_lct_header HDR_LEN", "2 + O + S + H + C", loc(w.sp))
        else:
            rule.violation("push_lct_header HDR_LEN", "HDR_LEN is %s, expected %s" % (hl, exp), loc(w.sp))
    # ---- reader ------------------------------------------------------------------------------------------------
    rd = prog.fn("common::lct::parse_lct_header")
    ctx.analysed(rd.path)
    rsl = Slicer(rd.body)

    def bsrc(e):
        e = bits.strip(e)
        if e[0] == "var" and e[1] == "data" and e[2] in ("", "[_]"):
            return "data"
        return None

    rev = bits.Eval(byte_source=bsrc)
    offs, _ = offsets([(n, wd, None) for n, wd in RFC_LCT_WORD])
    names = {"c": "C", "s": "S", "o": "O", "h": "H", "a": "A", "b": "B", "cp": "CP", "version": "V"}
    vd = rsl.var_defs()
    for local, fld in sorted(names.items()):
        key = "parse_lct_header %s" % fld
        ds = [d for (pj, d, _bb) in vd.get(local, []) if pj == ""]
        if len(ds) != 1:
            rule.violation(key, "local `%s` not found / not single-assignment" % local, loc(rd.sp))
            continue
        try:
            rr = bits.runs(reader_bits(rev, rsl.expand(ds[0], stop={"data"})))
        except bits.Unknown as u:
            rule.violation(key, "cannot evaluate: %s" % u, loc(rd.sp))
            continue
        wr = wire_run(rr)
        if wr == offs[fld]:
            rule.ok(key, "wire bits %d..%d" % (wr[0], wr[0] + wr[1] - 1), loc(rd.sp))
        else:
            rule.violation(key, "read from %s, RFC 5651 places %s at bits %d..%d" % (wr or rr, fld, offs[fld][0], offs[fld][0] + offs[fld][1] - 1), loc(rd.sp))
    rwant = {"cci_len": ({"c": 4}, 4), "tsi_len": ({"s": 4, "h": 2}, 0), "toi_len": ({"o": 4, "h": 2}, 0)}
    for local, exp in sorted(rwant.items()):
        key = "parse_lct_header %s" % local
        ds = [d for (pj, d, _bb) in vd.get(local, []) if pj == ""]
        if len(ds) != 1:
            rule.violation(key, "local not found", loc(rd.sp))
            continue
        got_ = polarity.affine(rsl.expand(ds[0], stop={"c", "s", "o", "h"}))
        if ({k: v for k, v in got_[0].items() if v}, got_[1]) == exp:
            rule.ok(key, "= %s" % (exp,), loc(rd.sp))
        else:
            rule.violation(key, "%s = %s, RFC formula is %s" % (local, got_, exp), loc(rd.sp))
    rule.floor(20, "first-word fields and length formulas")
