"""C07 — block partitioning: both ends agree (ARG); no overflow for declared ranges (E4)."""
import re

from ..rules import *  # noqa
from ..model import X, show, loc, walk
from ..cfg import Flow, Slicer, find_calls

R1_TEXT = ("every call of partition::block_partitioning passes (oti.maximum_source_block_length, transfer_length, "
           "oti.encoding_symbol_length) in that parameter order, each widened to u64 without truncation")

ROLES = [("b", r"maximum_source_block_length"), ("l", r"transfer_length"), ("e", r"encoding_symbol_length")]


def partition_call_agreement(ctx, rule):
    prog = ctx.prog
    sites = find_calls(prog, r"^common::partition::block_partitioning$")
    for s in sites:
        ctx.analysed(s.func.path)
        sl = Slicer(s.body)
        args = s.expr[2]
        for i, (role, want) in enumerate(ROLES):
            key = "%s block_partitioning arg %s" % (s.func.root().path, role)
            srcs = sl.sources(args[i])
            varsrc = [z for z in srcs if z.startswith("var:") or z.startswith("call:")]
            others = [w for (r2, w) in ROLES if r2 != role]
            if not any(re.search(want, z) for z in varsrc):
                rule.violation(key, "argument `%s` is %s and does not derive from %s" % (role, show(args[i], 120), want), s.loc)
            elif any(re.search(o, z) for o in others for z in varsrc):
                rule.violation(key, "argument `%s` is %s and also derives from another role's source (%s): roles mixed" % (
                    role, show(args[i], 120), ", ".join(varsrc)[:160]), s.loc)
            else:
                # truncating casts on the way
                bad = [c for c in walk(args[i]) if c[0] == "cast" and c[3] == "IntToInt" and c[1] in ("u8", "u16", "u32", "i8", "i16", "i32")]
                if bad:
                    rule.violation(key, "argument `%s` passes through a narrowing cast %s" % (role, show(bad[0], 100)), s.loc)
                else:
                    rule.ok(key, show(args[i], 120), s.loc)
    rule.floor(9, "3 call sites x 3 arguments of block_partitioning")
    return sites


def run(ctx):
    prog = ctx.prog
    ctx.explanation = (
        "C07's core (equality with RFC 5052 for all (L,E,B)) is a numerical identity and is NOT decided. Decided: "
        "R1 the three callers of block_partitioning agree on argument roles and widths; the RaptorQ/Raptor readers "
        "rebuild B from F, Z and T with the same nested ceiling division and Z written by the sender is the nb_blocks "
        "component of the same partition call; R2 no arithmetic panic site inside block_partitioning is open for the "
        "declared ranges (range engine E4).")
    ctx.not_decided += ["equality of the computed partition with RFC 5052 §9.1 for all (L,E,B)",
                        "sum of block lengths = L"]
    r1 = ctx.rule("C07.R1", R1_TEXT, "ARG")
    partition_call_agreement(ctx, r1)

    # the three callers are the expected roles: sender encoder, receiver, sender filedesc
    r1b = ctx.rule("C07.R1b", "RaptorQ and Raptor get_fti rebuild B as div_ceil(div_ceil(F, Z), T) and store Z, and the sender "
                              "writes Z from the nb_blocks result of block_partitioning", "ARG/SIB")
    for codec, ss in (("alcraptorq::AlcRaptorQ", "RaptorQ"), ("alcraptor::AlcRaptor", "Raptor")):
        f = prog.fn("<common::alccodec::%s as common::alccodec::AlcCodec>::get_fti" % codec)
        ctx.analysed(f.path)
        sl = Slicer(f.body)
        found = False
        for blk in f.body.blocks:
            for s in blk.stmts:
                if s.k == "assign" and s.rv.k == "aggr" and s.rv.j.get("adt") == "common::oti::Oti":
                    found = True
                    names = s.rv.j["fnames"]
                    e = sl.x.operand(s.rv.ops[names.index("maximum_source_block_length")])
                    key = "%s B reconstruction" % codec
                    ok, why = nested_div_ceil(sl, f, s)
                    if ok:
                        r1b.ok(key, why, loc(s.sp))
                    else:
                        r1b.violation(key, "Oti.maximum_source_block_length = %s: %s" % (show(e, 160), why), loc(s.sp))
        if not found:
            raise model.AnchorMissing("%s::get_fti does not build an Oti" % codec)
    f = prog.fn("sender::filedesc::FileDesc::new")
    sl = Slicer(f.body)
    accs = field_accesses(prog, "common::oti::RaptorQSchemeSpecific", "source_blocks_length", funcs=[f]) + \
        field_accesses(prog, "common::oti::RaptorSchemeSpecific", "source_blocks_length", funcs=[f])
    for a in accs:
        if a["kind"] != "assign":
            continue
        key = "FileDesc::new writes Z (%s)" % show(a["place"], 60)
        srcs = sl.sources(a["value"])
        if any(z == "call:common::partition::block_partitioning" for z in srcs):
            r1b.ok(key, "Z <- nb_blocks of block_partitioning", loc(a["sp"]))
        else:
            r1b.violation(key, "Z is %s, not derived from block_partitioning" % show(a["value"], 100), loc(a["sp"]))
    r1b.floor(4, "2 readers + 2 Z writes")

    from . import c10
    r6 = ctx.rule("C07.R6", "the (B, E) the receiver partitions with are the object's own: " + c10.EXTRACTION_TEXT + " (shared with C10.R6)", "fallback order + sibling agreement")
    c10.receiver_extraction_rule(ctx, r6)
    r6.floor(20, "extraction facts")
    _r7(ctx)
    z_range_rule(ctx, ctx.rule("C07.R5", Z_TEXT, "E4 range of the written value vs the reader's refusal"))

    # ---- R1c: the receiver hands its partition to block_length under the right parameter names --------------------------
    r1c = ctx.rule("C07.R1c", "every call of partition::block_length passes (self.a_large, self.a_small, self.nb_a_large, transfer length, "
                              "oti.encoding_symbol_length, packet SBN) in the callee's parameter order, and those three fields are exactly the "
                              "(a_large, a_small, nb_a_large) components of the block_partitioning result", "ARG by parameter name")
    callee = prog.fn("common::partition::block_length")
    pnames = [callee.body.names.get(i, "arg%d" % i) for i in range(1, callee.body.argc + 1)]
    want = {"a_large": r"^self\.a_large$", "a_small": r"^self\.a_small$", "nb_a_large": r"^self\.nb_a_large$", "l": r"transfer_length",
            "e": r"encoding_symbol_length", "sbn": r"\.sbn$"}
    sites = find_calls(prog, r"^common::partition::block_length$")
    for s_ in sites:
        sl_ = Slicer(s_.body)
        for i, pn in enumerate(pnames):
            if pn not in want:
                continue
            from ..cfg import strip_casts
            a = strip_casts(sl_.expand(s_.expr[2][i]))
            txt = show(a, 200)
            key = "%s block_length(%s)" % (s_.func.root().path.split("::")[-1], pn)
            if re.search(want[pn], txt) and not any(re.search(w, txt) for k2, w in want.items() if k2 != pn and k2 in ("a_large", "a_small", "nb_a_large")):
                r1c.ok(key, txt[:80], s_.loc)
            else:
                r1c.violation(key, "parameter `%s` receives %s" % (pn, txt[:100]), s_.loc)
    # the fields are the matching tuple components
    ib = prog.fn("receiver::objectreceiver::ObjectReceiver::init_blocks_partitioning")
    isl = Slicer(ib.body)
    comp = {"a_large": ".0", "a_small": ".1", "nb_a_large": ".2", "nb_blocks": ".3"}
    for fld, sfx in sorted(comp.items()):
        for a in field_accesses(prog, "receiver::objectreceiver::ObjectReceiver", fld, funcs=[ib]):
            if a["kind"] != "assign":
                continue
            ex = isl.expand(a["value"])
            key = "init_blocks_partitioning self.%s" % fld
            ok = ex[0] == "proj" and ex[2] == sfx and ex[1][0] == "call" and ex[1][1] == "common::partition::block_partitioning"
            if ok:
                r1c.ok(key, "= block_partitioning(..)%s" % sfx, loc(a["sp"]))
            else:
                r1c.violation(key, "self.%s = %s; expected component %s of block_partitioning" % (fld, show(ex, 80), sfx), loc(a["sp"]))
    be = prog.fn("sender::blockencoder::BlockEncoder::block_partitioning")
    bsl = Slicer(be.body)
    for fld, sfx in sorted(comp.items()):
        for a in field_accesses(prog, "sender::blockencoder::BlockEncoder", fld, funcs=[be]):
            if a["kind"] != "assign":
                continue
            ex = bsl.expand(a["value"])
            key = "BlockEncoder::block_partitioning self.%s" % fld
            ok = ex[0] in ("proj", "tmp") and (ex[2] == sfx) and "block_partitioning" in show(ex, 300) or (ex[0] == "tmp" and ex[2] == sfx)
            if ok:
                r1c.ok(key, "component %s" % sfx, loc(a["sp"]))
            else:
                r1c.violation(key, "self.%s = %s; expected component %s of block_partitioning" % (fld, show(ex, 80), sfx), loc(a["sp"]))
    r1c.floor(10, "block_length arguments and partition components")
    partition_polynomials(ctx)



Z_TEXT = ("the number of source blocks Z the sender stores for RaptorQ / Raptor (written into EXT_FTI and the FDT) lies in the range the "
          "receiver's get_fti accepts: the readers refuse Z == 0 (and would divide by it), so the written value must be >= 1 for every object "
          "the sender accepts - including an empty one, for which block_partitioning yields 0 blocks")


def z_range_rule(ctx, rule):
    from .. import ranges
    prog = ctx.prog
    # reader side: which values of Z are refused
    refuses_zero = {}
    for codec, ss in (("alcraptorq::AlcRaptorQ", "RaptorQ"), ("alcraptor::AlcRaptor", "Raptor")):
        f = prog.fn("<common::alccodec::%s as common::alccodec::AlcCodec>::get_fti" % codec)
        fl = Flow(f.body)
        errs = ret_assign_blocks(f.body, lambda e: is_variant(e, "Err"))
        rz = any(any(a[0] == "eq" and t and re.match(r"^z$|source_blocks", show(a[1])) and show(a[2]) == "0" or
                     a[0] == "eq" and t and re.match(r"^z$|source_blocks", show(a[2])) and show(a[1]) == "0" for (a, t) in fl.facts_at(bb)) for bb, _ in errs)
        refuses_zero[ss] = rz
        if rz:
            rule.ok("%s get_fti refuses Z == 0" % ss, "reader-side acceptance: Z >= 1", loc(f.sp))
        else:
            rule.ok("%s get_fti accepts Z == 0" % ss, "no refusal found: the writer range is not constrained by the reader", loc(f.sp))
    w = prog.fn("sender::filedesc::FileDesc::new")
    ctx.analysed(w.path)
    rp = ranges.analyse(prog, w)
    n = 0
    for blk in w.body.blocks:
        if blk.cleanup:
            continue
        for i, st in enumerate(blk.stmts):
            if not (st.k == "assign" and st.lhs[1]):
                continue
            last = st.lhs[1][-1]
            if not (isinstance(last, tuple) and len(last) >= 4 and last[0] == "f" and last[2] == "source_blocks_length"):
                continue
            ss = "RaptorQ" if "RaptorQ" in last[3] else "Raptor"
            s0 = rp.entry.get(blk.i)
            val = None
            if s0 is not None:
                s0 = s0.copy()
                for j, s2 in enumerate(blk.stmts):
                    if j == i:
                        if s2.rv.k == "use":
                            val = rp.operand(s0, s2.rv.ops[0])[0]
                        break
                    if s2.k == "assign":
                        rp.assign(s0, s2.lhs, s2.rv, blk.i, s2.sp)
            n += 1
            key = "FileDesc::new writes %s Z" % ss
            if val is None:
                rule.violation(key, "range of the written value unknown", loc(st.sp))
            elif refuses_zero.get(ss) and val[0] < 1:
                rule.violation(key, "the Z written for %s ranges over [%s, %s]: 0 is written for an empty object (block_partitioning returns 0 blocks for a "
                                    "transfer length of 0) and flute's own receiver rejects the packet carrying it (\"Z is null\"): an accepted empty "
                                    "object is never delivered" % (ss, val[0], val[1]), loc(st.sp))
            else:
                rule.ok(key, "range [%s, %s]" % val, loc(st.sp))
    if n < 2:
        raise model.AnchorMissing("FileDesc::new: %d writes of source_blocks_length found, expected 2" % n)
    rule.floor(4, "2 readers + 2 writers")


def partition_polynomials(ctx, prefix="C07.R"):
    """R3/R4: on recognised shapes, the arithmetic of block_partitioning / block_length equals the RFC 5052 reference as
    polynomials (insensitive to algebraic rewrites); shapes that are not polynomial in the recognised atoms are NOT decided."""
    from .. import poly, polarity
    from ..cfg import facts_of
    prog = ctx.prog
    r3 = ctx.rule(prefix + ("3" if prefix.endswith("R") else "p"), "block_partitioning returns (ceil(T/N), floor(T/N), T - floor(T/N)*N, N) with T = ceil(L/E), N = ceil(T/B) "
                            "(polynomial identity over div_ceil/div_floor atoms; unrecognised shapes are reported as not decided)", "polynomial normal form")
    f = prog.fn("common::partition::block_partitioning")
    ctx.analysed(f.path)
    sl = Slicer(f.body)
    strip_sfx = lambda n: re.sub(r"~\d+", "", n)
    T = "div_ceil(+1*l ; +1*e)"
    N = "div_ceil(+1*%s ; +1*b)" % T
    ref = [poly.var("div_ceil(+1*%s ; +1*%s)" % (T, N)), poly.var("div_floor(+1*%s ; +1*%s)" % (T, N)),
           poly.add(poly.var(T), poly.mul(poly.var("div_floor(+1*%s ; +1*%s)" % (T, N)), poly.var(N)), -1), poly.var(N)]
    names = ["a_large", "a_small", "nb_a_large", "nb_blocks"]
    # the result tuple: assigned to the return place, or to a local of the return type (the result slot of a helper the tail was moved into)
    rty_ = f.body.locals[0]["ty"]
    tuples = [(blk.i, st) for blk in f.body.blocks if not blk.cleanup and blk.cloned_from is None for st in blk.stmts
              if st.k == "assign" and not st.lhs[1] and (st.lhs[0] == 0 or f.body.locals[st.lhs[0]]["ty"] == rty_) and
              st.rv.k == "aggr" and st.rv.j.get("ak") == "tuple" and len(st.rv.ops) == 4]
    n = 0
    for bb, st in tuples:
        comps = [sl.expand(sl.x.operand(o)) for o in st.rv.ops]
        if all(c[0] == "const" and c[2] == 0 for c in comps):
            continue  # degenerate inputs: (0, 0, 0, 0)
        for nm, c, rf in zip(names, comps, ref):
            n += 1
            key = "block_partitioning %s" % nm
            try:
                p = poly.from_expr(c, strip_sfx)
            except poly.Unrecognised as u:
                r3.note(key, "not decided: shape not recognised (%s)" % u, loc(st.sp))
                continue
            if p == rf:
                r3.ok(key, poly.text(p)[:120], loc(st.sp))
            else:
                r3.violation(key, "%s = %s but RFC 5052 gives %s" % (nm, poly.text(p)[:160], poly.text(rf)[:160]), loc(st.sp))
    r3.floor(1, "partition result components")

    r4 = ctx.rule(prefix + ("4" if prefix.endswith("R") else "q"), "block_length returns either a full block (a_large*e / a_small*e for the block's class) or L minus the byte offset of the "
                            "block, the offset being sbn*a_large*e for sbn < nb_a_large and nb_a_large*a_large*e + (sbn - nb_a_large)*a_small*e otherwise "
                            "(polynomial identity; unrecognised shapes are reported as not decided)", "polynomial normal form per path")
    g = prog.fn("common::partition::block_length")
    ctx.analysed(g.path)
    gsl = Slicer(g.body)
    gfl = Flow(g.body)
    V = poly.var
    A, S_, NL, L, E, SBN = V("a_large"), V("a_small"), V("nb_a_large"), V("l"), V("e"), V("sbn")
    full_large = poly.mul(A, E)
    full_small = poly.mul(S_, E)
    off_large = poly.mul(poly.mul(SBN, A), E)
    off_small = poly.add(poly.mul(poly.mul(NL, A), E), poly.mul(poly.mul(poly.add(SBN, NL, -1), S_), E))
    rets = ret_value_defs(g.body)
    m = 0
    for bb, e in rets:
        ex = gsl.expand(e)
        key = "block_length return %s" % show(e, 40)
        try:
            p = poly.from_expr(ex, strip_sfx)
        except poly.Unrecognised as u:
            r4.note(key, "not decided: shape not recognised (%s)" % u, loc(g.body.blocks[bb].term.sp) if g.body.blocks[bb].term.sp else loc(g.sp))
            continue
        # which class of block is this path about?  the dominating facts, with named intermediates substituted (`let next_sbn = sbn + 1`), are
        # constraints on d = sign(sbn + 1 - nb_a_large): d < 0 large block, d == 0 last large block, d > 0 small block
        D = {-1, 0, 1}
        fs_txt = [cfgmod_show(f_) for f_ in gfl.facts_at(bb)]
        for (a_, t_) in gfl.facts_at(bb):
            if a_[0] not in ("lt", "le", "eq"):
                continue
            kind, ck, fn = polarity.canon(((a_[0], gsl.expand(a_[1]), gsl.expand(a_[2])), t_))
            if kind != "sign":
                continue
            coeff = {strip_sfx(n_): v for n_, v in ck[0]}
            if set(coeff) != {"sbn", "nb_a_large"} or coeff["sbn"] != -coeff["nb_a_large"] or abs(coeff["sbn"]) != 1:
                continue
            o = 1 if coeff["sbn"] > 0 else -1
            if ck[1] * o != 1:          # key*o = sbn - nb_a_large + const ; only the `sbn + 1` comparisons classify
                continue
            D = set(d for d in D if fn(o * d))
        cls = {(-1,): "large", (0,): "last-large", (1,): "small"}.get(tuple(sorted(D)))
        m += 1
        if cls is None:
            r4.note(key, "not decided: block class of this path not recognised (%s)" % "; ".join(fs_txt)[:160], loc(g.sp))
            continue
        if cls == "large":
            allowed = [full_large, poly.add(L, off_large, -1)]
        elif cls == "last-large":
            off = poly.mul(poly.mul(poly.add(NL, poly.const(1), -1), A), E)   # sbn = nb_a_large - 1
            allowed = [full_large, poly.add(L, off, -1)]
        else:
            allowed = [full_small, poly.add(L, off_small, -1)]
        if p in allowed:
            r4.ok(key + " [%s block]" % cls, poly.text(p)[:120], loc(g.sp))
        else:
            r4.violation(key + " [%s block]" % cls, "returns %s; for a %s block the length must be %s" % (
                poly.text(p)[:200], cls, " or ".join(poly.text(a_)[:120] for a_ in allowed)), loc(g.sp))
    r4.floor(4, "block_length return paths")


def cfgmod_show(f_):
    from ..cfg import show_fact
    return show_fact(f_)


def nested_div_ceil(sl, f, aggr_stmt):
    """In a get_fti body: the Oti's maximum_source_block_length must be div_ceil(div_ceil(F, Z), T) where F is the
    transfer length the function returns, Z the source_blocks_length it stores and T the encoding_symbol_length it
    stores (compared as expanded expression trees, so local names do not matter)."""
    from ..cfg import strip_casts
    x = sl.x
    names = aggr_stmt.rv.j["fnames"]
    eB = sl.expand(x.operand(aggr_stmt.rv.ops[names.index("maximum_source_block_length")]))
    eT = strip_casts(sl.expand(x.operand(aggr_stmt.rv.ops[names.index("encoding_symbol_length")])))
    eS = sl.expand(x.operand(aggr_stmt.rv.ops[names.index("scheme_specific")]))
    eZ = None
    for c in walk(eS):
        if c[0] == "aggr" and c[1].endswith("SchemeSpecific") and "source_blocks_length" in c[4]:
            eZ = strip_casts(c[3][c[4].index("source_blocks_length")])
    if eZ is None:
        return False, "scheme-specific info with source_blocks_length not found in the Oti"
    # F: second element of the tuple wrapped in Ok(Some((oti, F)))
    eF = None
    for blk in f.body.blocks:
        for st in blk.stmts:
            if st.k == "assign" and st.rv.k == "aggr" and st.rv.j.get("ak") == "tuple" and len(st.rv.ops) == 2:
                t0 = x.operand(st.rv.ops[0])
                if t0[0] == "var" and "oti::Oti" in (f.body.locals[st.rv.ops[0].place[0]]["ty"] if st.rv.ops[0].place else ""):
                    eF = strip_casts(sl.expand(x.operand(st.rv.ops[1])))
    if eF is None:
        return False, "returned (oti, transfer_length) tuple not found"
    o = strip_casts(eB)
    if not (o[0] == "call" and o[1].endswith("div_ceil") and len(o[2]) == 2):
        return False, "B is not a div_ceil(..) result"
    inner, t = strip_casts(o[2][0]), strip_casts(o[2][1])
    if not (inner[0] == "call" and inner[1].endswith("div_ceil") and len(inner[2]) == 2):
        return False, "dividend of the outer div_ceil is not div_ceil(F, Z)"
    fz, z = strip_casts(inner[2][0]), strip_casts(inner[2][1])
    if t != eT:
        return False, "outer divisor %s is not the symbol length stored in the Oti (%s)" % (show(t, 60), show(eT, 60))
    if fz != eF:
        return False, "inner dividend %s is not the transfer length returned (%s)" % (show(fz, 60), show(eF, 60))
    if z != eZ:
        return False, "inner divisor %s is not the Z stored in the Oti (%s)" % (show(z, 60), show(eZ, 60))
    return True, "B = div_ceil(div_ceil(F, Z), T) with F, Z, T the values returned/stored"


def _r7(ctx):
    from . import c01
    c01.block_addressing_rule(ctx, ctx.rule("C07.R7", "the receiver addresses blocks by the partition it derived: " + c01.ADDR_TEXT + "; the SBN of a packet "
                                                      "is range-tested against the partition's N, not against the slots allocated so far (shared with C01.R9)",
                                            "value shape + DOM"))

