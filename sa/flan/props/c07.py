"""C07 — block partitioning: both ends agree (ARG); no overflow for declared ranges (E4)."""
import re

from ..rules import *  # noqa
from ..model import X, show, loc, walk
from ..cfg import Flow, Slicer, find_calls

R1_TEXT = ("every call of partition::block_partitioning passes (oti.maximum_source_block_length, transfer_length, "
           "oti.encoding_symbol_length) in that parameter order, each widened to u64 without truncation")

ROLES = [("b", r"maximum_source_block_length"), ("l", r"transfer_length"), ("e", r"encoding_symbol_length")]


def partition_call_agreement(ctx, rule):
    prog = ctx.prog
    sites = find_calls(prog, r"^common::partition::block_partitioning$")
    for s in sites:
        ctx.analysed(s.func.path)
        sl = Slicer(s.body)
        args = s.expr[2]
        for i, (role, want) in enumerate(ROLES):
            key = "%s block_partitioning arg %s" % (s.func.root().path, role)
            srcs = sl.sources(args[i])
            varsrc = [z for z in srcs if z.startswith("var:") or z.startswith("call:")]
            others = [w for (r2, w) in ROLES if r2 != role]
            if not any(re.search(want, z) for z in varsrc):
                rule.violation(key, "argument `%s` is %s and does not derive from %s" % (role, show(args[i], 120), want), s.loc)
            elif any(re.search(o, z) for o in others for z in varsrc):
                rule.violation(key, "argument `%s` is %s and also derives from another role's source (%s): roles mixed" % (
                    role, show(args[i], 120), ", ".join(varsrc)[:160]), s.loc)
            else:
                # truncating casts on the way
                bad = [c for c in walk(args[i]) if c[0] == "cast" and c[3] == "IntToInt" and c[1] in ("u8", "u16", "u32", "i8", "i16", "i32")]
                if bad:
                    rule.violation(key, "argument `%s` passes through a narrowing cast %s" % (role, show(bad[0], 100)), s.loc)
                else:
                    rule.ok(key, show(args[i], 120), s.loc)
    rule.floor(9, "3 call sites x 3 arguments of block_partitioning")
    return sites


def run(ctx):
    prog = ctx.prog
    ctx.explanation = (
        "C07's core (equality with RFC 5052 for all (L,E,B)) is a numerical identity and is NOT decided. Decided: "
        "R1 the three callers of block_partitioning agree on argument roles and widths; the RaptorQ/Raptor readers "
        "rebuild B from F, Z and T with the same nested ceiling division and Z written by the sender is the nb_blocks "
        "component of the same partition call; R2 no arithmetic panic site inside block_partitioning is open for the "
        "declared ranges (range engine E4).")
    ctx.not_decided += ["equality of the computed partition with RFC 5052 §9.1 for all (L,E,B)",
                        "sum of block lengths = L"]
    r1 = ctx.rule("C07.R1", R1_TEXT, "ARG")
    partition_call_agreement(ctx, r1)

    # the three callers are the expected roles: sender encoder, receiver, sender filedesc
    r1b = ctx.rule("C07.R1b", "RaptorQ and Raptor get_fti rebuild B as div_ceil(div_ceil(F, Z), T) and store Z, and the sender "
                              "writes Z from the nb_blocks result of block_partitioning", "ARG/SIB")
    for codec, ss in (("alcraptorq::AlcRaptorQ", "RaptorQ"), ("alcraptor::AlcRaptor", "Raptor")):
        f = prog.fn("<common::alccodec::%s as common::alccodec::AlcCodec>::get_fti" % codec)
        ctx.analysed(f.path)
        sl = Slicer(f.body)
        found = False
        for blk in f.body.blocks:
            for s in blk.stmts:
                if s.k == "assign" and s.rv.k == "aggr" and s.rv.j.get("adt") == "common::oti::Oti":
                    found = True
                    names = s.rv.j["fnames"]
                    e = sl.x.operand(s.rv.ops[names.index("maximum_source_block_length")])
                    key = "%s B reconstruction" % codec
                    ok, why = nested_div_ceil(sl, f, s)
                    if ok:
                        r1b.ok(key, why, loc(s.sp))
                    else:
                        r1b.violation(key, "Oti.maximum_source_block_length = %s: %s" % (show(e, 160), why), loc(s.sp))
        if not found:
            raise model.AnchorMissing("%s::get_fti does not build an Oti" % codec)
    f = prog.fn("sender::filedesc::FileDesc::new")
    sl = Slicer(f.body)
    accs = field_accesses(prog, "common::oti::RaptorQSchemeSpecific", "source_blocks_length", funcs=[f]) + \
        field_accesses(prog, "common::oti::RaptorSchemeSpecific", "source_blocks_length", funcs=[f])
    for a in accs:
        if a["kind"] != "assign":
            continue
        key = "FileDesc::new writes Z (%s)" % show(a["place"], 60)
        srcs = sl.sources(a["value"])
        if any(z == "call:common::partition::block_partitioning" for z in srcs):
            r1b.ok(key, "Z <- nb_blocks of block_partitioning", loc(a["sp"]))
        else:
            r1b.violation(key, "Z is %s, not derived from block_partitioning" % show(a["value"], 100), loc(a["sp"]))
    r1b.floor(4, "2 readers + 2 Z writes")



def nested_div_ceil(sl, f, aggr_stmt):
    """In a get_fti body: the Oti's maximum_source_block_length must be div_ceil(div_ceil(F, Z), T) where F is the
    transfer length the function returns, Z the source_blocks_length it stores and T the encoding_symbol_length it
    stores (compared as expanded expression trees, so local names do not matter)."""
    from ..cfg import strip_casts
    x = sl.x
    names = aggr_stmt.rv.j["fnames"]
    eB = sl.expand(x.operand(aggr_stmt.rv.ops[names.index("maximum_source_block_length")]))
    eT = strip_casts(sl.expand(x.operand(aggr_stmt.rv.ops[names.index("encoding_symbol_length")])))
    eS = sl.expand(x.operand(aggr_stmt.rv.ops[names.index("scheme_specific")]))
    eZ = None
    for c in walk(eS):
        if c[0] == "aggr" and c[1].endswith("SchemeSpecific") and "source_blocks_length" in c[4]:
            eZ = strip_casts(c[3][c[4].index("source_blocks_length")])
    if eZ is None:
        return False, "scheme-specific info with source_blocks_length not found in the Oti"
    # F: second element of the tuple wrapped in Ok(Some((oti, F)))
    eF = None
    for blk in f.body.blocks:
        for st in blk.stmts:
            if st.k == "assign" and st.rv.k == "aggr" and st.rv.j.get("ak") == "tuple" and len(st.rv.ops) == 2:
                t0 = x.operand(st.rv.ops[0])
                if t0[0] == "var" and "oti::Oti" in (f.body.locals[st.rv.ops[0].place[0]]["ty"] if st.rv.ops[0].place else ""):
                    eF = strip_casts(sl.expand(x.operand(st.rv.ops[1])))
    if eF is None:
        return False, "returned (oti, transfer_length) tuple not found"
    o = strip_casts(eB)
    if not (o[0] == "call" and o[1].endswith("div_ceil") and len(o[2]) == 2):
        return False, "B is not a div_ceil(..) result"
    inner, t = strip_casts(o[2][0]), strip_casts(o[2][1])
    if not (inner[0] == "call" and inner[1].endswith("div_ceil") and len(inner[2]) == 2):
        return False, "dividend of the outer div_ceil is not div_ceil(F, Z)"
    fz, z = strip_casts(inner[2][0]), strip_casts(inner[2][1])
    if t != eT:
        return False, "outer divisor %s is not the symbol length stored in the Oti (%s)" % (show(t, 60), show(eT, 60))
    if fz != eF:
        return False, "inner dividend %s is not the transfer length returned (%s)" % (show(fz, 60), show(eF, 60))
    if z != eZ:
        return False, "inner divisor %s is not the Z stored in the Oti (%s)" % (show(z, 60), show(eZ, 60))
    return True, "B = div_ceil(div_ceil(F, Z), T) with F, Z, T the values returned/stored"
