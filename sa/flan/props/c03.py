"""C03 — no silent corruption."""
import re

from ..rules import *  # noqa
from ..model import X, show, loc, walk
from ..cfg import Flow, Slicer, find_calls, call_sites

OR = "receiver::objectreceiver::ObjectReceiver"
BW = "receiver::blockwriter::BlockWriter"

R1_TEXT = ("in ObjectReceiver::write_blocks, complete() is reached only past BlockWriter::is_completed() == true and a true "
           "value derived from BlockWriter::check_md5 (when a Content-MD5 is known); the false value leads to error()")


def md5_gate_rule(ctx, rule):
    prog = ctx.prog
    f = prog.fn(OR + "::write_blocks")
    ctx.analysed(f.path)
    flow = Flow(f.body)
    sl = Slicer(f.body)
    comps = call_sites(f, lambda p, c: p == OR + "::complete")
    if not comps:
        raise model.AnchorMissing("write_blocks does not call complete()")
    vd = sl.var_defs()

    def is_md5_verdict(e, depth=0):
        """the boolean is BlockWriter::check_md5 applied to the announced Content-MD5, true only when no MD5 was announced
        (`.map(|m| w.check_md5(m)).unwrap_or(true)`, or `match self.content_md5 { Some(m) => w.check_md5(m), None => true }`)"""
        ex = sl.expand(e)
        clos = [z[1] for z in walk(ex) if z[0] == "closure"]
        direct = any(z[0] == "call" and z[1] == BW + "::check_md5" for z in walk(ex))
        viaclos = any(any(True for _ in call_sites(prog.funcs[c], lambda p, cc: p == BW + "::check_md5")) for c in clos if c in prog.funcs)
        if (direct or viaclos) and "self.content_md5" in show(ex, 2000):
            return True
        if ex[0] in ("var", "tmp") and depth < 2:
            # multi-definition local: one arm per case of self.content_md5
            name = ex[1] if ex[0] == "var" else None
            defs = [(d[1], d[2]) for d in vd.get(name, []) if d[0] == ""] if name else []
            if len(defs) >= 2:
                saw_check = False
                for (de, bb) in defs:
                    fs_ = flow.facts_at(bb)
                    if de[0] == "const" and de[2] is True:
                        if not any(a[0] == "variant" and "content_md5" in show(a[1]) and ((a[2] == "None") == t) for (a, t) in fs_):
                            return False
                    elif any(z[0] == "call" and z[1] == BW + "::check_md5" for z in walk(sl.expand(de))):
                        saw_check = True
                    else:
                        return False
                return saw_check
        return False

    for s in comps:
        fs = flow.facts_at(s.bb)
        done = any(a[0] == "true" and t and any(c[0] == "call" and c[1] == BW + "::is_completed" for c in walk(a[1])) for (a, t) in fs)
        md5 = False
        for (a, t) in fs:
            if a[0] == "true" and t and is_md5_verdict(a[1]):
                md5 = True
        if not md5:
            # the same decision seen path-wise (`match content_md5 { Some(m) => check_md5(m), None => true }` reaches complete() on two paths):
            # every path passes either `content_md5 is None` or a true check_md5 verdict
            def md5_gate(n):
                if n[0] != "e":
                    return False
                for (a, t) in flow.edge_facts(n):
                    if a[0] == "variant" and a[2] in ("None", "Some") and ((a[2] == "None") == t) and \
                            re.search(r"^(Option::as_ref\()?&?self\.content_md5\)?$", show(sl.expand(a[1]), 300)):
                        return True
                    if a[0] == "true" and t and (is_md5_verdict(a[1]) or any(
                            z[0] == "call" and z[1] == BW + "::check_md5" and "content_md5" in show(sl.expand(z), 600) for z in walk(sl.expand(a[1])))):
                        return True
                return False
            # (edges that contradict what an earlier test of the same field established - `let Some(w) = self.block_writer.as_mut() else
            # { return }` ... `match (.., self.block_writer.as_ref()) { (.., None) => ..` - are not paths: Flow.prune_contradicted)
            flow.prune_contradicted()
            md5, _w = flow.must_pass(0, [s.bb], md5_gate)
        key = "write_blocks -> complete"
        if done and md5:
            rule.ok(key, "behind is_completed() and the MD5 verdict", s.loc)
        else:
            rule.violation(key, "complete() is reachable %s" % ("before the block writer reports the object complete" if not done else
                                                                 "without consulting BlockWriter::check_md5 on the announced Content-MD5: corrupted payload would be reported complete"), s.loc)
    # false edge -> error
    errs = call_sites(f, lambda p, c: p == OR + "::error")
    okerr = False
    for s in errs:
        fs = flow.facts_at(s.bb)
        for (a, t) in fs:
            if a[0] == "true" and not t and (is_md5_verdict(a[1]) or any(
                    z[0] == "call" and z[1] == BW + "::check_md5" and "content_md5" in show(sl.expand(z), 600) for z in walk(sl.expand(a[1])))):
                okerr = True
    if okerr:
        rule.ok("write_blocks md5 mismatch -> error", "", errs[0].loc)
    else:
        rule.violation("write_blocks md5 mismatch -> error", "no error() on the MD5-mismatch edge", loc(f.sp))
    # enable_md5_check only from the writer's answer
    for a in field_accesses(prog, OR, "enable_md5_check"):
        caller = a["func"].root().path
        key = "%s %s enable_md5_check" % (caller, a["kind"])
        if a["kind"] == "construct":
            rule.ok(key, show(a["value"]), loc(a["sp"]))
        elif caller == OR + "::init_object_writer" and a["kind"] == "assign" and "enable_md5_check" in show(a["value"]) and "ObjectWriter" in show(a["value"]):
            rule.ok(key, show(a["value"], 80), loc(a["sp"]))
        elif a["kind"] == "assign" and caller == OR + "::init_object_writer":
            rule.ok(key, show(a["value"], 80), loc(a["sp"]))
        else:
            rule.violation(key, "MD5 checking switched outside init_object_writer", loc(a["sp"]))
    rule.floor(3, "md5 gate facts")


def run(ctx):
    prog = ctx.prog
    ctx.explanation = (
        "C03: equality of the written bytes with the sender's bytes over all delivery histories is NOT decided.  Decided: R1 the "
        "MD5 gate before complete(), R2 blocks reach the writer strictly in SBN order (guard + single increment), R3 first copy "
        "of a symbol wins (shared with C02.R3), R4 never both complete and failed (typestate, shared with C09.R2), R5 packets "
        "are ignored unless the object is in state Receiving.")
    ctx.not_decided += ["bytes handed to the writer equal the sender's object for every packet sub-multiset and order"]
    r1 = ctx.rule("C03.R1", R1_TEXT, "DOM")
    md5_gate_rule(ctx, r1)
    # check_md5 compares the computed digest with the announced one
    cm = prog.fn(BW + "::check_md5")
    ctx.analysed(cm.path)
    sl = Slicer(cm.body)
    rets = ret_assign_blocks(cm.body, lambda e: True)
    allsrc = set()
    for _, e in rets:
        allsrc |= sl.sources(e)
    if any("md5" in z for z in allsrc if z.startswith("var:")) and any(z.startswith("var:self.") for z in allsrc):
        r1.ok("check_md5 compares computed digest with the argument", "", loc(cm.sp))
    else:
        r1.violation("check_md5 compares computed digest with the argument", "check_md5 result depends on %s" % sorted(allsrc)[:8], loc(cm.sp))

    # ---- R2 --------------------------------------------------------------------------------
    r2 = ctx.rule("C03.R2", "BlockWriter::write hands a block to the ObjectWriter only when its SBN equals the writer's cursor, "
                            "and the cursor is only ever advanced by one, after a successful write", "DOM+WWF")
    w = prog.fn(BW + "::write")
    ctx.analysed(w.path)
    wf = Flow(w.body)
    inner = [s for s in call_sites(w, lambda p, c: p.startswith(BW + "::") and p != BW + "::write")]
    # the helper that emits the write may have been folded into write(): then the ObjectWriter::write call itself is the site
    direct_w = [s for s in call_sites(w, lambda p, c: norm_path(c["path"]) == "receiver::writer::ObjectWriter::write")]
    inner = inner + direct_w
    n = 0
    for s in inner:
        if s not in direct_w and not typestate_emits_write(prog, s.term.callee_path()):
            continue
        n += 1
        fs = wf.facts_at(s.bb)
        ok = any(a[0] == "eq" and t and {show(a[1]), show(a[2])} == {"self.sbn", "sbn"} for (a, t) in fs)
        key = "BlockWriter::write -> %s" % s.term.callee_path().split("::")[-1]
        if ok:
            r2.ok(key, "dominated by self.sbn == sbn", s.loc)
        else:
            r2.violation(key, "block data can reach the ObjectWriter although its SBN is not the next one expected", s.loc)
    if n == 0:
        raise model.AnchorMissing("BlockWriter::write has no path to ObjectWriter::write")

    def chk(a):
        v = a["value"]
        if a["kind"] == "construct":
            return None if show(v) == "0" else "cursor starts at %s" % show(v)
        if not (v[0] == "bin" and v[1].startswith("Add") and show(v[2]) == "self.sbn" and show(v[3]) == "1"):
            return "cursor assigned %s" % show(v, 60)
        return None

    acc = wwf(r2, prog, BW, "sbn", [r"^receiver::blockwriter::BlockWriter::(write|new)$"], kinds=("assign", "assign_sub", "borrow_mut", "construct"), value_check=chk)
    for a in acc:
        if a["kind"] == "assign":
            # increment only after the data was written: dominated by the inner write calls
            wbbs = set(s.bb for s in inner if s in direct_w or typestate_emits_write(prog, s.term.callee_path()))
            ok, _w = wf.must_pass(0, [a["bb"]], lambda n: n[0] == "b" and n[1] in wbbs)
            # and leads to Ok(true)
            if ok:
                r2.ok("BlockWriter::write cursor advanced after the data", "", loc(a["sp"]))
            else:
                r2.violation("BlockWriter::write cursor advanced after the data", "cursor can advance on a path that skipped the write", loc(a["sp"]))
    r2.floor(4, "order facts")

    # ---- R3 / R4 -----------------------------------------------------------------------------
    from . import c02, c09
    r3 = ctx.rule("C03.R3", "first copy of a symbol wins (every self-storing FecDecoder)", "DOM")
    c02.duplicate_guard_rule(ctx, r3)
    r4 = ctx.rule("C03.R4", "an object instance is never reported both complete and failed: at most one terminal ObjectWriter call "
                            "(typestate over all entry orders, shared with C09.R2)", "E3 typestate")
    it, spec, entries, R, FR = c09.typestate_run(ctx)
    bad = [(k, m, w, wit) for (k, m, w, wit) in it.reports if re.match(r"^(complete|error|interrupted)@(completed|failed)", k)]
    for (k, m, where, wit) in bad:
        r4.violation(k, "%s  [witness: %s]" % (m, wit), where)
    r4.ok("typestate exploration", "%d reachable stores, %d transitions" % (len(R), it.ntrans), "src/receiver/objectreceiver.rs")

    from . import c01
    c01.decoding_params_provenance(ctx, ctx.rule("C03.R6", c01.DECODING_TEXT, "WWF + value provenance"))

    # ---- R5 -----------------------------------------------------------------------------------
    r5 = ctx.rule("C03.R5", "ObjectReceiver::push does nothing but record the timestamp unless state == Receiving", "DOM")
    p = prog.fn(OR + "::push")
    ctx.analysed(p.path)
    pf = Flow(p.body)
    for bb, t in p.body.calls():
        cp = t.callee_path() or ""
        if not cp.startswith(OR + "::"):
            continue
        fs = pf.facts_at(bb)
        ok = any((a[0] == "eq" and t2 and "Receiving" in show(a[1]) + show(a[2]) and "self.state" in show(a[1]) + show(a[2])) or
                 (a[0] == "variant" and a[2] == "Receiving" and t2 and "self.state" in show(a[1])) for (a, t2) in fs)
        key = "push -> %s" % cp.split("::")[-1]
        if ok:
            r5.ok(key, "under state == Receiving", loc(t.sp))
        else:
            r5.violation(key, "stale packets reach %s in a state other than Receiving" % cp.split("::")[-1], loc(t.sp))
    r5.floor(6, "calls in push")

    byte_accounting(ctx, ctx.rule("C03.R7", BYTES_TEXT, "WWF + value shape + DOM"))

    # ---- R8 the rest of a completed object's own transfer is suppressed ----------------------------------------------------------
    r8 = ctx.rule("C03.R8", "once an object is Completed, the packets of the same transfer that are still to come (FEC repair symbols, duplicates) "
                            "must not start a second instance of it: Receiver::check_object_state enters every Completed object in objects_completed "
                            "(the registry push_obj consults) on every path", "PAIR")
    RCV = "receiver::receiver::Receiver"
    cs = prog.fn(RCV + "::check_object_state")
    ctx.analysed(cs.path)
    cfl = Flow(cs.body)
    ins = set(s_.bb for s_, ai_, mut_ in calls_on_field(prog, RCV, "objects_completed", funcs=[cs]) if method_name(s_) in ("insert", "entry"))
    arms = []
    for blk_ in cs.body.blocks:
        if blk_.cleanup or blk_.term.k != "switch":
            continue
        for k_ in range(len(blk_.term.targets) + 1):
            if any(a_[0] == "variant" and a_[2] == "Completed" and t_ for (a_, t_) in cfl.edge_facts(("e", blk_.i, k_))):
                arms.append(blk_.term.targets[k_][1] if k_ < len(blk_.term.targets) else blk_.term.otherwise)
    if not arms:
        raise model.AnchorMissing("check_object_state: Completed arm not found")
    key = "check_object_state: Completed -> objects_completed.insert"
    rets = cs.body.return_blocks()
    okp = bool(ins) and all(a_ in ins or cfl.must_pass(a_, rets, lambda n: n[0] == "b" and n[1] in ins)[0] for a_ in arms)
    if okp:
        r8.ok(key, "on every path of the Completed arm", loc(cs.sp))
    else:
        r8.violation(key, "a Completed object can leave check_object_state without being entered in objects_completed: the remaining packets of its own "
                          "transfer (repair symbols) re-create it, open a second writer for it and end that one in error - with the filesystem writer "
                          "the file just completed is truncated and removed", loc(cs.sp))


BYTES_TEXT = ("BlockWriter byte accounting: bytes_left starts at the transfer length handed to BlockWriter::new (ObjectReceiver.transfer_length, with "
              "content_length / cenc from the same object), every block is cut to at most bytes_left bytes before it reaches the writer, bytes_left "
              "decreases by exactly the length of what was handed on, and is_completed() is bytes_left == 0 (the last block's padding is never written, "
              "and 'complete' means all transfer-length bytes were handed on)")


def byte_accounting(ctx, rule):
    prog = ctx.prog
    from ..cfg import strip_ref
    w = prog.fn(BW + "::write")
    ctx.analysed(w.path)
    wf = Flow(w.body)
    sl = Slicer(w.body)
    vd = sl.var_defs()
    inner = [s for s in call_sites(w, lambda p, c: p in (BW + "::write_pkt_cenc_null", BW + "::decode_write_pkt") or
                                       norm_path(c["path"]) == "receiver::writer::ObjectWriter::write")]
    if not inner:
        raise model.AnchorMissing("BlockWriter::write does not call write_pkt_cenc_null / decode_write_pkt")
    handed = set()
    cut_ends = set()     # expanded texts of the lengths the handed data was cut to
    for s in inner:
        # write_pkt_cenc_null(&mut self, data, ..) / decode_write_pkt(&mut self, data, ..) ; ObjectWriter::write(&self, sbn, data, now)
        arg = strip_ref(s.expr[2][2 if norm_path(s.term.callee()["path"]) == "receiver::writer::ObjectWriter::write" else 1])
        key = "BlockWriter::write -> %s data trimmed to bytes_left" % s.term.callee_path().split("::")[-1]
        if arg[0] != "var" or arg[2]:
            rule.violation(key, "the data argument is %s" % show(arg, 60), s.loc)
            continue
        handed.add(arg[1])
        defs = [(proj, e, bb) for (proj, e, bb) in vd.get(arg[1], []) if proj == ""]
        bad = []
        for (_, e, bb) in defs:
            e = strip_ref(e)
            idx = [c for c in walk(e) if c[0] == "call" and re.search(r"Index.*::index$", c[1]) and len(c[2]) == 2]
            def at_most_left(z):
                """self.bytes_left, or min(.., self.bytes_left)"""
                z = strip_ref(z)
                if show(z) == "self.bytes_left":
                    return True
                return z[0] == "call" and re.search(r"(Ord|cmp)::min$", z[1]) is not None and any(show(strip_ref(a_)) == "self.bytes_left" for a_ in z[2])
            cut = False
            for c in idx:
                rg_ = strip_ref(c[2][1])
                if rg_[0] == "aggr" and "RangeTo" in rg_[1]:
                    end_ = sl.expand(rg_[3][0])      # the bound may have been computed first: `let n = min(self.bytes_left, data.len()); &data[..n]`
                    if at_most_left(rg_[3][0]) or at_most_left(end_):
                        cut = True
                        cut_ends.add(show(strip_ref(end_), 300))
            if cut:
                continue
            # the whole block: only where it is known to be shorter than what is left
            fs = wf.facts_at(bb)
            shorter = any((a[0] == "lt" and t and "len(" in show(a[1]) and show(a[2]) == "self.bytes_left") or
                          (a[0] == "le" and t and "len(" in show(a[1]) and show(a[2]) == "self.bytes_left") for (a, t) in fs)
            if not shorter:
                bad.append(show(e, 60))
        if defs and not bad:
            rule.ok(key, "either data[..bytes_left] or the whole block under len(data) < bytes_left", s.loc)
        else:
            rule.violation(key, "the block is handed to the writer without being cut to the bytes that are left (%s): the padding of the last "
                                "source block would be written / decoded" % (bad or "no definition"), s.loc)

    def chk(a):
        v = a["value"]
        if a["kind"] == "construct":
            return None if show(v) == "transfer_length" else "bytes_left starts at %s, not at the transfer length" % show(v, 40)
        if a["func"].path != w.path:
            return "written outside BlockWriter::write"
        if v[0] == "bin" and v[1].startswith("Sub") and show(v[2]) == "self.bytes_left":
            # `self.bytes_left -= data.len()` or, with the length read into a local first, `let n = data.len(); self.bytes_left -= n`
            for sub in (strip_ref(v[3]), strip_ref(sl.expand(v[3], stop=handed))):
                if sub[0] == "call" and sub[1].endswith("::len") and strip_ref(sub[2][0])[0] == "var" and strip_ref(sub[2][0])[1] in handed:
                    return None
            if show(strip_ref(sl.expand(v[3])), 300) in cut_ends:
                return None      # decreases by the very length the data was cut to
            return "bytes_left decreases by %s, not by the length of the data handed to the writer" % show(v[3], 60)
        return "bytes_left assigned %s" % show(v, 60)

    wwf(rule, prog, BW, "bytes_left", [r"^receiver::blockwriter::BlockWriter::(write|new)$"], kinds=("assign", "assign_sub", "borrow_mut", "construct"), value_check=chk)
    ic = prog.fn(BW + "::is_completed")
    rets = ret_assign_blocks(ic.body, lambda e: True)
    from ..cfg import facts_of
    okc = rets and all(any(a[0] == "eq" and t and {show(a[1]), show(a[2])} == {"self.bytes_left", "0"} for (a, t) in facts_of(e, True)) for _, e in rets)
    if okc:
        rule.ok("BlockWriter::is_completed", "bytes_left == 0", loc(ic.sp))
    else:
        rule.violation("BlockWriter::is_completed", "is_completed returns %s, expected bytes_left == 0" % [show(e, 60) for _, e in rets], loc(ic.sp))
    # the limit of decoded output is the announced content length itself
    for a in field_accesses(prog, BW, "content_length_left"):
        caller = a["func"].root().path.split("::")[-1]
        key = "%s %s BlockWriter.content_length_left" % (caller, a["kind"])
        if a["kind"] == "construct":
            if show(a["value"]) == "content_length":
                rule.ok(key, "= content_length", loc(a["sp"]))
            else:
                rule.violation(key, "the decoded-output limit starts at %s, not at the announced content length: decoded content is cut (or not "
                                    "cut) at another size while the object is still reported complete" % show(a["value"], 80), loc(a["sp"]))
        elif a["kind"] in ("assign", "assign_sub", "borrow_mut") and caller not in ("decoder_read",):
            rule.violation(key, "content_length_left written outside decoder_read", loc(a["sp"]))
    # MD5 is finalised whenever the writer becomes complete: every Ok exit of write() past is_completed() == true passes `self.md5 = ..`
    md5_assign = set(a["bb"] for a in field_accesses(prog, BW, "md5", funcs=[w]) if a["kind"] == "assign")
    okret = [bb for bb, e in ret_assign_blocks(w.body, lambda e: is_variant(e, "Ok") or (e[0] == "call" and "Result" in e[1]))]
    allret = [bb for bb, e in ret_assign_blocks(w.body, lambda e: not is_variant(e, "Err") and "from_residual" not in show(e, 60))]
    starts = []
    for blk in w.body.blocks:
        t_ = blk.term
        if t_.k == "switch":
            for k in range(len(t_.targets) + 1):
                # `if self.is_completed()` or the accessor's body written out, `if self.bytes_left == 0`
                if any((a[0] == "true" and t and a[1][0] == "call" and a[1][1].endswith("BlockWriter::is_completed")) or
                       (a[0] == "eq" and t and {show(a[1]), show(a[2])} == {"self.bytes_left", "0"}) for (a, t) in wf.edge_facts_x(("e", blk.i, k))):
                    starts.append(t_.targets[k][1] if k < len(t_.targets) else t_.otherwise)
    key = "BlockWriter::write finalises the MD5 when the object is complete"
    if not starts or not md5_assign:
        rule.violation(key, "no `is_completed()` branch (%d) / no assignment of self.md5 (%d) in write()" % (len(starts), len(md5_assign)), loc(w.sp))
    else:
        bad = None
        for st_ in starts:
            for rb in allret:
                ok, wit = wf.must_pass(st_, [rb], lambda n: n[0] == "b" and n[1] in md5_assign)
                if not ok:
                    bad = wit
        if bad is None:
            rule.ok(key, "every non-error exit past is_completed() passes `self.md5 = ..`", loc(w.sp))
        else:
            rule.violation(key, "write() can return without an error after the last block although the MD5 was not finalised (check_md5 treats a missing "
                                "digest as a match): %s" % path_text(w.body, bad), loc(w.sp))
    # construction site
    n = 0
    for s in find_calls(prog, "^" + re.escape(BW) + "::new$"):
        n += 1
        g = s.func
        gs = Slicer(g.body)
        caller = g.root().path.split("::")[-1]
        want = [("transfer length", r"self\.transfer_length"), ("content length", r"self\.content_length"), ("cenc", r"self\.cenc"), ("md5 switch", r"self\.enable_md5_check")]
        for i, (nm, rx_) in enumerate(want):
            ex = show(gs.expand(s.expr[2][i]), 200)
            others = [r for j, (_, r) in enumerate(want) if j != i]
            key = "%s BlockWriter::new(%s)" % (caller, nm)
            if re.search(rx_, ex) and not any(re.search(o, ex) for o in others):
                rule.ok(key, ex[:80], s.loc)
            else:
                rule.violation(key, "argument `%s` is %s" % (nm, ex[:100]), s.loc)
    if n == 0:
        raise model.AnchorMissing("BlockWriter::new is never called")
    md5_switch_order(ctx, rule)
    rule.floor(12, "byte accounting facts")


def md5_switch_order(ctx, rule):
    """the writer's wish to have the MD5 checked is asked before the BlockWriter (which computes the digest only if told so) is built"""
    prog = ctx.prog
    f = prog.fn(OR + "::init_object_writer")
    fl = Flow(f.body)
    news = call_sites(f, lambda p, c: p == BW + "::new")
    sets = [a for a in field_accesses(prog, OR, "enable_md5_check", funcs=[f]) if a["kind"] == "assign"]
    key = "init_object_writer: enable_md5_check decided before BlockWriter::new"
    if not news or not sets:
        rule.violation(key, "BlockWriter::new (%d) / assignment of enable_md5_check (%d) not found in init_object_writer" % (len(news), len(sets)), loc(f.sp))
        return
    def reach_from(b0):
        seen, work = set(), [b0]
        while work:
            b = work.pop()
            t_ = f.body.blocks[b].term
            nxt = []
            if t_.k == "switch":
                nxt = [x[1] for x in t_.targets] + [t_.otherwise]
            elif getattr(t_, "target", None) is not None:
                nxt = [t_.target]
            for n_ in nxt:
                if n_ is not None and n_ not in seen and not f.body.blocks[n_].cleanup:
                    seen.add(n_)
                    work.append(n_)
        return seen
    late = [a for a in sets for c in news if a["bb"] in reach_from(c.bb)]
    after = [a for a in sets for c in news if c.bb != a["bb"] and fl.dominates(c.bb, a["bb"])]
    if after or late:
        rule.violation(key, "enable_md5_check is assigned after BlockWriter::new(.., self.enable_md5_check) read it: the digest is never computed and "
                            "check_md5() treats a missing digest as a match, so a corrupted object is reported complete", loc((after or late)[0]["sp"]))
    else:
        rule.ok(key, "", news[0].loc)
    # the value comes from the writer itself
    sl = Slicer(f.body)
    for a in sets:
        if any(z.endswith("ObjectWriter::enable_md5_check") for z in sl.sources(a["value"])):
            rule.ok("init_object_writer: enable_md5_check <- writer.enable_md5_check()", "", loc(a["sp"]))
        else:
            rule.violation("init_object_writer: enable_md5_check <- writer.enable_md5_check()", "assigned %s" % show(a["value"], 60), loc(a["sp"]))


_emit_cache = {}


def typestate_emits_write(prog, path):
    """does the local function `path` (transitively, within BlockWriter) call ObjectWriter::write"""
    if path in _emit_cache:
        return _emit_cache[path]
    _emit_cache[path] = False
    f = prog.funcs.get(path)
    res = False
    if f is not None:
        for bb, t in f.body.calls():
            c = t.callee()
            if c and norm_path(c["path"]) == "receiver::writer::ObjectWriter::write":
                res = True
            for tp in prog.callee_targets(c)[0]:
                if tp.startswith(BW + "::") and typestate_emits_write(prog, tp):
                    res = True
    _emit_cache[path] = res
    return res
