"""C09 — object-writer protocol (typestate)."""
import re

from ..rules import *  # noqa
from ..model import X, show, loc, walk
from ..cfg import Flow, Slicer, find_calls, call_sites
from .. import typestate

OR = "receiver::objectreceiver::ObjectReceiver"
OWS = "receiver::objectreceiver::ObjectWriterSession"
OW = "receiver::writer::ObjectWriter"


def make_spec(prog):
    flows = {}

    def on_assign(var, old, new, H, site, report):
        f, sp, bb = site
        if var == "wopt" and new == "Some":
            if H["g"] in ("opened", "fresh"):
                report("writer replaced", "a new writer session overwrites one that is still %s (no terminal call)" % H["g"], loc(sp))
            H["g"] = "fresh"
        if var == "st" and new == "Completed":
            # legitimate without delivery only in the ObjectAlreadyReceived arm of the builder result
            fl = flows.setdefault(f.path, Flow(f.body))
            if bb is not None and any(a[0] == "variant" and a[2] == "ObjectAlreadyReceived" and t for (a, t) in fl.facts_at(bb)):
                H["ar"] = "yes"

    def on_event(ev, H, site, report):
        f, sp, bb = site
        g = H["g"]
        where = loc(sp)
        if ev == "open":
            if g != "fresh":
                report("open@%s" % g, "ObjectWriter::open called when the writer session is '%s' (expected: freshly created, once)" % g, where)
            H["g"] = "opened"
        elif ev == "write":
            if g != "opened":
                report("write@%s" % g, "ObjectWriter::write called when the writer session is '%s' (expected: opened, before any terminal call)" % g, where)
        elif ev in ("complete", "error", "interrupted"):
            if g != "opened":
                report("%s@%s" % (ev, g), "terminal call ObjectWriter::%s issued when the writer session is '%s' (expected exactly one "
                                          "terminal call, after open)" % (ev, g), where)
            H["g"] = "completed" if ev == "complete" else "failed"

    spec = typestate.Spec(
        self_ty=OR,
        vars={
            "st": {"path": r"self\.state", "kind": "enum", "init": "Receiving"},
            "wopt": {"path": r"self\.object_writer", "kind": "option", "init": "None"},
            "ws": {"path": r"self\.object_writer\.state", "kind": "enum", "init": None},
            "cache": {"path": r"self\.cache", "kind": "vec", "init": "empty"},
        },
        ghosts={"g": "none", "ar": "no"},
        events=[(r"^receiver::writer::ObjectWriter::open$", "open"), (r"^receiver::writer::ObjectWriter::write$", "write"),
                (r"^receiver::writer::ObjectWriter::complete$", "complete"), (r"^receiver::writer::ObjectWriter::error$", "error"),
                (r"^receiver::writer::ObjectWriter::interrupted$", "interrupted")],
        on_event=on_event, on_assign=on_assign)
    return spec


def entry_points(prog):
    """&mut self methods of ObjectReceiver called from outside its impl (plus pub ones)"""
    out = []
    for f in prog.methods_of(OR):
        if f.kind != "assoc" or f.impl_trait or f.body.argc < 1:
            continue
        if not f.body.locals[1]["ty"].startswith("&mut "):
            continue
        ext = False
        for (g, bb, t) in prog.callers_of(lambda c: c.get("rpath") == f.path or c.get("path") == f.path):
            if g.root().self_ty != OR:
                ext = True
        if ext:
            out.append(f.path)
    return sorted(out)


def typestate_run(ctx):
    prog = ctx.prog
    spec = make_spec(prog)
    it = typestate.Interp(prog, spec)
    entries = entry_points(prog)
    drop = [p for p in prog.funcs if re.match(r"^<receiver::objectreceiver::ObjectReceiver as (std|core)::ops::Drop>::drop$", p)]
    if not entries or not drop:
        raise model.AnchorMissing("ObjectReceiver entry points / Drop impl not found")

    def check_exit(e, H, report):
        if H["st"] == "Completed" and H["g"] != "completed" and H["ar"] != "yes":
            report("Completed without delivery via %s (writer %s)" % (e.split("::")[-1], H["g"]), "entry point %s can return with state Completed although no writer received "
                                                 "complete() (writer session: %s) and the builder did not answer ObjectAlreadyReceived: the object "
                                                 "is registered as received but was never delivered" % (e.split("::")[-1], H["g"]), loc(prog.funcs[e].sp))

    R, FR = it.explore(entries, finals=drop, check_exit=check_exit)
    for (h, h2) in FR:
        H2 = spec.thaw(h2)
        if H2["g"] in ("opened", "fresh"):
            it.report("leak at drop", "after Drop the writer session is still '%s': an opened writer never gets its terminal call "
                                      "(store before drop: %s)" % (H2["g"], spec.thaw(h)), loc(prog.funcs[drop[0]].sp))
    return it, spec, entries, R, FR


def run(ctx):
    prog = ctx.prog
    ctx.explanation = (
        "C09: the clause 'concatenated writes are a prefix of the content' is about bytes and is NOT decided.  Decided: R1 "
        "who-may-call for the five ObjectWriter methods and who-writes the session state; R2 typestate: the finite product "
        "ObjectReceiver.state x writer session (none/fresh/opened/completed/failed) is explored over ALL orders and repetitions "
        "of the crate-visible entry points followed by Drop, with method summaries; every ObjectWriter call is checked against "
        "the automaton open@fresh, write@opened, one terminal call @opened, nothing after, no opened writer left after Drop, "
        "and state Completed implies complete() was delivered or the builder answered ObjectAlreadyReceived; R3 complete only "
        "behind is_completed() and the MD5 comparison (shared with C03) or transfer_length == 0; R4 no leak primitives.")
    ctx.not_decided += ["concatenated writes form a prefix of the object's content (bytes)"]
    ctx.assume("user-supplied ObjectWriter / ObjectWriterBuilder implementations cannot re-enter the receiver (it is held by &mut and is !Sync)")

    # ---- R1 -------------------------------------------------------------------------------------
    r1 = ctx.rule("C09.R1", "ObjectWriter::open only from init_object_writer; write only from BlockWriter; complete only from "
                            "ObjectReceiver::complete; error/interrupted only from ObjectReceiver::error; the session state is written "
                            "only by init_object_writer/complete/error", "WMC+WWF")
    wmc(r1, prog, r"^receiver::writer::ObjectWriter::open$", [r"^receiver::objectreceiver::ObjectReceiver::init_object_writer$"])
    # (BlockWriter::write itself when the one-line helper write_pkt_cenc_null was folded into it)
    wmc(r1, prog, r"^receiver::writer::ObjectWriter::write$", [r"^receiver::blockwriter::BlockWriter::(write_pkt_cenc_null|decoder_read|write)$"])
    wmc(r1, prog, r"^receiver::writer::ObjectWriter::complete$", [r"^receiver::objectreceiver::ObjectReceiver::complete$"])
    wmc(r1, prog, r"^receiver::writer::ObjectWriter::(error|interrupted)$", [r"^receiver::objectreceiver::ObjectReceiver::error$"],
        skip_callers=[r" as receiver::writer::ObjectWriter>::"])
    wwf(r1, prog, OWS, "state", [r"^receiver::objectreceiver::ObjectReceiver::(init_object_writer|complete|error)$"], kinds=("assign", "assign_sub", "borrow_mut", "construct"))
    wwf(r1, prog, OR, "object_writer", [r"^receiver::objectreceiver::ObjectReceiver::(init_object_writer|new)$"], kinds=("assign", "construct"))
    wwf(r1, prog, OR, "state", [r"^receiver::objectreceiver::ObjectReceiver::"], kinds=("assign", "assign_sub", "borrow_mut", "construct"))
    r1.floor(10, "call sites and state writes")

    # ---- R2 -------------------------------------------------------------------------------------
    r2 = ctx.rule("C09.R2", "typestate of the writer session over all orders of the entry points (see explanation)", "E3 typestate")
    it, spec, entries, R, FR = typestate_run(ctx)
    ctx.analysed(*[k[0] for k in it.summaries])
    ctx.extra["states"] = len(R)
    ctx.extra["transitions"] = it.ntrans
    ctx.extra["typestate_entries"] = entries
    ctx.extra["typestate_reachable"] = [dict(spec.thaw(h)) for h in sorted(R, key=lambda z: tuple(str(v) for v in z))]
    for (key, msg, where, wit) in it.reports:
        r2.violation(key, "%s  [witness: %s]" % (msg, wit), where)
    seen = set(k for (k, _, _, _) in it.reports)
    for h in sorted(R, key=lambda z: tuple(str(v) for v in z)):
        r2.ok("reachable store %s" % (dict(spec.thaw(h)),), "explored with entries %s and Drop" % [e.split("::")[-1] for e in entries], "src/receiver/objectreceiver.rs")
    r2.floor(4, "reachable abstract stores")

    # ---- R3 -------------------------------------------------------------------------------------
    from . import c03
    r3 = ctx.rule("C09.R3", c03.R1_TEXT + "; the zero-length path completes only under transfer_length == 0", "DOM")
    c03.md5_gate_rule(ctx, r3)
    f = prog.fn(OR + "::push_to_block2")
    flow = Flow(f.body)
    for s in call_sites(f, lambda p, c: p == OR + "::complete"):
        fs = flow.facts_at(s.bb)
        if any(a[0] == "eq" and t and "transfer_length" in show(a[1]) + show(a[2]) and "0" in (show(a[1]), show(a[2])) for (a, t) in fs):
            r3.ok("push_to_block2 complete under transfer_length == 0", "", s.loc)
        else:
            r3.violation("push_to_block2 complete under transfer_length == 0", "complete() reachable in push_to_block2 without the zero-length test", s.loc)
    for s in find_calls(prog, r"^receiver::objectreceiver::ObjectReceiver::complete$"):
        caller = s.func.root().path
        key = "%s -> complete" % caller
        if caller in (OR + "::push_to_block2", OR + "::write_blocks"):
            r3.ok(key, "", s.loc)
        else:
            r3.violation(key, "complete() called from an unexpected place", s.loc)

    # ---- R4 -------------------------------------------------------------------------------------
    r4 = ctx.rule("C09.R4", "no mem::forget / ManuallyDrop / Box::leak / Rc cycles around ObjectReceiver or writers anywhere in the crate", "WMC (zero expected)")
    bad = find_calls(prog, r"(mem::forget|ManuallyDrop::new|Box::leak|Box::into_raw|Rc::into_raw|Arc::into_raw|mem::transmute)$")
    for s in bad:
        r4.violation("%s calls %s" % (s.func.root().path, model.short_callee(s.term.callee_path())), "leak primitive in the crate", s.loc)
    ty = field_type(prog, "receiver::receiver::Receiver", "objects")
    if "Box<receiver::objectreceiver::ObjectReceiver>" in ty or "ObjectReceiver" in ty:
        r4.ok("Receiver.objects owns its ObjectReceivers", ty[:100], "src/receiver/receiver.rs")
    r4.ok("leak primitives", "%d call sites (expected 0)" % len(bad), "crate-wide")

    # ---- R5 when the writer is created ----------------------------------------------------------------
    r5 = ctx.rule("C09.R5", "init_object_writer asks the builder for a writer only when no writer session exists yet and the FDT instance id, the "
                            "content encoding, the transfer length and the OTI are all known; open() is called only on the StoreObject answer; the "
                            "session is stored (object_writer = Some) before open() so that a failing open is reported through error()", "DOM")
    f = prog.fn(OR + "::init_object_writer")
    ctx.analysed(f.path)
    fl = Flow(f.body)
    news = call_sites(f, lambda p, c: p.endswith("ObjectWriterBuilder::new_object_writer"))
    opens = call_sites(f, lambda p, c: p.endswith("ObjectWriter::open"))
    if not news or not opens:
        raise model.AnchorMissing("init_object_writer: new_object_writer (%d) / open (%d) call sites" % (len(news), len(opens)))
    need = {"no writer yet": lambda a, t: a[0] == "variant" and show(a[1]) == "self.object_writer" and ((a[2] == "None") == t),
            "FDT instance id known": lambda a, t: a[0] == "variant" and show(a[1]) == "self.fdt_instance_id" and ((a[2] == "Some") == t),
            "content encoding known": lambda a, t: a[0] == "variant" and show(a[1]) == "self.cenc" and ((a[2] == "Some") == t),
            "transfer length known": lambda a, t: a[0] == "variant" and show(a[1]) == "self.transfer_length" and ((a[2] == "Some") == t),
            "OTI known": lambda a, t: a[0] == "variant" and show(a[1]) == "self.oti" and ((a[2] == "Some") == t)}
    for s in news:
        fs = fl.facts_at(s.bb)
        for nm, pred in sorted(need.items()):
            key = "init_object_writer -> new_object_writer: %s" % nm
            if any(pred(a, t) for (a, t) in fs):
                r5.ok(key, "", s.loc)
            else:
                r5.violation(key, "the builder is asked for a writer although `%s` is not established: the writer would be created from incomplete "
                                  "metadata (or a second writer for the same object)" % nm, s.loc)
    for s in opens:
        fs = fl.facts_at(s.bb)
        key = "init_object_writer -> open only on StoreObject"
        if any(a[0] == "variant" and a[2] == "StoreObject" and t and "new_object_writer" in show(a[1]) for (a, t) in fs):
            r5.ok(key, "", s.loc)
        else:
            r5.violation(key, "open() is not tied to the StoreObject answer of the builder", s.loc)
        stores = [a for a in field_accesses(prog, OR, "object_writer", funcs=[f]) if a["kind"] == "assign" and show(a["value"]).startswith("Option::Some")]
        key = "init_object_writer stores the session before open()"
        # `self.object_writer = Some(session)` or `self.object_writer.insert(session)`
        ins_bbs = [c_.bb for c_, ai_, mut_ in calls_on_field(prog, OR, "object_writer", funcs=[f]) if method_name(c_) == "insert"]
        if (stores or ins_bbs) and all(fl.dominates(a["bb"], s.bb) for a in stores) and all(fl.dominates(b_, s.bb) and b_ != s.bb for b_ in ins_bbs):
            r5.ok(key, "", s.loc)
        else:
            r5.violation(key, "open() runs before the session is stored: a failing open cannot be reported to the writer", s.loc)
    from . import c03 as _c03
    _c03.md5_switch_order(ctx, r5)
    r5.floor(8, "creation facts")

    # what the writer receives is a prefix of the *content*: the decoding parameters (content encoding, transfer length, OTI) the block writer
    # is created with come from the object's own packets / FDT entry and are not frozen early (shared with C01.R5 / C03.R6 / C16.R6)
    from . import c01 as _c01
    _c01.decoding_params_provenance(ctx, ctx.rule("C09.R6", "the bytes written are the content: " + _c01.DECODING_TEXT, "WWF + value provenance (shared with C01.R5)"))
