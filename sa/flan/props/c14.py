"""C14 — timing: never-early gates and degenerate inputs."""
import re

from ..rules import *  # noqa
from ..model import X, show, loc, walk
from ..cfg import Flow, Slicer, find_calls, call_sites
from .. import polarity

FD = "sender::filedesc::FileDesc"
TI = "sender::filedesc::TransferInfo"
SESSION = "sender::sendersession::SenderSession"


def _locals_of(op):
    """locals read by an operand (base local of its place and index locals)"""
    if op is None or op.place is None:
        return []
    return [op.place[0]] + [e[1] for e in op.place[1] if isinstance(e, tuple) and e and e[0] == "i"]


def never_early_table(ctx, r1):
    """decision table of should_transfer_now (shared with C12.R6)"""
    prog = ctx.prog
    f = prog.fn(FD + "::should_transfer_now")
    ctx.analysed(f.path)
    t = polarity.Table(f,
                       name_sign={"now_start": r"^now -start_time$|^-now \+?start_time$|now.*start_time", "elapsed": r"interval|duration_since\(&now",
                                  "cnt": r"max_transfer_count"},
                       name_bool={"start_some": r"(?<!last_)transfer_start_time is Some", "carousel": r"carousel_mode is Some",
                                  "last_end": r"last_transfer_end_time is Some", "last_start": r"last_transfer_start_time is Some"})
    need = ("now_start", "elapsed", "cnt", "start_some", "carousel", "last_end", "last_start")
    missing = [l for l in need if l not in t.labels_found()]
    if missing:
        raise model.AnchorMissing("should_transfer_now: comparisons %s not recognised (seen: %s ; %s)" % (
            missing, [polarity.show_key(k) for k in t.seen_sign], list(t.seen_bool)))
    o_now = _orient(t, "now_start", r"^now$")          # +1 if key == now - start_time
    o_el = _orient(t, "elapsed", r"last_transfer_interval|duration_since\(&now")  # +1 if key == elapsed - interval
    o_cnt = _orient(t, "cnt", r"max_transfer_count")

    def exp(sc):
        if sc["start_some"] and sc["now_start"] * o_now < 0:
            return False
        if sc["cnt"] * o_cnt <= 0 and sc["carousel"] and sc["last_end"] and sc["last_start"] and sc["elapsed"] * o_el <= 0:
            return False
        return None

    polarity.check_table(r1, t, exp, "should_transfer_now", loc(f.sp))
    r1.floor(50, "never-early scenarios")
    burst = [sc for sc in t.scenarios() if sc["cnt"] * o_cnt > 0 and sc["carousel"] and sc["last_end"] and sc["last_start"]
             and sc["elapsed"] * o_el <= 0 and not (sc["start_some"] and sc["now_start"] * o_now < 0)]
    if burst and any(True in set(r for r, _ in t.results(sc)) for sc in burst[:4]):
        r1.note("carousel burst", "with max_transfer_count >= 2 a carousel object is eligible again before the interval elapsed "
                                  "(transfers come in bursts of max_transfer_count); documented field semantics, not armed", loc(f.sp))



def run(ctx):
    prog = ctx.prog
    ctx.explanation = (
        "C14's pacing accuracy is a wall-clock property and is NOT decided.  Decided: R1 the never-early gates — "
        "should_transfer_now answers false whenever now < start_time and, in the carousel branch, whenever the elapsed time "
        "does not exceed the interval, the elapsed time being measured from the end (DelayBetweenTransfers) or the start "
        "(IntervalBetweenStartTimes) of the previous transfer; the pacing gate dominates encoder.read and the tick is "
        "advanced exactly on the packet-returning path; the tick is target / ceil(L/E); R2 the degenerate inputs named "
        "by the property cannot reach a panicking operation (division of a Duration by zero packets).")
    ctx.not_decided += ["accuracy of pacing / 'goes out at the first poll at or after its due time'",
                        "carousel objects with max_transfer_count >= 2 are sent in bursts of that many transfers "
                        "(documented behaviour of the field; printed as NOTE, not armed)"]

    # ---- R1a -----------------------------------------------------------------------------
    r1 = ctx.rule("C14.R1a", "should_transfer_now is false on every path when start_time is set and now < start_time, and when "
                             "(count exhausted, carousel set, previous times known) the elapsed time is <= interval", "E3 decision table")
    never_early_table(ctx, r1)
    f = prog.fn(FD + "::should_transfer_now")

    # which timestamp the elapsed time is measured from, per carousel mode
    r1b = ctx.rule("C14.R1b", "elapsed = now.duration_since(T) with T = last_transfer_end_time under DelayBetweenTransfers and "
                              "last_transfer_start_time under IntervalBetweenStartTimes", "ARG per arm")
    flow = Flow(f.body)
    sl = Slicer(f.body)
    want = {"DelayBetweenTransfers": "last_transfer_end_time", "IntervalBetweenStartTimes": "last_transfer_start_time"}
    found = 0
    # the elapsed time: now.duration_since(T); T's value is selected per carousel arm
    dcalls = call_sites(f, lambda p, c: p.endswith("SystemTime::duration_since"))
    now_name = f.body.names.get(4, "now")   # should_transfer_now(&self, priority, publish_mode, now)
    feeding = set()   # locals in the backward data slice of T
    for s in dcalls:
        key = "should_transfer_now elapsed definition"
        if show(polarity.strip(s.expr[2][0])) == now_name:
            r1b.ok(key, show(s.expr, 100), s.loc)
        else:
            r1b.violation(key, "elapsed time is %s, expected now.duration_since(<time of the previous transfer>)" % show(s.expr, 100), s.loc)
        work = [l for l in _locals_of(s.term.args[1])]
        while work:
            l = work.pop()
            if l in feeding:
                continue
            feeding.add(l)
            for (bb_, idx, kind) in f.body.defs().get(l, []):
                if idx == "term":
                    t_ = f.body.blocks[bb_].term
                    for a_ in t_.args:
                        work.extend(_locals_of(a_))
                else:
                    for o_ in f.body.blocks[bb_].stmts[idx].rv.ops:
                        work.extend(_locals_of(o_))
                    pl_ = f.body.blocks[bb_].stmts[idx].rv.place
                    if pl_ is not None:
                        work.append(pl_[0])
    if not dcalls:
        raise model.AnchorMissing("should_transfer_now: no SystemTime::duration_since call (elapsed time)")
    for blk in f.body.blocks:
        tt = blk.term
        if tt.k != "switch":
            continue
        for k in range(len(tt.targets) + 1):
            n = ("e", blk.i, k)
            vs = [a[2] for (a, tr) in flow.edge_facts(n) if a[0] == "variant" and tr and a[2] in want]
            if len(vs) != 1:
                continue
            v = vs[0]
            # blocks dominated by this edge: the values they contribute to T
            dom = [b.i for b in f.body.blocks if not b.cleanup and n in model.dom_chain(flow.idom(), ("b", b.i))]
            srcs = set()
            for bi in dom:
                for st in f.body.blocks[bi].stmts:
                    if st.k == "assign" and st.lhs[0] in feeding:
                        srcs |= set(z for z in leaves(sl.expand(sl.x.rvalue(st.rv, sl.x.depth))))
                t_ = f.body.blocks[bi].term
                if t_.k == "call" and t_.dest is not None and t_.dest[0] in feeding:
                    srcs |= set(z for z in leaves(sl.expand(sl.x.call_expr(bi, t_, sl.x.depth))))
            found += 1
            other = [w for kk, w in want.items() if kk != v][0]
            key = "should_transfer_now %s reference time" % v
            if any(want[v] in z for z in srcs) and not any(other in z for z in srcs):
                r1b.ok(key, "measured from %s" % want[v], loc(tt.sp))
            else:
                r1b.violation(key, "under %s the elapsed time is measured from {%s}, expected %s" % (
                    v, ", ".join(sorted(z for z in srcs if "last_transfer" in z)) or "?", want[v]), loc(tt.sp))
    r1b.floor(3, "carousel arms + elapsed definition")

    # ---- R1c pacing gate ------------------------------------------------------------------
    r1c = ctx.rule("C14.R1c", "in SenderSession::run, encoder.read is reached only when the object has no pacing timestamp or "
                              "next_timestamp <= now; inc_next_transfer_timestamp is called on every packet-returning path and on "
                              "no other", "MPT+PAIR")
    g = prog.fn(SESSION + "::run")
    ctx.analysed(g.path)
    gflow = Flow(g.body)
    gsl = Slicer(g.body)
    now_name = g.body.names.get(3, "now")   # run(&mut self, fdt, now): third parameter

    def pace_gate(n):
        if n[0] != "e":
            return False
        for (a, tr) in gflow.edge_facts(n):
            if a[0] == "variant" and any(c[0] == "call" and c[1].endswith("FileDesc::get_next_transfer_timestamp") for c in walk(gsl.expand(a[1]))):
                if (a[2] == "None" and tr) or (a[2] == "Some" and not tr):
                    return True
            if a[0] == "le" and tr and show(a[2]) == now_name:
                ex = gsl.expand(a[1])
                if any(c[0] == "call" and c[1].endswith("FileDesc::get_next_transfer_timestamp") for c in walk(ex)) and "@Some.0" in show(ex):
                    return True
        return False

    reads = call_sites(g, lambda p, c: p.endswith("sender::blockencoder::BlockEncoder::read"))
    for s in reads:
        ok, w = gflow.must_pass(0, [s.bb], pace_gate)
        # and from every loop iteration: from the block after release_file (continue)
        if ok:
            r1c.ok("run: pacing gate -> encoder.read", "", s.loc)
        else:
            r1c.violation("run: pacing gate -> encoder.read", "encoder.read reachable while next_timestamp > now: %s" % path_text(g.body, w), s.loc)
        # the timestamp compared is the one of the file being sent, read after the last get_next
        for gs in call_sites(g, lambda p, c: p.endswith("SenderSession::get_next")):
            ok2, w2 = gflow.must_pass(gs.term.target, [s.bb], pace_gate)
            if ok2:
                r1c.ok("run: get_next -> pacing gate -> encoder.read", "", s.loc)
            else:
                r1c.violation("run: get_next -> pacing gate -> encoder.read", "after picking a new object the pacing gate is skipped: %s" % path_text(g.body, w2), s.loc)
    incs = set(s.bb for s in call_sites(g, lambda p, c: p.endswith("FileDesc::inc_next_transfer_timestamp")))
    pk = ret_assign_blocks(g.body, lambda e: is_variant(e, "Some"))
    for bb, e in pk:
        ok, w = gflow.must_pass(0, [bb], lambda n: n[0] == "b" and n[1] in incs)
        if ok:
            r1c.ok("run: packet => tick advanced", "", loc(g.sp))
        else:
            r1c.violation("run: packet => tick advanced", "a packet is returned without advancing next_transfer_timestamp", loc(g.sp))
    for ib in incs:
        ok, w = gflow.postdominated_by(ib, lambda b: b in [x[0] for x in pk])
        if ok:
            r1c.ok("run: tick advanced => packet", "", loc(g.sp))
        else:
            r1c.violation("run: tick advanced => packet", "next_transfer_timestamp advanced on a path that returns no packet", loc(g.sp))
    r1c.floor(4, "pacing facts")

    # ---- R1d tick value ---------------------------------------------------------------------
    r1d = ctx.rule("C14.R1d", "packet_transmission_tick = target.div_f64(ceil(transfer_length / encoding_symbol_length)); the first "
                              "due time is the transfer start; tick() adds exactly the tick", "ARG")
    h = prog.fn(TI + "::init")
    ctx.analysed(h.path)
    hs = Slicer(h.body)
    # (the division may sit in a closure of init - `target.and_then(|d| ..)` - or be shared by both target kinds through a helper)
    divs = []
    for hp_ in prog.with_closures(h.path):
        divs += call_sites(prog.funcs[hp_], lambda p, c: p.endswith("Duration::div_f64"))
    _hs = {}
    _hf = {}
    for s in divs:
        hs_ = _hs.setdefault(s.func.path, Slicer(s.func.body))
        srcs = hs_.sources(s.expr[2][1])
        key = "TransferInfo::init div_f64 divisor"
        if any("transfer_length" in z for z in srcs) and any("encoding_symbol_length" in z for z in srcs) and any(z.endswith("div_ceil") for z in srcs):
            r1d.ok(key, show(s.expr[2][1], 80), s.loc)
        else:
            r1d.violation(key, "pacing divisor is %s, expected ceil(transfer_length / encoding_symbol_length)" % show(s.expr[2][1], 80), s.loc)
    r1d.floor(1, "div_f64 sites")
    for a in field_accesses(prog, TI, "next_transfer_timestamp", funcs=[h]):
        if a["kind"] == "assign":
            key = "TransferInfo::init next_transfer_timestamp"
            if show(a["value"]) in ("Option::Some{0: now}",):
                r1d.ok(key, "= Some(now)", loc(a["sp"]))
            else:
                r1d.violation(key, "first due time is %s, expected Some(now)" % show(a["value"], 60), loc(a["sp"]))
    tk = prog.fn(TI + "::tick", host_ok=True)    # (or the function it was folded into: the rule looks for the checked_add inside)
    ctx.analysed(tk.path)
    tks = Slicer(tk.body)
    adds = call_sites(tk, lambda p, c: re.search(r"SystemTime::(checked_add|add)$", p) is not None)
    for s in adds:
        key = "TransferInfo::tick step"
        # (`self.` inside TransferInfo::tick; `info.` - the write guard of the same struct - when tick was folded into FileDesc::inc_next_…)
        if re.search(r"^(self|RwLockWriteGuard::deref(_mut)?\(&\w+\))\.packet_transmission_tick@Some\.0$", show(tks.expand(s.expr[2][1]))):
            r1d.ok(key, show(s.expr, 80), s.loc)
        else:
            r1d.violation(key, "tick() advances by %s" % show(s.expr[2][1], 60), s.loc)

    # ---- R2 degenerate inputs -----------------------------------------------------------------
    r2 = ctx.rule("C14.R2", "every Duration::div_f64 / div_f32 / integer division on the transfer-start path has a divisor "
                            "guarded against zero (an empty object has zero packets)", "DOM (non-zero guard)")
    for s in divs:
        key = "TransferInfo::init div_f64 non-zero divisor"
        d = s.expr[2][1]
        hs_ = _hs.setdefault(s.func.path, Slicer(s.func.body))
        hflow = _hf.setdefault(s.func.path, Flow(s.func.body))
        fs = hflow.facts_at(s.bb)
        ok = False
        for (a, tr) in fs:
            txt = show(a[1]) + " " + show(a[2]) if a[0] in ("eq", "lt", "le") else ""
            if a[0] == "eq" and not tr and ("nb_packets" in txt or "transfer_length" in txt) and (show(a[2]) == "0" or show(a[1]) == "0"):
                ok = True
            if a[0] == "lt" and tr and show(a[1]) == "0" and ("nb_packets" in show(a[2]) or "transfer_length" in show(a[2])):
                ok = True
            if a[0] == "le" and tr and show(a[1]) == "1" and ("nb_packets" in show(a[2]) or "transfer_length" in show(a[2])):
                ok = True
        # divisor forced >= 1 by max(1)
        if any(c[0] == "call" and c[1].endswith("::max") and "1" in [show(z) for z in c[2]] for c in walk(hs_.expand(d))):
            ok = True
        if ok:
            r2.ok(key, "guarded", s.loc)
        else:
            r2.violation(key, "Duration::div_f64(%s): the divisor is 0 for an empty object (transfer_length == 0) and "
                              "div_f64 panics on a non-finite result; no dominating non-zero guard" % show(d, 60), s.loc)
    r2.floor(1, "division sites in TransferInfo::init")

    # ---- R3 last-transfer timestamps --------------------------------------------------------------
    r3 = ctx.rule("C14.R3", "the timestamps the carousel gap is measured from are written only where a transfer starts / ends: "
                            "last_transfer_start_time = Some(now) in TransferInfo::init, last_transfer_end_time = Some(now) in "
                            "TransferInfo::done; the only other writer, FileDesc::reset_last_transfer (both = None, an explicit "
                            "trigger), is called only from Fdt::trigger_transfer_at on a path where the object is not being "
                            "transferred (a reset in mid-transfer would let done() restore only the end time and restart at once)",
                  "WWF+WMC+DOM")
    allowed = {"last_transfer_start_time": {TI + "::init": "Option::Some{0: now}", FD + "::reset_last_transfer": "Option::None{}"},
               "last_transfer_end_time": {TI + "::done": "Option::Some{0: now}", FD + "::reset_last_transfer": "Option::None{}"}}
    # a writer that was folded into its only caller keeps its role under the caller's name (Program.folded)
    HOST = {host_: f_ for f_, host_ in prog.folded().items()}
    for fld, tab in sorted(allowed.items()):
        for k_ in list(tab):
            if prog.folded().get(k_):
                tab[prog.folded()[k_]] = tab[k_]
        for a in field_accesses(prog, TI, fld):
            if a["kind"] not in ("assign", "assign_sub", "borrow_mut"):
                continue
            caller = a["func"].root().path
            key = "%s writes TransferInfo.%s" % ("::".join(caller.split("::")[-2:]), fld)
            if caller in tab and a["kind"] == "assign" and show(a["value"]) == tab[caller]:
                r3.ok(key, "= %s" % tab[caller], loc(a["sp"]))
            else:
                r3.violation(key, "%s %s = %s; allowed writers: %s" % (caller, a["kind"], show(a["value"], 60), sorted(tab.items())), loc(a["sp"]))
    wmc(r3, prog, r"^sender::filedesc::FileDesc::reset_last_transfer$", [r"^sender::fdt::Fdt::trigger_transfer_at$"])
    tg = prog.fn("sender::fdt::Fdt::trigger_transfer_at")
    ctx.analysed(tg.path)
    tfl = Flow(tg.body)
    for s in call_sites(tg, lambda p, c: p == FD + "::reset_last_transfer"):
        key = "trigger_transfer_at: reset only when not transferring"
        fs = tfl.facts_at(s.bb)
        if any(a[0] == "true" and not t and any(c[0] == "call" and c[1].endswith("FileDesc::is_transferring") for c in walk(a[1])) for (a, t) in fs):
            r3.ok(key, "dominated by !file.is_transferring()", s.loc)
        else:
            r3.violation(key, "reset_last_transfer can run while the object is being transferred (no dominating !is_transferring()): "
                              "the running transfer's done() restores only the end time, should_transfer_now sees a missing start "
                              "time and the carousel object restarts without its delay", s.loc)
    # is_transferring reads the flag that init sets and done clears
    it = prog.fn(FD + "::is_transferring")
    rets = ret_assign_blocks(it.body, lambda e: True)
    if rets and all(re.search(r"\.transferring$", show(Slicer(it.body).expand(e), 200)) for _, e in rets):
        r3.ok("is_transferring returns TransferInfo.transferring", "", loc(it.sp))
    else:
        r3.violation("is_transferring returns TransferInfo.transferring", "returns %s" % [show(e, 60) for _, e in rets], loc(it.sp))
    for a in field_accesses(prog, TI, "transferring"):
        if a["kind"] not in ("assign", "assign_sub", "borrow_mut"):
            continue
        caller = a["func"].root().path
        key = "%s writes TransferInfo.transferring" % "::".join(caller.split("::")[-2:])
        want = {TI + "::init": "True", TI + "::done": "False"}
        for k_ in list(want):
            if prog.folded().get(k_):
                want[prog.folded()[k_]] = want[k_]
        if want.get(caller) == show(a["value"]):
            r3.ok(key, "= %s" % show(a["value"]), loc(a["sp"]))
        else:
            r3.violation(key, "transferring = %s in %s" % (show(a["value"], 40), caller), loc(a["sp"]))
    r3.floor(8, "timestamp discipline facts")



def _orient(t, label, positive_leaf_regex):
    for k, lab in t.seen_sign.items():
        if lab == label:
            for n, v in k[0]:
                if re.search(positive_leaf_regex, n):
                    return 1 if v > 0 else -1
    return 1
