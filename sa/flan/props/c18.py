"""C18 — demultiplexing, TSI filter, listener events."""
import re

from ..rules import *  # noqa
from ..model import X, show, loc, walk
from ..cfg import Flow, Slicer, find_calls, call_sites

MR = "receiver::multireceiver::MultiReceiver"
RE = "receiver::multireceiver::ReceiverEndpoint"
TF = "receiver::tsifilter::TSIFilter"
TSI = "receiver::tsifilter::TSI"


def run(ctx):
    prog = ctx.prog
    ctx.explanation = (
        "C18: interleaving independence as behaviour and reference-count arithmetic over add/remove sequences are NOT decided. "
        "Decided: R1 the routing key is (endpoint parameter, TSI parsed from the packet) with derived Hash/Eq over both fields, "
        "and a Receiver is built with exactly its key; R2 with filtering enabled every path to a receiver lookup passes the "
        "accepting edge of TSIFilter::is_valid(endpoint, tsi); R3 on_session_open only when a receiver is created; every "
        "removal from the session map is paired with on_session_closed for the removed keys, and when the removal predicate "
        "reads a clock the notified set and the removed set come from ONE evaluation; R4 the two reference-count tables have "
        "the same shape.")
    ctx.not_decided += ["isolation of sessions as observable behaviour over all interleavings", "reference-count semantics over all add/remove sequences"]

    # ---- R1 ----------------------------------------------------------------------------------
    r1 = ctx.rule("C18.R1", "MultiReceiver::push builds ReceiverEndpoint{endpoint: endpoint.clone(), tsi: alc.lct.tsi}; "
                            "ReceiverEndpoint derives Hash, PartialEq, Eq; Receiver::new gets key.endpoint and key.tsi", "ARG+TYP")
    f = prog.fn(MR + "::push")
    ctx.analysed(f.path)
    sl = Slicer(f.body)
    n = 0
    for blk in f.body.blocks:
        if blk.cleanup:
            continue
        for s in blk.stmts:
            if s.k == "assign" and s.rv.k == "aggr" and s.rv.j.get("adt") == RE:
                names = s.rv.j["fnames"]
                e1 = sl.sources(sl.x.operand(s.rv.ops[names.index("endpoint")]))
                e2 = sl.expand(sl.x.operand(s.rv.ops[names.index("tsi")]))
                n += 1
                ok1 = "var:endpoint" in e1 and not any(z.startswith("var:alc") for z in e1)
                ok2 = re.search(r"\.lct\.tsi$", show(e2)) is not None and "parse_alc_pkt" in show(e2, 400)
                if ok1 and ok2:
                    r1.ok("push key = (endpoint, alc.lct.tsi)", "", loc(s.sp))
                else:
                    r1.violation("push key = (endpoint, alc.lct.tsi)", "routing key built from endpoint<-%s tsi<-%s" % (sorted(z for z in e1 if z.startswith("var:")), show(e2, 80)), loc(s.sp))
    if n == 0:
        raise model.AnchorMissing("MultiReceiver::push builds no ReceiverEndpoint")
    derived = {}
    for imp in prog.impls:
        if imp["self_ty"] == RE and "trait" in imp:
            derived[imp["trait"].split("::")[-1]] = imp["derived"]
    for tr in ("Hash", "PartialEq", "Eq"):
        if derived.get(tr) is True:
            r1.ok("ReceiverEndpoint derives %s" % tr, "", "src/receiver/multireceiver.rs")
        else:
            r1.violation("ReceiverEndpoint derives %s" % tr, "hand-written or missing %s: keys may collide or split sessions" % tr, "src/receiver/multireceiver.rs")
    fields = [fl["name"] for v in prog.adt(RE)["variants"] for fl in v["fields"]]
    if sorted(fields) == ["endpoint", "tsi"]:
        r1.ok("ReceiverEndpoint fields", "endpoint, tsi", "src/receiver/multireceiver.rs")
    else:
        r1.violation("ReceiverEndpoint fields", "key has fields %s" % fields, "src/receiver/multireceiver.rs")
    for s in find_calls(prog, r"^receiver::receiver::Receiver::new$"):
        caller = s.func.root().path
        if not caller.startswith(MR):
            continue
        a0, a1 = show(s.expr[2][0]), show(s.expr[2][1])
        key = "%s Receiver::new(%s, %s)" % (caller.split("::")[-1], a0, a1)
        if re.search(r"key\.endpoint$", a0) and re.search(r"key\.tsi$", a1):
            r1.ok(key, "", s.loc)
        else:
            r1.violation(key, "receiver created with something other than its key", s.loc)
    # the map is keyed by the key passed in
    for nm in ("get_receiver", "get_receiver_or_create"):
        g = prog.funcs.get(MR + "::" + nm)
        if g is None:
            if nm == "get_receiver":
                continue   # optional helper (lookup without creation); its absence is not a finding
            raise model.AnchorMissing("MultiReceiver::get_receiver_or_create not found")
        gs = Slicer(g.body)
        for s, ai, mut in calls_on_field(prog, MR, "alc_receiver", funcs=[g]):
            m = method_name(s)
            if m in ("get_mut", "entry", "get"):
                srcs = gs.sources(s.expr[2][1])
                if "var:key" in srcs:
                    r1.ok("%s looks up `key`" % nm, "", s.loc)
                else:
                    r1.violation("%s looks up `key`" % nm, "lookup by %s" % show(s.expr[2][1], 40), s.loc)
    r1.floor(7, "routing facts")

    # ---- R2 ----------------------------------------------------------------------------------
    r2 = ctx.rule("C18.R2", "with enable_tsi_filtering, every path in MultiReceiver::push to get_receiver / get_receiver_or_create "
                            "passes the true edge of tsifilter.is_valid(endpoint, alc.lct.tsi)", "MPT under assumption")
    flow = Flow(f.body)

    def contra(fact):
        (a, t) = fact
        if a[0] == "true" and show(a[1]) == "self.enable_tsi_filtering" and not t:
            return False
        return None

    flow.assume(contra)

    def gate(n):
        if n[0] != "e":
            return False
        for (a, t) in flow.edge_facts(n):
            if a[0] == "true" and t:
                ex = sl.expand(a[1])
                cs = [c for c in walk(ex) if c[0] == "call" and c[1] == TF + "::is_valid"]
                if cs and show(cs[0][2][1]) in ("endpoint", "&endpoint") and re.search(r"\.lct\.tsi$", show(sl.expand(cs[0][2][2]))):
                    return True
        return False

    targets = call_sites(f, lambda p, c: p in (MR + "::get_receiver", MR + "::get_receiver_or_create"))
    for s in targets:
        ok, w = flow.must_pass(0, [s.bb], gate)
        key = "push -> %s" % s.term.callee_path().split("::")[-1]
        if ok:
            r2.ok(key, "behind is_valid(endpoint, tsi) == true", s.loc)
        else:
            r2.violation(key, "a packet reaches a session although filtering is enabled and the filter was not consulted / said no: %s" % path_text(f.body, w), s.loc)
    r2.floor(2, "dispatch sites")
    # is_valid decision: bypass || tsi table hit
    iv = prog.fn(TF + "::is_valid")
    ctx.analysed(iv.path)
    from .. import polarity
    t = polarity.Table(iv, name_bool={"bypass": r"contains_key\(&self\.endpoint_bypass", "tsi_some": r"HashMap::get\(&self\.tsi, &tsi\) is Some"})
    need = [l for l in ("bypass", "tsi_some") if l not in t.labels_found()]
    if need:
        raise model.AnchorMissing("TSIFilter::is_valid: conditions %s not found (%s)" % (need, list(t.seen_bool)))
    for sc in t.scenarios():
        rets = set(r for r, _ in t.results(sc))
        key = "is_valid [%s]" % ", ".join("%s=%s" % kv for kv in sorted(sc.items()))
        if sc["bypass"]:
            exp = {True}
        elif not sc["tsi_some"]:
            exp = {False}
        else:
            exp = None
        if exp is None:
            if all(isinstance(r, tuple) and "TSI::is_valid" in r[1] for r in rets):
                r2.ok(key, "delegates to TSI::is_valid(endpoint)", loc(iv.sp))
            else:
                r2.violation(key, "returns %s instead of the per-TSI endpoint test" % sorted(map(str, rets)), loc(iv.sp))
        elif rets == exp:
            r2.ok(key, "returns %s" % exp, loc(iv.sp))
        else:
            r2.violation(key, "returns %s, expected %s" % (sorted(map(str, rets)), exp), loc(iv.sp))

    # ---- R3 ----------------------------------------------------------------------------------
    r3 = ctx.rule("C18.R3", "on_session_open only inside the or_insert_with closure of get_receiver_or_create; every function that "
                            "removes entries from alc_receiver notifies on_session_closed for the removed keys; a time-dependent "
                            "removal predicate is evaluated once for both the notified and the removed set", "PAIR+WMC")
    for s in find_calls(prog, r"^receiver::multireceiver::MultiReceiverListener::on_session_open$"):
        root = s.func.root().path
        key = "%s -> on_session_open" % root
        inside = s.func.kind == "closure" and root == MR + "::get_receiver_or_create"
        if inside:
            # the closure is the or_insert_with argument
            g = prog.fn(root)
            okc = any(any(z[0] == "closure" and z[1] == s.func.path for z in walk(cs.expr)) for cs in call_sites(g, lambda p, c: p.endswith("Entry::or_insert_with")))
            if okc:
                r3.ok(key, "inside or_insert_with(|| ..) — runs only when the session is created", s.loc)
            else:
                r3.violation(key, "open notification not tied to session creation", s.loc)
        elif root == MR + "::get_receiver_or_create" and s.func.kind != "closure" and any(
                a[0] == "variant" and a[2] == "Vacant" and t and any(c[0] == "call" and c[1].endswith("::entry") and "alc_receiver" in show(c[2][0]) for c in walk(a[1]))
                for (a, t) in Flow(s.func.body).facts_at(s.bb)):
            # the same thing spelled as `match map.entry(k) { Vacant(e) => { notify; e.insert(..) } .. }`
            r3.ok(key, "inside the Entry::Vacant arm of alc_receiver.entry(..) - runs only when the session is created", s.loc)
        else:
            r3.violation(key, "on_session_open called outside session creation", s.loc)
    removers = {}
    for s, ai, mut in calls_on_field(prog, MR, "alc_receiver"):
        m = method_name(s)
        if m in ("remove", "retain", "clear", "drain", "remove_entry", "extract_if", "pop_first", "pop_last"):
            removers.setdefault(s.func.root().path, []).append((s, m))
    drop = [p for p in prog.funcs if re.match(r"^<receiver::multireceiver::MultiReceiver as (std|core)::ops::Drop>::drop$", p)]
    for p in drop:
        removers.setdefault(p, []).append((None, "drop"))
    for fn, lst in sorted(removers.items()):
        g = prog.fn(fn)
        ctx.analysed(fn)
        gfl = Flow(g.body)
        closed = []
        for cp in prog.with_closures(fn):
            closed += call_sites(prog.funcs[cp], lambda p, c: p == "receiver::multireceiver::MultiReceiverListener::on_session_closed")
        for (s, m) in lst:
            key = "%s removes sessions (%s)" % (fn.split("::")[-1] if "Drop" not in fn else "Drop::drop", m)
            where = s.loc if s else loc(g.sp)
            if not closed:
                r3.violation(key, "sessions are removed without any on_session_closed notification", where)
                continue
            if m == "remove":
                # close notification after the remove on every path, with the same key
                cb = set(c.bb for c in closed if c.func.path == fn)
                # the notification runs in `for listener in self.listeners.values()`: the loop head stands for its body
                gsl = Slicer(g.body)
                from ..loops import natural_loops
                for h, blocks, srcs in natural_loops(g.body):
                    if cb & set(blocks):
                        for nb in blocks:
                            tt = g.body.blocks[nb].term
                            if tt.k == "call" and (tt.callee_path() or "").endswith("::next") and \
                                    any(z.startswith("var:self.listeners") for z in gsl.sources(gsl.x.call_expr(nb, tt, gsl.x.depth))):
                                cb.add(nb)
                ok, w = gfl.postdominated_by(s.bb, lambda b: b in cb)
                same = any(show(c.expr[2][1]) == show(s.expr[2][1]) for c in closed)
                if ok and same:
                    r3.ok(key, "followed by on_session_closed(&key)", where)
                else:
                    r3.violation(key, "a session can be removed without the matching close event", where)
            elif m == "retain":
                # predicate of retain vs predicate used to build the notified list
                pred_cl = [z[1] for z in walk(s.expr) if z[0] == "closure"]
                timey = any(reads_clock(prog, c) for c in pred_cl)
                if not timey:
                    r3.ok(key, "predicate does not read a clock; notification list built in the same function", where)
                else:
                    # single evaluation: the retained/removed decision must come from a collected set, i.e. the closure must not
                    # itself call the clock-reading predicate
                    r3.violation(key, "the removal predicate reads a clock (Instant::elapsed via Receiver::is_expired) and is evaluated "
                                      "separately for the notification list and for retain(): a session expiring between the two "
                                      "evaluations is removed without on_session_closed", where)
            elif m == "drop":
                ks = [c for c in closed]
                if ks:
                    r3.ok(key, "Drop notifies on_session_closed for every key", where)
            else:
                r3.violation(key, "unreviewed removal primitive %s" % m, where)
    # converse: a close event is only sent for a session that existed and was removed - in MultiReceiver::push (close-session
    # packet) the notification must be dominated by "a receiver was found / removed for this key"
    pf = prog.fn(MR + "::push")
    pfl = Flow(pf.body)
    psl = Slicer(pf.body)

    def existed_fact(fa):
        (a, t) = fa
        if a[0] == "variant" and ((a[2] == "Some") == t):
            txt = show(psl.expand(a[1]), 300)
            if re.search(r"MultiReceiver::get_receiver\(|HashMap::(remove|get|get_mut|remove_entry)\(&(mut )?self\.alc_receiver", txt):
                return True
        if a[0] == "true" and t and re.search(r"HashMap::contains_key\(&self\.alc_receiver", show(psl.expand(a[1]), 300)):
            return True
        return False

    def flag_locals():
        """boolean locals that are set to true only where the session is known to exist (e.g. `remove_session`)"""
        out = set()
        for name, defs in psl.var_defs().items():
            vals = [(proj, e, bb) for (proj, e, bb) in defs if proj == ""]
            if not vals or not all(e[0] == "const" and isinstance(e[2], bool) for _, e, _ in vals):
                continue
            trues = [bb for _, e, bb in vals if e[2] is True]
            if trues and all(any(existed_fact(x) for x in pfl.facts_at(bb)) for bb in trues):
                out.add(name)
        return out
    flags = flag_locals()
    closes_in_push = []
    for cp in prog.with_closures(pf.path):
        closes_in_push += [c for c in call_sites(prog.funcs[cp], lambda p, c: p == "receiver::multireceiver::MultiReceiverListener::on_session_closed")]
    for c in closes_in_push:
        key = "push: on_session_closed only for a session that existed"
        if c.func.path != pf.path:
            r3.violation(key, "close notification issued from a closure of push(): cannot relate it to the removal", c.loc)
            continue
        fs = pfl.facts_at(c.bb)
        ok = any(existed_fact(x) for x in fs) or any(a[0] == "true" and t and a[1][0] == "var" and not a[1][2] and a[1][1] in flags for (a, t) in fs)
        if ok:
            r3.ok(key, "dominated by the lookup/removal having found the session", c.loc)
        else:
            r3.violation(key, "a close-session packet for an (endpoint, TSI) without a live session (repeated close packet, late joiner, "
                              "expired session) makes listeners see on_session_closed without a matching on_session_open", c.loc)
    r3.floor(5, "open site + removal sites + close guard")

    # ---- R4 ----------------------------------------------------------------------------------
    r4 = ctx.rule("C18.R4", "TSIFilter::{add_endpoint_bypass, remove_endpoint_bypass} and TSI::{add, remove} share one shape: "
                            "existing -> += 1 | insert 1 ; count > 1 -> -= 1 | remove", "SIB (feature vectors)")
    pairs = [((TF + "::add_endpoint_bypass", "endpoint_bypass"), (TSI + "::add", "endpoints")),
             ((TF + "::remove_endpoint_bypass", "endpoint_bypass"), (TSI + "::remove", "endpoints"))]
    for (a, fa), (b, fb) in pairs:
        va, vb = feature_vector(prog, a), feature_vector(prog, b)
        key = "%s ~ %s" % (a.split("::")[-1], b.split("::")[-1])
        if va == vb:
            r4.ok(key, str(va), loc(prog.fn(a).sp))
        else:
            r4.violation(key, "sibling reference-count functions differ: %s vs %s" % (va, vb), loc(prog.fn(b).sp))
    # add: insert constant 1 / increment by 1 ; remove: decrement only when > 1
    for fn in (TF + "::add_endpoint_bypass", TSI + "::add"):
        g = prog.fn(fn)
        x = X(g.body)
        ins = [s for s in call_sites(g, lambda p, c: p.endswith("HashMap::insert"))]
        if ins and all(show(s.expr[2][2]) == "1" for s in ins):
            r4.ok("%s inserts count 1" % fn.split("::")[-1], "", ins[0].loc)
        else:
            r4.violation("%s inserts count 1" % fn.split("::")[-1], "initial count is not 1", loc(g.sp))
    for fn in (TF + "::remove_endpoint_bypass", TSI + "::remove"):
        g = prog.fn(fn)
        gfl = Flow(g.body)
        rm = [s for s in call_sites(g, lambda p, c: p.endswith("HashMap::remove"))]
        okr = rm and all(any(a[0] == "le" and t and show(a[2]) == "1" for (a, t) in gfl.facts_at(s.bb)) for s in rm)
        if okr:
            r4.ok("%s removes the entry only at count <= 1" % fn.split("::")[-1], "", rm[0].loc)
        else:
            r4.violation("%s removes the entry only at count <= 1" % fn.split("::")[-1], "entry removed while other listeners remain (or never removed)", loc(g.sp))
    r4.floor(6, "refcount facts")

    # ---- R6 listener registry ----------------------------------------------------------------------------
    r6 = ctx.rule("C18.R6", "listener ids are never reused while a listener is registered: add_listener keys the registry with a value read from a "
                            "MultiReceiver field that is written nowhere but in add_listener, as old + 1 (a monotone counter) - not with something that "
                            "shrinks when a listener is removed, such as the registry's size; remove_listener removes the given id only", "WWF + ARG")
    al = prog.fn([p_ for p_ in prog.funcs if re.match(r"^" + re.escape(MR) + r"::add_listener", p_) and prog.funcs[p_].kind != "closure"][0])
    ctx.analysed(al.path)
    asl = Slicer(al.body)
    ins = [s for s, ai, mut in calls_on_field(prog, MR, "listeners", funcs=[al]) if method_name(s) == "insert"]
    if not ins:
        raise model.AnchorMissing("add_listener does not insert into MultiReceiver.listeners")
    for s in ins:
        kex = asl.expand(s.expr[2][1])
        ksrc = set(show(c) for c in walk(kex) if c[0] == "var")
        flds = sorted(set(re.match(r"self\.(\w+)", z).group(1) for z in ksrc if re.match(r"self\.(\w+)", z)))
        calls_ = sorted(set(c[1].split("::")[-1] for c in walk(kex) if c[0] == "call"))
        key = "add_listener key"
        counters = []
        for fld in flds:
            ws = [a for a in field_accesses(prog, MR, fld) if a["kind"] in ("assign", "assign_sub", "borrow_mut")]
            mono = ws and all(a["func"].root().path == al.path and a["kind"] == "assign" and a["value"][0] == "bin" and a["value"][1].startswith("Add") and
                              show(a["value"][2]) == "self." + fld and show(a["value"][3]) == "1" for a in ws)
            if mono:
                counters.append(fld)
        if counters and not calls_ and not any(f_ == "listeners" for f_ in flds):
            r6.ok(key, "from the monotone counter self.%s" % counters[0], s.loc)
        else:
            r6.violation(key, "the registry key derives from %s: an id can be handed out again while its previous holder is still registered (HashMap::insert "
                              "then silently replaces that listener, which stops receiving close events)" % (calls_ + ["self." + f_ for f_ in flds] or sorted(ksrc)[:4]), s.loc)
    rl = prog.fn(MR + "::remove_listener")
    rm = [s for s, ai, mut in calls_on_field(prog, MR, "listeners", funcs=[rl]) if method_name(s) in ("remove", "retain", "clear")]
    if len(rm) == 1 and method_name(rm[0]) == "remove" and re.sub(r"[&()]", "", show(rm[0].expr[2][1])) == "id":
        r6.ok("remove_listener", "listeners.remove(&id)", rm[0].loc)
    else:
        r6.violation("remove_listener", "removes %s" % [(method_name(s), show(s.expr[2][1], 30)) for s in rm], loc(rl.sp))
    r6.floor(2, "listener registry facts")

    # ---- R5 filter bookkeeping ---------------------------------------------------------------------------
    r5 = ctx.rule("C18.R5", "TSI filter bookkeeping: the four MultiReceiver filter calls hand their own (endpoint, tsi) to the matching TSIFilter method; "
                            "TSIFilter::add adds a reference to a known TSI or inserts TSI::new(endpoint) (= one reference); TSIFilter::remove removes one "
                            "reference and drops the TSI entry exactly when it is empty; TSI::is_valid accepts the exact endpoint or the same endpoint "
                            "registered without a source address, wildcarding nothing else", "ARG + DOM")
    filter_bookkeeping_rule(ctx, r5)
    r5.floor(9, "filter bookkeeping facts")


def reads_clock(prog, fpath, depth=0, seen=None):
    seen = seen or set()
    if fpath in seen or fpath not in prog.funcs or depth > 6:
        return False
    seen.add(fpath)
    f = prog.funcs[fpath]
    for bb, t in f.body.calls():
        cp = norm_path(t.callee_path() or "")
        if re.search(r"time::Instant::(elapsed|now)$|time::SystemTime::(now|elapsed)$", cp):
            return True
        for tp in prog.callee_targets(t.callee())[0]:
            if reads_clock(prog, tp, depth + 1, seen):
                return True
    for cp in prog.closures_of.get(fpath, []):
        if reads_clock(prog, cp, depth + 1, seen):
            return True
    return False


def feature_vector(prog, path):
    f = prog.fn(path)
    x = X(f.body)
    calls = []
    arith = []
    for blk in f.body.blocks:
        if blk.cleanup:
            continue
        for s in blk.stmts:
            if s.k == "assign" and s.rv.k == "bin" and s.rv.j["op"] in ("AddWithOverflow", "SubWithOverflow", "Add", "Sub", "Gt", "Lt", "Ge", "Le", "Eq"):
                arith.append("%s %s" % (s.rv.j["op"].replace("WithOverflow", ""), show(x.operand(s.rv.ops[1]))))
        t = blk.term
        if t.k == "call":
            cp = norm_path(t.callee_path() or "")
            if "HashMap" in cp:
                calls.append(cp.split("::")[-1])
    return (tuple(sorted(calls)), tuple(sorted(set(arith))))


def filter_bookkeeping_rule(ctx, rule):
    from ..cfg import strip_ref
    prog = ctx.prog
    # public API -> filter with the same arguments
    for api, callee, nargs in (("add_listen_tsi", "add", 2), ("remove_listen_tsi", "remove", 2),
                               ("add_listen_all_tsi", "add_endpoint_bypass", 1), ("remove_listen_all_tsi", "remove_endpoint_bypass", 1)):
        f = prog.fn(MR + "::" + api)
        ctx.analysed(f.path)
        cs = call_sites(f, lambda p, c: p.startswith(TF + "::"))
        key = "MultiReceiver::%s -> TSIFilter::%s" % (api, callee)
        want = ["endpoint", "tsi"][:nargs]
        if len(cs) == 1 and cs[0].term.callee_path() == TF + "::" + callee and [re.sub(r"[&*()]", "", show(strip_ref(a))) for a in cs[0].expr[2][1:]] == want:
            # ... on every path: an add that is skipped while filtering is switched off is lost when it is switched on afterwards, although
            # the matching remove still counts
            afl = Flow(f.body)
            uncond, _w = afl.postdominated_by(0, lambda b, c0=cs[0].bb: b == c0) if cs[0].bb != 0 else (True, None)
            if uncond:
                rule.ok(key, "(%s), on every path" % ", ".join(want), cs[0].loc)
            else:
                rule.violation(key, "the filter is updated on some paths only: registrations made on the other paths are not counted, so 'added more "
                                    "often than removed' no longer means the packet is processed", cs[0].loc)
        else:
            rule.violation(key, "calls %s" % [(c.term.callee_path().split("::")[-1], [show(a, 20) for a in c.expr[2][1:]]) for c in cs], loc(f.sp))
    # TSIFilter::add: existing TSI -> TSI::add(endpoint), otherwise insert(tsi, TSI::new(endpoint))
    f = prog.fn(TF + "::add")
    fl = Flow(f.body)
    adds = call_sites(f, lambda p, c: p == TSI + "::add")
    news = call_sites(f, lambda p, c: p == TSI + "::new")
    ins = call_sites(f, lambda p, c: p.endswith("HashMap::insert"))
    ok = bool(adds) and bool(news) and bool(ins)
    for s in adds:
        if not any(a[0] == "variant" and a[2] == "Some" and t and "self.tsi" in show(a[1]) for (a, t) in fl.facts_at(s.bb)) or show(strip_ref(s.expr[2][1])) != "endpoint":
            ok = False
    for s in ins:
        if not any(a[0] == "variant" and a[2] == "None" and t and "self.tsi" in show(a[1]) for (a, t) in fl.facts_at(s.bb)):
            ok = False
        if show(strip_ref(s.expr[2][1])) != "tsi" or "TSI::new(endpoint)" not in show(s.expr[2][2]):
            ok = False
    if ok:
        rule.ok("TSIFilter::add", "known TSI -> TSI::add(endpoint) ; unknown -> insert(tsi, TSI::new(endpoint))", loc(f.sp))
    else:
        rule.violation("TSIFilter::add", "does not follow: known TSI -> TSI::add(endpoint), unknown -> insert(tsi, TSI::new(endpoint))", loc(f.sp))
    g = prog.fn(TSI + "::new")
    gi = call_sites(g, lambda p, c: p.endswith("HashMap::insert"))
    if len(gi) == 1 and show(strip_ref(gi[0].expr[2][1])) == "endpoint" and show(gi[0].expr[2][2]) == "1":
        rule.ok("TSI::new", "endpoints = {endpoint: 1}", gi[0].loc)
    else:
        rule.violation("TSI::new", "a new TSI entry does not start with exactly one reference of its endpoint", loc(g.sp))
    # TSIFilter::remove: per-TSI remove, TSI entry dropped only when it is empty
    f = prog.fn(TF + "::remove")
    fl = Flow(f.body)
    rms = call_sites(f, lambda p, c: p == TSI + "::remove")
    drops = [s for s in call_sites(f, lambda p, c: p.endswith("HashMap::remove")) if "self.tsi" in show(s.expr[2][0])]
    ok = bool(rms) and bool(drops) and all(show(strip_ref(s.expr[2][1])) == "endpoint" for s in rms)
    for s in drops:
        # `if entry.is_empty()` through the accessor TSI::is_empty, or - when that one-line accessor was folded into this function - the test
        # `entry.endpoints.is_empty()` itself
        if not any(a[0] == "true" and t and ("TSI::is_empty" in show(a[1]) or re.search(r"::is_empty\(&?[\w~.()&@:]*\.endpoints\)$", show(a[1], 200)))
                   for (a, t) in fl.facts_at(s.bb)) or re.sub(r"[&()]", "", show(s.expr[2][1])) != "tsi":
            ok = False
        if not all(r.bb != s.bb and fl.dominates(r.bb, s.bb) for r in rms):
            ok = False
    if ok:
        rule.ok("TSIFilter::remove", "TSI::remove(endpoint), then drop the TSI entry iff it is empty", loc(f.sp))
    else:
        rule.violation("TSIFilter::remove", "the TSI entry is not dropped exactly when its last endpoint reference goes (or another key is removed)", loc(f.sp))
    ie = prog.funcs.get(TSI + "::is_empty")
    if ie is None:
        # the accessor was folded into its only user (checked just above on the test itself)
        rets = []
        rule.ok("TSI::is_empty", "folded into TSIFilter::remove", loc(f.sp))
    else:
        rets = ret_assign_blocks(ie.body, lambda e: True)
    if ie is None:
        pass
    elif rets and all(e[0] == "call" and e[1].endswith("::is_empty") and "self.endpoints" in show(e[2][0]) for _, e in rets):
        rule.ok("TSI::is_empty", "endpoints.is_empty()", loc(ie.sp))
    else:
        rule.violation("TSI::is_empty", "returns %s" % [show(e, 50) for _, e in rets], loc(ie.sp))
    # TSI::is_valid: exact endpoint, or the same endpoint without a source address - nothing else is wildcarded
    iv = prog.fn(TSI + "::is_valid")
    ctx.analysed(iv.path)
    cks = call_sites(iv, lambda p, c: p.endswith("HashMap::contains_key"))
    x = X(iv.body)
    writes = []
    for blk in iv.body.blocks:
        if blk.cleanup:
            continue
        for st in blk.stmts:
            if st.k == "assign" and st.lhs[1]:
                fl_ = [e for e in st.lhs[1] if e[0] == "f"]
                if fl_:
                    writes.append((fl_[-1][2], show(x.rvalue(st.rv, x.depth), 40)))
    okv = len(cks) == 2 and writes == [("source_address", "Option::None{}")]
    if not okv and len(cks) == 2 and not writes:
        # the same key built with struct-update syntax: `UDPEndpoint { source_address: None, ..endpoint.clone() }` - every other field is the
        # clone's field of the same name
        ivs = Slicer(iv.body)
        for blk in iv.body.blocks:
            for st in blk.stmts:
                if st.k == "assign" and st.rv.k == "aggr" and (st.rv.j.get("adt") or "").endswith("UDPEndpoint") and not blk.cleanup:
                    names_ = st.rv.j.get("fnames", [])
                    vals_ = [show(ivs.expand(x.operand(o_)), 200) for o_ in st.rv.ops]
                    others = [(n_, v_) for n_, v_ in zip(names_, vals_) if n_ != "source_address"]
                    if dict(zip(names_, vals_)).get("source_address") == "Option::None{}" and others and \
                            all(re.search(r"Clone::clone\(&?endpoint\)\.%s$|clone\(&?endpoint\)\.%s$" % (re.escape(n_), re.escape(n_)), v_) for n_, v_ in others):
                        okv = True
    if okv:
        rule.ok("TSI::is_valid", "endpoint, or endpoint with source_address = None", loc(iv.sp))
    else:
        rule.violation("TSI::is_valid", "the fallback lookup wildcards %s (expected only source_address = None) with %d lookups" % (writes, len(cks)), loc(iv.sp))
