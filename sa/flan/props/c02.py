"""C02 — loss recovery (structural necessary conditions)."""
import re

from ..rules import *  # noqa
from ..model import X, show, loc, walk
from ..cfg import Flow, Slicer, find_calls, call_sites
from .. import polarity
from . import c08

OR = "receiver::objectreceiver::ObjectReceiver"


def duplicate_guard_rule(ctx, rule):
    """C02.R3 / C03.R3: first copy wins in the self-storing decoders"""
    prog = ctx.prog
    n = 0
    for st, methods, imp in prog.trait_impls.get("fec::FecDecoder", []):
        if "push_symbol" not in methods:
            continue
        f = prog.fn(methods["push_symbol"])
        ctx.analysed(f.path)
        adt = prog.adts.get(st)
        if adt is None:
            continue
        slot_fields = [fl["name"] for v in adt["variants"] for fl in v["fields"]
                       if re.search(r"Vec<std::option::Option<std::vec::Vec<u8>>>", fl["ty"])]
        if not slot_fields:
            continue  # decoder delegates storage to a library (RaptorQ / Raptor)
        slot_re = r"^\.(%s)\[" % "|".join(map(re.escape, slot_fields))
        stores = []
        x = X(f.body)
        sl_ = Slicer(f.body)
        via_get_mut = {}   # local name -> the get_mut(..) call it aliases an element of
        for name_, ds_ in sl_.var_defs().items():
            ds_ = [d for d in ds_ if d[0] == ""]
            for d_ in ds_:
                ex_ = sl_.expand(d_[1])
                gm = [c for c in walk(ex_) if c[0] == "call" and re.search(r"::get_mut$", c[1]) and len(c[2]) == 2 and
                      any(("self." + sf) in show(c[2][0]) for sf in slot_fields) and "esi" in show(c[2][1])]
                if gm:
                    via_get_mut[name_] = gm[0]
        for blk in f.body.blocks:
            if blk.cleanup:
                continue
            for s in blk.stmts:
                if s.k == "assign" and s.lhs[1] and f.body.names.get(s.lhs[0]) in via_get_mut and all(e[0] == "*" for e in s.lhs[1]):
                    stores.append((blk.i, s, "get_mut:" + f.body.names.get(s.lhs[0])))
                    continue
                if s.k == "assign" and s.lhs[1]:
                    pe = x.place(s.lhs)
                    if pe[0] == "var" and pe[1] == "self" and re.match(slot_re, pe[2]):
                        stores.append((blk.i, s, "assign"))
                    else:
                        ce = pe[1] if pe[0] == "proj" else pe
                        if ce[0] == "call" and re.search(r"IndexMut.*::index_mut$", ce[1]) and \
                                any(("self." + sf) in show(ce[2][0]) for sf in slot_fields):
                            stores.append((blk.i, s, "assign through index_mut"))
            t = blk.term
            if t.k == "call" and t.dest is not None and t.dest[1]:
                pe = x.place(t.dest)
                ce = pe[1] if pe[0] == "proj" else pe
                if ce[0] == "call" and re.search(r"IndexMut.*::index_mut$", ce[1]) and \
                        any(("self." + sf) in show(ce[2][0]) for sf in slot_fields):
                    stores.append((blk.i, t, "call result through index_mut"))
        if not stores:
            rule.violation("%s stores symbols" % f.path, "no store into %s found: the decoder drops symbols" % slot_fields, loc(f.sp))
            continue
        flow = Flow(f.body)

        def slot_txt(e):
            return any(("self." + sf) in show(e) for sf in slot_fields)

        for bb, s, kind in stores:
            n += 1
            fs = flow.facts_at(bb)
            key = "%s store into %s[esi]" % (f.path, slot_fields[0])
            dup = any(a[0] == "variant" and slot_txt(a[1]) and ((a[2] == "Some" and not t) or (a[2] == "None" and t)) for (a, t) in fs)
            rng = any(a[0] in ("lt", "le") and t and slot_txt(a[2]) and "esi" in show(a[1]) for (a, t) in fs)
            if kind.startswith("get_mut:"):
                nm_ = kind.split(":", 1)[1]
                # `match v.get_mut(esi) { Some(slot) => .. }`: in range because get_mut answered Some; first copy because *slot is None
                rng = any(a[0] == "variant" and ((a[2] == "Some") == t) and re.search(r"::get_mut\(", show(a[1], 300)) and slot_txt(a[1]) for (a, t) in fs)
                # the tested local is the one stored through, or another binding of the same get_mut(..) element (guard binding / arm binding)
                same_ = set(k_ for k_, c_ in via_get_mut.items() if show(c_, 400) == show(via_get_mut[nm_], 400))
                norm_ = lambda z_: re.sub(r"[*&()]", "", z_)
                same_ = set(same_) | {norm_(show(via_get_mut[nm_], 400) + "@Some.0")}    # the element itself, tested by a nested pattern `Some(Some(_))`
                dup = any(a[0] == "variant" and a[2] in ("None", "Some") and ((a[2] == "None") == t) and norm_(show(a[1], 400)) in same_ for (a, t) in fs)
            if dup and rng:
                rule.ok(key, "dominated by `slot is None` and `esi < len`", loc(s.sp))
            else:
                rule.violation(key, "symbol stored without %s: a duplicate overwrites the first copy / counts twice, or an "
                                    "out-of-range ESI reaches the store" % ("the already-present guard" if not dup else "the range guard"), loc(s.sp))
        # every counter incremented in push_symbol is incremented only for a new symbol
        for blk in f.body.blocks:
            if blk.cleanup:
                continue
            for s in blk.stmts:
                if s.k != "assign" or not s.lhs[1]:
                    continue
                pe = x.place(s.lhs)
                v = x.rvalue(s.rv, x.depth)
                if pe[0] == "var" and pe[1] == "self" and v[0] == "bin" and v[1].startswith("Add") and v[2] == pe:
                    fs = flow.facts_at(blk.i)
                    dup = any(a[0] == "variant" and slot_txt(a[1]) and ((a[2] == "Some" and not t) or (a[2] == "None" and t)) for (a, t) in fs) or \
                        any(a[0] == "variant" and ((a[2] == "None") == t) and re.sub(r"[*&()]", "", show(a[1])) in via_get_mut for (a, t) in fs)
                    key = "%s counter %s" % (f.path, show(pe))
                    if dup:
                        rule.ok(key, "incremented only for a new symbol", loc(s.sp))
                    else:
                        rule.violation(key, "received-symbol counter incremented for duplicates", loc(s.sp))
    rule.floor(2, "self-storing FecDecoder::push_symbol implementations")


def run(ctx):
    prog = ctx.prog
    ctx.explanation = (
        "C02's core (every loss pattern leaving k symbols still delivers) is a liveness statement over all loss patterns and "
        "relies on the MDS property of the Reed-Solomon library; it is NOT decided.  Decided: R1 the sender cannot place "
        "the close-object flag before symbols of other interleaved blocks, R2 the receiver consumes a packet's symbol before "
        "its close flag acts and only in state Receiving, R3 duplicates neither overwrite nor count, R4 the decode "
        "thresholds have the right polarity.")
    ctx.not_decided += ["delivery for every loss/duplication pattern", "MDS property of reed-solomon-erasure; RaptorQ/Raptor library decoding"]

    r1 = ctx.rule("C02.R1", c08.R1_TEXT, "DEP with listed idioms")
    c08.close_flag_window_rule(ctx, r1)
    c08.source_symbol_rule(ctx, r1)   # the source-byte counter that feeds the flag counts source symbols only (esi < k)

    # ---- R2 -----------------------------------------------------------------------------
    r2 = ctx.rule("C02.R2", "in ObjectReceiver::push_to_block the symbol is pushed (push_to_block2) before the close-object flag "
                            "can end the object, and the flag only acts in state Receiving on an object that is attached to an FDT", "DOM")
    f = prog.fn(OR + "::push_to_block")
    ctx.analysed(f.path)
    flow = Flow(f.body)
    p2 = [s.bb for s in call_sites(f, lambda p, c: p == OR + "::push_to_block2")]
    errs = []
    for cp in prog.with_closures(f.path):
        cf = prog.funcs[cp]
        for s in call_sites(cf, lambda p, c: p == OR + "::error"):
            errs.append((cf, s))
    if not p2:
        raise model.AnchorMissing("push_to_block does not call push_to_block2")
    n = 0
    for cf, s in errs:
        if cf.path != f.path:
            continue
        fs = flow.facts_at(s.bb)
        by_close = any(a[0] == "true" and t and "close_object" in show(a[1]) for (a, t) in fs)
        if not by_close:
            continue
        n += 1
        key = "push_to_block close_object -> error"
        after = all(flow.dominates(b, s.bb) for b in p2)
        recv = any(a[0] == "eq" and t and "self.state" in show(a[1]) + show(a[2]) and "Receiving" in show(a[1]) + show(a[2]) for (a, t) in fs) or \
            any(a[0] == "variant" and t and a[2] == "Receiving" and "self.state" in show(a[1]) for (a, t) in fs)
        if after and recv:
            r2.ok(key, "after push_to_block2, under state == Receiving", s.loc)
        else:
            r2.violation(key, "the close-object flag can abort the object %s" % ("before the packet's own symbol is consumed" if not after else "in a state other than Receiving"), s.loc)
        # an object that still waits for its FDT may be complete in memory (in-band FTI): the flag must not discard it - it cannot be
        # delivered before the FDT is attached, and nothing is lost by waiting (the object timeout still releases it)
        key2 = "push_to_block close_object only ends an object that is attached to an FDT"
        attached = any(a[0] == "variant" and a[2] in ("Some", "None") and ((a[2] == "Some") == t) and
                       re.search(r"\bself\.(fdt_instance_id|object_writer)\b", show(a[1], 200)) for (a, t) in fs)
        if attached:
            r2.ok(key2, "under fdt_instance_id / object_writer is Some", s.loc)
        else:
            r2.violation(key2, "the close-object flag ends an object in state Receiving whether or not an FDT has been attached: an object whose packets "
                               "(in-band FTI) were all received before the first complete FDT is discarded although every symbol and, later, the FDT "
                               "were received", s.loc)
    r2.floor(2, "close_object abort site")

    r3 = ctx.rule("C02.R3", "every FecDecoder that stores symbols itself writes shards[esi] and counts the symbol only when the "
                            "slot is empty and esi is in range", "DOM")
    duplicate_guard_rule(ctx, r3)

    # ---- R4 -----------------------------------------------------------------------------
    # ---- R7 the decoder is built over the same code as the encoder ----------------------------------------------------------------
    r7 = ctx.rule("C02.R7", "BlockDecoder::init builds the Reed-Solomon codec of a block with (the block's source-symbol count, "
                            "oti.max_number_of_parity_symbols, oti.encoding_symbol_length) as handed in - the sender creates exactly that many "
                            "repair symbols per block; a receiver that sizes its code differently drops the repair symbols it has no slot for", "ARG")
    bd = prog.fn("receiver::blockdecoder::BlockDecoder::init")
    ctx.analysed(bd.path)
    bsl = Slicer(bd.body)
    k_name = bd.body.names.get(3)      # init(&mut self, oti, nb_source_symbols, ..)
    for s in call_sites(bd, lambda p, c: p.endswith("RSGalois8Codec::new")):
        want = [(k_name, r"^%s$" % re.escape(k_name or "?")), ("oti.max_number_of_parity_symbols", r"^oti\.max_number_of_parity_symbols$"),
                ("oti.encoding_symbol_length", r"^oti\.encoding_symbol_length$")]
        for i, (what, rx_) in enumerate(want):
            e = bsl.expand(s.expr[2][i])
            while e[0] == "cast" and e[3] == "IntToInt" and e[1] in ("usize", "u64", "u128"):
                e = e[2]
            key = "BlockDecoder::init RSGalois8Codec::new argument %d" % i
            if re.match(rx_, show(e, 120)):
                r7.ok(key, "<- %s" % what, s.loc)
            else:
                r7.violation(key, "the receiver's Reed-Solomon code is built with %s where the sender uses %s: symbols the two codes do not share are "
                                  "dropped or misdecoded" % (show(e, 80), what), s.loc)
    r7.floor(3, "codec constructor arguments")

    r4 = ctx.rule("C02.R4", "RSGalois8Codec::can_decode is true iff received >= k; NoCodeDecoder::can_decode is true iff "
                            "received == number of shards", "E3 decision table")
    for st, methods, imp in prog.trait_impls.get("fec::FecDecoder", []):
        if "can_decode" not in methods:
            continue
        f = prog.fn(methods["can_decode"])
        ctx.analysed(f.path)
        if st.endswith("RSGalois8Codec"):
            t = polarity.Table(f, name_sign={"d": r"nb_source_symbols"})
            o = _orient_leaf(t, "d", r"received")
            polarity.check_table(r4, t, lambda sc, o=o: sc["d"] * o >= 0, "RSGalois8Codec::can_decode", loc(f.sp), require_labels=("d",))
        elif st.endswith("NoCodeDecoder"):
            t = polarity.Table(f, name_sign={"d": r"self\.shards|nb_symbols"})
            polarity.check_table(r4, t, lambda sc: sc["d"] == 0, "NoCodeDecoder::can_decode", loc(f.sp), require_labels=("d",))
    r4.floor(6, "threshold scenarios")

    # ---- R5 FDT passes may be lost too: what was decoded before the FDT attached is delivered when it attaches ---------------
    r5 = ctx.rule("C02.R5", "losing FDT packets only delays the object: when a later FDT pass attaches, attach_fdt records the instance id (and the "
                            "other fields init_object_writer requires) before it calls init_object_writer, replays the cached packets and flushes the "
                            "blocks already decoded (shared with C16.R2)", "DOM+PAIR")
    from . import c16
    c16.attach_order_rule(ctx, r5)
    r5.floor(5, "attach ordering facts")

    # ---- R6 the close-object flag may only ride on the last transfer: the counter is_last_transfer reads ---------------------
    r6 = ctx.rule("C02.R6", "an object sent in several transfers is not closed early: TransferInfo.transfer_count, which is_last_transfer() "
                            "compares with max_transfer_count to raise the B flag, counts completed transfers only (+1 in done, reset in init "
                            "under carousel) — shared with C12.R1", "WWF")
    from . import c12
    c12.transfer_counter_rule(ctx, r6)
    r6.floor(3, "writes to the counters")


def _orient_leaf(t, label, leaf_regex):
    for k, lab in t.seen_sign.items():
        if lab == label:
            for n, v in k[0]:
                if re.search(leaf_regex, n):
                    return 1 if v > 0 else -1
    return 1
