"""C11 — announce before send."""
import re

from ..rules import *  # noqa
from ..model import X, show, loc, walk
from ..cfg import Flow, Slicer, find_calls, call_sites, show_fact

SENDER = "sender::sender::Sender"
SESSION = "sender::sendersession::SenderSession"
FDT = "sender::fdt::Fdt"
FD = "sender::filedesc::FileDesc"


def run(ctx):
    prog = ctx.prog
    ctx.explanation = (
        "C11 quantifies over interleavings of add/publish/remove/read; decided are the gates whose removal lets an "
        "object packet out before its FDT: R1 Sender::read polls the FDT session first and reaches the object queues "
        "only when it yielded nothing, R2 an object session emits only past the not-pending edge of "
        "Fdt::need_transfer_fdt evaluated after get_next, R3 under FullFDT an object is eligible only when published, "
        "and only Fdt::publish marks objects published, R4 under ObjectsBeingTransferred starting a transfer is "
        "followed by a publish.")
    ctx.not_decided += ["the interleavings as such (histories)", "completeness of the FDT emission before the first object packet "
                        "beyond the pending-queue gate"]

    # ---- R1 ----------------------------------------------------------------------------
    r1 = ctx.rule("C11.R1", "in Sender::read every call of read_priority_queue is dominated by the None edge of "
                            "fdt_session.run(); object sessions are only run from read_priority_queue", "DOM+WMC")
    f = prog.fn(SENDER + "::read")
    ctx.analysed(f.path)
    flow = Flow(f.body)
    sites = call_sites(f, lambda p, c: p.endswith("Sender::read_priority_queue"))
    for s in sites:
        fs = flow.facts_at(s.bb)
        ok = False
        for (a, t) in fs:
            if a[0] == "variant" and ((a[2] == "Some" and not t) or (a[2] == "None" and t)):
                cs = [c for c in walk(a[1]) if c[0] == "call" and c[1].endswith("SenderSession::run")]
                if cs and "fdt_session" in show(cs[0][2][0]):
                    ok = True
        key = "Sender::read -> read_priority_queue"
        if ok:
            r1.ok(key, "dominated by `fdt_session.run(..) is None`", s.loc)
        else:
            r1.violation(key, "object queues are polled on a path where the FDT session was not polled first / had a packet "
                              "(facts here: %s)" % (facts_text(flow, s.bb) or "none"), s.loc)
    r1.floor(1, "read_priority_queue call sites")
    # SenderSession::run on a non-FDT session only from read_priority_queue; on fdt_session only from read
    for s in find_calls(prog, r"SenderSession::run$"):
        caller = s.func.root().path
        recv = show(s.expr[2][0], 100)
        key = "%s runs %s" % (caller, recv)
        if caller == SENDER + "::read":
            if "fdt_session" in recv:
                r1.ok(key, "FDT session", s.loc)
            else:
                r1.violation(key, "Sender::read runs a session other than fdt_session directly", s.loc)
        elif caller == SENDER + "::read_priority_queue":
            r1.ok(key, "object session", s.loc)
        else:
            r1.violation(key, "SenderSession::run called from %s" % caller, s.loc)
    wmc(r1, prog, r"Sender::read_priority_queue$", [r"^sender::sender::Sender::read$"])

    # ---- R2 ----------------------------------------------------------------------------
    r2 = ctx.rule("C11.R2", "in SenderSession::run, for an object session (transfer_fdt_only == false), every path from entry "
                            "or from a get_next() call to encoder.read()/new_alc_pkt passes the not-pending edge of "
                            "fdt.need_transfer_fdt()", "MPT under assumption")
    fdt_pending_gate(ctx, r2)

    # ---- R3 ----------------------------------------------------------------------------
    r3 = ctx.rule("C11.R3", "FileDesc::should_transfer_now can return true only past `mode != FullFDT` or `is_published()`; "
                            "get_next_file_transfer hands out a file only through that predicate; set_published only in Fdt::publish",
                  "MPT+WMC")
    f = prog.fn(FD + "::should_transfer_now")
    ctx.analysed(f.path)
    flow = Flow(f.body)

    def pub_gate(n):
        if n[0] != "e":
            return False
        for (a, t) in flow.edge_facts(n):
            if mode_is((a, t), "FullFDT") is False:
                return True
            if a[0] == "true" and t and any(c[0] == "call" and c[1].endswith("FileDesc::is_published") for c in walk(a[1])):
                return True
        return False

    maytrue = ret_assign_blocks(f.body, lambda e: not (e[0] == "const" and e[2] is False))
    for bb, e in maytrue:
        ok, w = flow.must_pass(0, [bb], pub_gate)
        key = "should_transfer_now may return %s" % show(e, 60)
        if ok:
            r3.ok(key, "only past the published gate", loc(f.body.blocks[bb].term.sp))
        else:
            r3.violation(key, "should_transfer_now can answer %s for an unpublished object in FullFDT mode: %s" % (
                show(e, 60), path_text(f.body, w)), loc(f.body.blocks[bb].term.sp))
    r3.floor(3, "non-false returns of should_transfer_now")
    g = prog.fn(FDT + "::get_next_file_transfer")
    ctx.analysed(g.path)
    # the selection closure returns should_transfer_now(..)
    sel_ok = False
    for cp in prog.with_closures(g.path)[1:]:
        cf = prog.funcs[cp]
        rets = ret_assign_blocks(cf.body, lambda e: True)
        if rets and all(e[0] == "call" and e[1].endswith("FileDesc::should_transfer_now") for _, e in rets):
            sel_ok = cp
    gflow = Flow(g.body)
    somes = ret_assign_blocks(g.body, lambda e: is_variant(e, "Some"))
    for bb, e in somes:
        fs = gflow.facts_at(bb)
        # the index / element comes from `find(sel)` or `position(sel)` and the path is the one where it found something
        dom = any(a[0] == "variant" and ((a[2] in ("Some", "Continue")) == t) and a[2] in ("Some", "None", "Continue", "Break") and
                  any(c[0] == "call" and re.search(r"Iterator::(find|position)$", c[1]) and sel_ok and
                      any(z[0] == "closure" and z[1] == sel_ok for z in walk(c)) for c in walk(a[1]))
                  for (a, t) in fs)
        if not dom:
            # the same scan as an explicit loop: `for (i, item) in queue.iter().enumerate() { if item.should_transfer_now(..) { found = Some(i);
            # break } } … found?` - the hand-out is only reached through the `true` edge of should_transfer_now
            dom = any(a[0] == "true" and t and any(c[0] == "call" and c[1].endswith("FileDesc::should_transfer_now") for c in walk(a[1])) for (a, t) in fs)
        key = "get_next_file_transfer returns Some"
        if dom:
            r3.ok(key, "file chosen by find(|f| f.should_transfer_now(..))", loc(g.sp))
        else:
            r3.violation(key, "a file is handed out on a path not decided by should_transfer_now", loc(g.sp))
    wmc(r3, prog, r"^sender::filedesc::FileDesc::set_published$", [r"^sender::fdt::Fdt::publish$"])
    # `published` is only stored through set_published
    for s in find_calls(prog, r"AtomicBool::(store|swap|fetch_or|compare_exchange)"):
        if "published" in show(s.expr[2][0]):
            key = "%s stores FileDesc.published" % s.func.root().path
            if s.func.root().path == FD + "::set_published":
                r3.ok(key, "", s.loc)
            else:
                r3.violation(key, "published flag written outside set_published", s.loc)

    # files are marked published only once the instance listing them is queued: no failing exit of publish() between
    # "marked" and "queued" (an Err return after marking would release objects that no FDT announces)
    hp = prog.fn(FDT + "::publish")
    hpf = Flow(hp.body)
    hps = Slicer(hp.body)
    qpush = [s for s in call_sites(hp, lambda p, c: p.endswith("::push_back")) if "fdt_transfer_queue" in show(s.expr[2][0])]
    marks = []
    for s in call_sites(hp, lambda p, c: re.search(r"Iterator::for_each$", p) is not None):
        for z in hps.sources(s.expr):
            if z.startswith("closure:"):
                cf = prog.funcs.get(z[len("closure:"):])
                if cf and any(True for _ in call_sites(cf, lambda p, cc: p == FD + "::set_published")):
                    marks.append(s)
    # (a direct set_published() on the FDT's own FileDesc - TOI 0 - is not a listed object)
    marks += [s for s in call_sites(hp, lambda p, c: p == FD + "::set_published") if any(z.startswith("var:self.files") for z in hps.sources(s.expr[2][0]))]
    if not qpush:
        raise model.AnchorMissing("Fdt::publish: queueing site not found")
    if not marks:
        # the who-may-call clause above names the place that marks them now (if any); the pairing itself is gone
        r3.violation("publish: files marked published only after the instance is queued",
                     "Fdt::publish queues an instance but no longer marks the files it lists as published itself: either they are never marked "
                     "(FullFDT objects are never sent) or they are marked where no instance is queued (sent without being announced)", loc(hp.sp))
    for s in marks:
        key = "publish: files marked published only after the instance is queued"
        if all(q.bb != s.bb and hpf.dominates(q.bb, s.bb) for q in qpush):
            r3.ok(key, "set_published dominated by fdt_transfer_queue.push_back", s.loc)
        else:
            r3.violation(key, "files are marked published before the FDT instance listing them is queued: if publish() fails in "
                              "between, FullFDT objects become eligible without ever being announced", s.loc)

    # ---- R4 ----------------------------------------------------------------------------
    r4 = ctx.rule("C11.R4", "in get_next_file_transfer, under publish_mode == ObjectsBeingTransferred, transfer_started(..) is "
                            "always followed by Fdt::publish(..) before returning; publish queues an FDT instance", "PAIR under assumption")
    auto_publish_rule(ctx, r4)
    r4.floor(1, "transfer_started call in get_next_file_transfer")
    # publish pushes to fdt_transfer_queue on every Ok path
    h = prog.fn(FDT + "::publish")
    ctx.analysed(h.path)
    hflow = Flow(h.body)
    pushes = set(s.bb for s in call_sites(h, lambda p, c: p.endswith("::push_back")) if "fdt_transfer_queue" in show(s.expr[2][0]))
    oks = ret_assign_blocks(h.body, lambda e: is_variant(e, "Ok"))
    for bb, e in oks:
        ok, w = hflow.must_pass(0, [bb], lambda n: n[0] == "b" and n[1] in pushes)
        if ok:
            r4.ok("publish Ok => queued", "", loc(h.sp))
        else:
            r4.violation("publish Ok => queued", "Fdt::publish can return Ok without queueing an FDT instance", loc(h.sp))


def auto_publish_rule(ctx, r4):
    """being-transferred mode: every transfer start (first or carousel repeat) publishes an FDT listing the object (shared with C16.R5)"""
    prog = ctx.prog
    g = prog.fn(FDT + "::get_next_file_transfer")
    gflow2 = Flow(g.body)

    def contra2(fact):
        if mode_is(fact, "FullFDT") is True:
            return False
        return None

    gflow2.assume(contra2)
    starts = call_sites(g, lambda p, c: p.endswith("FileDesc::transfer_started"))
    pubs = set(s.bb for s in call_sites(g, lambda p, c: p.endswith("Fdt::publish")))
    for s in starts:
        ok, w = gflow2.postdominated_by(s.bb, lambda b: b in pubs)
        key = "get_next_file_transfer: transfer_started -> publish"
        if ok:
            r4.ok(key, "", s.loc)
        else:
            r4.violation(key, "a transfer can start in being-transferred mode without publishing an FDT that lists it: %s" % path_text(g.body, w), s.loc)


def fdt_pending_gate(ctx, r2):
    """every object session yields while an FDT instance is pending (shared by C11.R2 and C13.R5)"""
    prog = ctx.prog
    f = prog.fn(SESSION + "::run")
    ctx.analysed(f.path)
    flow = Flow(f.body)

    def contradicts(fact):
        (a, t) = fact
        if a[0] == "true" and show(a[1]).endswith("self.transfer_fdt_only") and t is True:
            return False
        return None

    flow.assume(contradicts)

    def gate(n):
        if n[0] != "e":
            return False
        for (a, t) in flow.edge_facts(n):
            if a[0] == "true" and not t and any(c[0] == "call" and c[1].endswith("Fdt::need_transfer_fdt") for c in walk(a[1])):
                return True
        return False

    emit = call_sites(f, lambda p, c: p.endswith("BlockEncoder::read") or p.endswith("alc::new_alc_pkt"))
    starts = [("entry", 0)] + [("after get_next", s.term.target) for s in call_sites(f, lambda p, c: p.endswith("SenderSession::get_next"))]
    if len(starts) < 2:
        raise model.AnchorMissing("SenderSession::run does not call get_next")
    reach = flow.reachable_nodes()
    for s in emit:
        if ("b", s.bb) not in reach:
            continue
        for (nm, st) in starts:
            ok, w = flow.must_pass(st, [s.bb], gate)
            key = "run: %s -> %s" % (nm, model.short_callee(s.term.callee_path()))
            if ok:
                r2.ok(key, "passes need_transfer_fdt() == false", s.loc)
            else:
                r2.violation(key, "an object session can reach %s from %s without the FDT-pending gate: %s" % (
                    model.short_callee(s.term.callee_path()), nm, path_text(f.body, w)), s.loc)
    r2.floor(4, "2 emission sites x 2 starts")
    # need_transfer_fdt itself: true iff the FDT queue is non-empty
    g = prog.fn(FDT + "::need_transfer_fdt")
    rets = ret_assign_blocks(g.body, lambda e: True)
    txt = "; ".join(show(e, 100) for _, e in rets)
    if len(rets) == 1 and re.search(r"!\(?VecDeque::is_empty\(&self\.fdt_transfer_queue\)", txt):
        r2.ok("need_transfer_fdt definition", txt, loc(g.sp))
    else:
        r2.violation("need_transfer_fdt definition", "need_transfer_fdt returns %s; expected !self.fdt_transfer_queue.is_empty()" % txt, loc(g.sp))

