"""C05 — filesystem writer confinement."""
import re

from ..rules import *  # noqa
from ..model import X, show, loc, walk
from ..cfg import Flow, Slicer, find_calls, call_sites
from .. import polarity

FS = "receiver::writer::objectwriterfs::ObjectWriterFS"
FSI = "receiver::writer::objectwriterfs::ObjectWriterFSInner"
OPEN = "<%s as receiver::writer::ObjectWriter>::open" % FS
ERROR = "<%s as receiver::writer::ObjectWriter>::error" % FS
# the two failure callbacks do the same clean-up (interrupted() calls error() today; a shared helper inlined into both is the same thing): each
# is held to the same rule - the only deletion is remove_file(inner.destination)
INTERRUPTED = "<%s as receiver::writer::ObjectWriter>::interrupted" % FS

SINK = re.compile(r"^std::fs::(File::create|File::create_new|File::options|OpenOptions::open|create_dir|create_dir_all|remove_file|remove_dir|"
                  r"remove_dir_all|rename|copy|write|hard_link|soft_link|set_permissions|DirBuilder::create)$|^std::os::unix::fs::(symlink|chown|lchown)$|"
                  r"^std::fs::File::(set_len|set_permissions)$")
BAD_COMPONENTS = ("ParentDir", "RootDir", "Prefix")


def run(ctx):
    prog = ctx.prog
    ctx.explanation = (
        "C05: decided up to the semantics of url::Url::path and symlinks inside the destination.  R1 every filesystem-mutating "
        "std call in the receiver lives in ObjectWriterFS::{open, error}; R2 in open, every sink's path derives from "
        "self.dest.join(rel) with rel derived from the content location, and the sink is dominated by the accepting edge of a "
        "confinement check on rel — accepted idioms: (i) Path::components() of rel tested so that ParentDir, RootDir and Prefix "
        "are rejected, (ii) canonicalize + starts_with(dest); the rejecting edge returns Err; R3 only a file this writer "
        "created is ever deleted; R4 (thorough, --features cli) the receiver binary builds its writer through "
        "ObjectWriterFSBuilder::new only.")
    ctx.not_decided += ["semantics of url::Url::path (percent-decoding etc.)", "symlinks already present inside the destination directory"]
    ctx.assume("std::path::PathBuf::join(rel) stays below the base iff rel has only Normal/CurDir components (no symlinks)")

    # ---- R1 ----------------------------------------------------------------------------------
    r1 = ctx.rule("C05.R1", "filesystem-mutating std calls within src/receiver/** occur only in ObjectWriterFS::{open, error}", "WMC")
    sinks = []
    for p, f in sorted(prog.funcs.items()):
        if not (f.file.startswith("src/receiver/")):
            continue
        for s in call_sites(f, lambda pth, c: SINK.search(pth) is not None):
            sinks.append(s)
    for s in sinks:
        caller = s.func.root().path
        key = "%s -> %s" % (caller, model.short_callee(s.term.callee_path()))
        if caller in (OPEN, ERROR, INTERRUPTED):
            r1.ok(key, "", s.loc)
        else:
            r1.violation(key, "filesystem mutation outside ObjectWriterFS::open/error", s.loc)
    r1.floor(3, "sinks (create_dir_all, File::create, remove_file)")

    # ---- R2 ----------------------------------------------------------------------------------
    r2 = ctx.rule("C05.R2", "in ObjectWriterFS::open every sink path is self.dest.join(rel) and the sink is dominated by the accepting "
                            "edge of a confinement check on rel", "DEP+DOM (listed idioms)")
    f = prog.fn(OPEN)
    ctx.analysed(f.path)
    fl = Flow(f.body)
    sl = Slicer(f.body)
    joins = call_sites(f, lambda p, c: p.endswith("path::Path::join") or p.endswith("PathBuf::join") or p.endswith("PathBuf::push"))
    if not joins:
        raise model.AnchorMissing("ObjectWriterFS::open has no Path::join")
    rel_srcs = set()
    for j in joins:
        rel_srcs |= set(z for z in sl.sources(j.expr[2][1]) if z.startswith("var:"))
    checks = confinement_checks(prog, f, fl, sl, rel_srcs)
    for s in [x for x in sinks if x.func.root().path == OPEN]:
        srcs = sl.sources(s.expr[2][0])
        key = "open sink %s" % model.short_callee(s.term.callee_path())
        from_join = any(z.endswith("Path::join") or z.endswith("PathBuf::join") for z in srcs if z.startswith("call:")) and any(z.startswith("var:self.dest") for z in srcs)
        if not from_join:
            r2.violation(key + " path", "sink path does not derive from self.dest.join(..): %s" % show(s.expr[2][0], 80), s.loc)
            continue
        guarded = None
        checked = None
        for (node, why, cv_) in checks:
            if node in fl.dom_edges(s.bb):
                guarded = why
                checked = cv_
        # what is joined to dest is the value that was checked: every join feeding a sink takes an argument derived from the checked local (a
        # second, unchecked rendering of the same Content-Location - e.g. its percent-decoded form - is a different path)
        if guarded and checked is not None:
            iters_ = set(z for z in checked)
            bad_j = [j for j in joins if not any(("var:" + cv_) in sl.sources(j.expr[2][1], control=False) for cv_ in iters_)]
            if bad_j:
                r2.violation(key, "the path joined to dest (%s) is not derived from the value the confinement check looked at (%s): the check passes on one "
                                  "rendering of the Content-Location and another one is written" % (show(bad_j[0].expr[2][1], 80), sorted(iters_)), s.loc)
                continue
        if guarded:
            r2.ok(key, "dominated by: " + guarded, s.loc)
        else:
            r2.violation(key, "the path handed to %s is dest.join(rel) with rel taken from the Content-Location (%s) and no confinement "
                              "check on rel dominates the call: '..' segments, absolute paths ('//abs' after one strip_prefix) and "
                              "opaque URLs (`a:../x`) leave the destination directory" % (
                                  model.short_callee(s.term.callee_path()), ", ".join(sorted(z[4:] for z in rel_srcs if "content_location" in z or "meta" in z)) or "self.meta.content_location"), s.loc)
    r2.floor(2, "sinks in open")
    # rel derives from meta.content_location
    if any("self.meta.content_location" in z for z in rel_srcs):
        r2.ok("open: rel derives from meta.content_location", "", loc(f.sp))
    else:
        r2.violation("open: rel derives from meta.content_location", "relative path sources: %s" % sorted(rel_srcs)[:6], loc(f.sp))

    # ---- R3 ----------------------------------------------------------------------------------
    r3 = ctx.rule("C05.R3", "ObjectWriterFSInner.destination becomes Some only in open, after File::create succeeded, with the created "
                            "path; remove_file deletes inner.destination only", "WWF+ARG")
    creates = [s for s in sinks if s.func.root().path == OPEN and s.term.callee_path().endswith("File::create")]
    for a in field_accesses(prog, FSI, "destination"):
        caller = a["func"].root().path
        if a["kind"] == "borrow_mut":
            continue
        v = a["value"]
        key = "%s destination = %s" % (caller.split("::")[-1], show(v, 40))
        if is_variant(v, "None") or (v[0] == "aggr" and v[2] == "None"):
            r3.ok(key, "reset", loc(a["sp"]))
        elif caller == OPEN:
            # strict: a call is the terminator of its block, so a statement of the same block precedes it
            after = all(c.bb != a["bb"] and fl.dominates(c.bb, a["bb"]) for c in creates) and bool(creates)
            srcs = sl.sources(v, control=False)
            # the recorded path and the created path are the same local: the one holding self.dest.join(rel)
            joinvars = set("var:" + nm for nm, ds_ in sl.var_defs().items() for (pj_, d_, _b) in ds_
                           if pj_ == "" and d_[0] == "call" and re.search(r"(Path|PathBuf)::join$", d_[1]))
            csrcs = set()
            for c_ in creates:
                csrcs |= set(sl.sources(c_.expr[2][0], control=False))
            same = bool(joinvars & set(srcs) & csrcs)
            if after and same:
                r3.ok(key, "after File::create(&destination) succeeded", loc(a["sp"]))
            else:
                r3.violation(key, "deletable path recorded %s" % ("before the file was created" if not after else "from a different path than the one created"), loc(a["sp"]))
        elif a["kind"] == "construct":
            if show(v).startswith("Option::None"):
                r3.ok(key, "", loc(a["sp"]))
            else:
                r3.violation(key, "writer starts with a deletable path", loc(a["sp"]))
        else:
            r3.violation(key, "destination set outside open", loc(a["sp"]))
    for EFN in (ERROR, INTERRUPTED):
      e = prog.fn(EFN)
      ctx.analysed(e.path)
      esl = Slicer(e.body)
      for s in [x for x in sinks if x.func.root().path == EFN]:
        srcs = esl.sources(s.expr[2][0])
        key = "%s sink %s" % (EFN.split("::")[-1], model.short_callee(s.term.callee_path()))
        vars_ = [z for z in srcs if z.startswith("var:")]
        base = r"var:(inner|self\.inner|RefMut::deref(_mut)?\(&inner\)|Option::(take|as_ref|as_deref|as_mut)\(&?RefMut::deref(_mut)?\(&inner\)\.destination\))"

        def from_destination(z):
            """a local bound to (part of) inner.destination, e.g. `if let Some(destination) = inner.destination.take()`"""
            if re.match(base, z):
                return True
            name = z[4:]
            ds = [d for d in esl.var_defs().get(name, []) if d[0] == ""]
            if not ds:
                return False
            for (_, ex_, _) in ds:
                txt = show(esl.expand(ex_), 300)
                leaves = [show(c) for c in walk(esl.expand(ex_)) if c[0] == "var"]
                if not (re.search(r"inner\)?\.destination", txt) and all(re.match(r"(inner|self\.inner)\b", l) or "inner).destination" in l or l.startswith("inner") for l in leaves)):
                    return False
            return True
        only_file = model.short_callee(s.term.callee_path()).endswith("remove_file")
        if vars_ and all(from_destination(z) for z in vars_) and any("destination" in z for z in vars_) and only_file:
            r3.ok(key, "deletes inner.destination", s.loc)
        else:
            r3.violation(key, ("%s in error(): only remove_file(inner.destination) may delete; " % model.short_callee(s.term.callee_path()) if not only_file else "") +
                         "argument derives from %s" % vars_, s.loc)
    r3.floor(4, "destination facts")

    # ---- R4 (thorough) -------------------------------------------------------------------------
    if ctx.tier == "thorough":
        r4 = ctx.rule("C05.R4", "flute-receiver builds its object writer through ObjectWriterFSBuilder::new only, and contains no "
                                "filesystem-mutating call of its own", "WMC over the cli configuration")
        bprog = ctx.program("cli", "flute_receiver")
        n = 0
        for p, bf in sorted(bprog.funcs.items()):
            for s in call_sites(bf, lambda pth, c: SINK.search(pth) is not None):
                r4.violation("flute_receiver %s -> %s" % (p, model.short_callee(s.term.callee_path())), "binary mutates the filesystem directly", s.loc)
            for s in call_sites(bf, lambda pth, c: re.search(r"ObjectWriter\w*Builder::new$", pth) is not None):
                n += 1
                if s.term.callee_path().endswith("ObjectWriterFSBuilder::new"):
                    r4.ok("flute_receiver writer builder", s.term.callee_path(), s.loc)
                else:
                    r4.violation("flute_receiver writer builder", "uses %s" % s.term.callee_path(), s.loc)
        r4.floor(1, "builder constructions in the receiver binary")


def confinement_checks(prog, f, fl, sl, rel_srcs):
    """edge nodes of `f` that accept a confined relative path. returns [(edge node, description)]"""
    out = []
    for blk in f.body.blocks:
        t = blk.term
        if t.k != "switch":
            continue
        for k in range(len(t.targets) + 1):
            n = ("e", blk.i, k)
            for (a, tr) in fl.edge_facts(n):
                if a[0] != "true":
                    continue
                ex = sl.expand(a[1])
                srcs = sl.sources(a[1])
                # idiom (i): components() + any/all with a closure classifying Component variants
                if any(z.endswith("Path::components") for z in srcs if z.startswith("call:")):
                    on_rel = bool(set(z for z in srcs if z.startswith("var:")) & rel_srcs) or any("content_location" in z for z in srcs)
                    its = [c for c in walk(ex) if c[0] == "call" and re.search(r"Iterator::(any|all)$", c[1])]
                    for it in its:
                        clos = [z[1] for z in walk(it) if z[0] == "closure" and z[1] in prog.funcs]
                        for cpath in clos:
                            verdict = classify_component_closure(prog, cpath)
                            if verdict is None or not on_rel:
                                continue
                            isany = it[1].endswith("any")
                            # any(bad) must be false ; all(good) must be true
                            if (isany and verdict == "true_iff_bad" and tr is False) or ((not isany) and verdict == "true_iff_good" and tr is True):
                                cv_ = set(z[4:] for z in sl.sources(it[2][0], control=False) if z.startswith("var:") and re.match(r"^var:\w+(~\d+)?$", z))
                                out.append((n, "Path::components() of the relative path: every component is Normal/CurDir (%s)" % ("!any(bad)" if isany else "all(good)"), cv_))
                # idiom (ii): canonicalize + starts_with(dest)
                if any(z.endswith("Path::starts_with") or z.endswith("PathBuf::starts_with") for z in srcs if z.startswith("call:")) and \
                        any(z.endswith("canonicalize") for z in srcs if z.startswith("call:")) and any(z.startswith("var:self.dest") for z in srcs) and tr is True:
                    out.append((n, "canonicalize(..).starts_with(dest)", None))
    # idiom (iii): the same test as an explicit loop - `for c in Path::new(rel).components() { match c { Normal(_) | CurDir => {}, _ => { reject } } }`:
    # the sink is only reached through the loop's normal end (the `None` edge of next()), and no path from an edge on which the component may be
    # ParentDir / RootDir / Prefix ever gets back to that normal end
    for nx in call_sites(f, lambda p, c: re.search(r"path::Components.*::next$|Iterator::next$|::next$", p) is not None):
        if "Components" not in ((nx.term.callee() or {}).get("substs") or [""])[0] and "Components" not in (nx.term.callee_path() or ""):
            continue
        isrcs = set()
        for v in walk(nx.expr):
            if v[0] == "var":
                for (pj, d, _bb) in sl.var_defs().get(v[1], []):
                    if pj == "":
                        isrcs |= set(sl.sources(d, control=False))
        isrcs |= set(sl.sources(nx.expr, control=False))
        if not any(z.endswith("Path::components") for z in isrcs if z.startswith("call:")):
            continue
        if not (set(z for z in isrcs if z.startswith("var:")) & rel_srcs or any("content_location" in z for z in isrcs)):
            continue
        comp_txt = show(nx.expr, 300) + "@Some.0"
        none_edges, bad_edges, classified = [], [], False
        for blk in f.body.blocks:
            t = blk.term
            if t.k != "switch" or blk.cleanup:
                continue
            per_edge = {}
            relevant = False
            for k in range(len(t.targets) + 1):
                n = ("e", blk.i, k)
                efs = fl.edge_facts(n)
                for (a, tr) in efs:
                    if a[0] == "variant" and show(a[1], 300) == show(nx.expr, 300) and a[2] == "None" and tr:
                        none_edges.append(n)
                    if a[0] == "variant" and show(sl.expand(a[1]), 300) == comp_txt:
                        relevant = True
                per_edge[n] = efs
            if relevant:
                classified = True
                for n, efs in per_edge.items():
                    if any(a[0] == "eq" and show(a[1]) == "0" and show(a[2]) == "1" and tr for (a, tr) in efs):
                        continue   # infeasible `otherwise`
                    good = any(a[0] == "variant" and tr and a[2] in ("Normal", "CurDir") and show(sl.expand(a[1]), 300) == comp_txt for (a, tr) in efs)
                    if not good:
                        bad_edges.append(n)
        if not (classified and none_edges and bad_edges):
            continue
        if all(not (set(none_edges) & fl.reach(b)) for b in bad_edges):
            for ne in none_edges:
                cv_ = set(z[4:] for z in isrcs if z.startswith("var:") and re.match(r"^var:\w+(~\d+)?$", z))
                out.append((ne, "loop over Path::components() of the relative path: a component other than Normal/CurDir never reaches the loop's normal end", cv_))
    return out


def classify_component_closure(prog, cpath):
    """'true_iff_bad' if the closure returns true exactly for ParentDir/RootDir/Prefix(and possibly CurDir),
    'true_iff_good' if it returns true only for Normal (and possibly CurDir); None otherwise"""
    cf = prog.funcs[cpath]
    t = polarity.Table(cf, name_bool={"Normal": r" is Normal$", "CurDir": r" is CurDir$", "ParentDir": r" is ParentDir$",
                                      "RootDir": r" is RootDir$", "Prefix": r" is Prefix$"})
    labs = t.labels_found()
    if "Normal" not in labs and not (set(BAD_COMPONENTS) <= labs):
        return None
    res = {}
    for v in ("Normal", "CurDir", "ParentDir", "RootDir", "Prefix"):
        sc = {l: (l == v) for l in labs}
        rets = set(r for r, _ in t.results(sc))
        if len(rets) != 1 or not isinstance(next(iter(rets)), bool):
            return None
        res[v] = next(iter(rets))
    if res["Normal"] is False and all(res[b] is True for b in BAD_COMPONENTS):
        return "true_iff_bad"
    if res["Normal"] is True and all(res[b] is False for b in BAD_COMPONENTS):
        return "true_iff_good"
    return None
