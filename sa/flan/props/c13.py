"""C13 — scheduling: strict queue priority, bounded multiplexing, FIFO admission, interleave window."""
import re

from ..rules import *  # noqa
from ..model import X, show, loc, walk
from ..cfg import Flow, Slicer, find_calls, call_sites

SENDER = "sender::sender::Sender"
SSL = "sender::sender::SenderSessionList"
FDT = "sender::fdt::Fdt"
BE = "sender::blockencoder::BlockEncoder"
FD = "sender::filedesc::FileDesc"


def run(ctx):
    prog = ctx.prog
    ctx.explanation = (
        "C13 quantifies over workloads; decided are the structural facts the scheduling order rests on: R1 queues live in "
        "an ordered map iterated forwards with the first packet winning, sessions of a queue only see objects of their own "
        "priority; R2 the number of sessions per queue is max(1, multiplex_files), fixed at construction, one object per "
        "session; R3 the waiting queue is a FIFO (push_back / front-to-back scan / remove by index); R4 blocks are opened "
        "only below the interleave window.")
    ctx.not_decided += ["round-robin fairness and 'ready' semantics across time", "behaviour over concrete workloads"]

    # ---- R1 ---------------------------------------------------------------------------------
    r1 = ctx.rule("C13.R1", "Sender.sessions is a BTreeMap<u32,_>; Sender::read iterates it forwards and returns the first "
                            "Some; a session is only offered objects whose priority equals its queue key", "TYP+DOM+ARG")
    ty = field_type(prog, SENDER, "sessions")
    if re.match(r"^(std|alloc)::collections::(btree_map::|btree::map::)?BTreeMap<u32, ", ty):
        r1.ok("Sender.sessions type", ty, "src/sender/sender.rs")
    else:
        r1.violation("Sender.sessions type", "Sender.sessions has type %s: iteration order is not the priority order" % ty, "src/sender/sender.rs")
    f = prog.fn(SENDER + "::read")
    ctx.analysed(f.path)
    flow = Flow(f.body)
    sl = Slicer(f.body)
    nexts = call_sites(f, lambda p, c: p.endswith("::next"))
    back = call_sites(f, lambda p, c: re.search(r"::(rev|next_back|rfold|rfind|last|nth_back)$", p) is not None)
    for s in back:
        r1.violation("Sender::read reverse iteration", "Sender::read calls %s" % s.term.callee_path(), s.loc)
    BT = r"btree.*(IterMut|Iter|ValuesMut|Values)"
    fwd = [s for s in nexts if re.search(BT, (s.term.callee().get("substs") or [""])[0])]
    # the same loop written with the std adaptor: `sessions.values_mut().find_map(|q| read_priority_queue(..))` polls the queues forwards and
    # stops at the first Some by the adaptor's contract
    rpq_closures = set(cp for cp in prog.with_closures(f.path) if cp != f.path and
                       call_sites(prog.funcs[cp], lambda p, c: p.endswith("Sender::read_priority_queue")))
    fmaps = [s for s in call_sites(f, lambda p, c: p.endswith("Iterator::find_map"))
             if re.search(BT, (s.term.callee().get("substs") or [""])[0]) and any(z == "closure:" + cp for z in sl.sources(s.expr) for cp in rpq_closures)]
    if fwd or fmaps:
        # iterator built from &mut self.sessions
        it = (fwd or fmaps)[0]
        srcs = sl.sources(it.expr)
        if any(z.startswith("var:self.sessions") for z in srcs):
            r1.ok("Sender::read forward BTreeMap iteration", (it.term.callee().get("substs") or [""])[0][:90], it.loc)
        else:
            r1.violation("Sender::read forward BTreeMap iteration", "the iterator polled in read() is not over self.sessions", it.loc)
    else:
        r1.violation("Sender::read forward BTreeMap iteration", "no forward BTreeMap iterator over self.sessions found in read()", loc(f.sp))

    def queue_derived(e):
        z = sl.sources(e, control=False)
        return any("read_priority_queue" in y for y in z) or (fmaps and any(y == "closure:" + cp for y in z for cp in rpq_closures))

    # first Some wins: a `return data` (value from read_priority_queue) dominated by data.is_some()
    rets = ret_assign_blocks(f.body, queue_derived)
    if not rets:
        raise model.AnchorMissing("Sender::read never returns the result of read_priority_queue")
    for bb, e in rets:
        fs = flow.facts_at(bb)
        # the value returned on this path was tested: a dominating `is Some` fact on the value itself or on the queue result it is taken from
        ee = show(e, 400) + " " + show(sl.expand(e), 400)
        ok = any(a[0] == "variant" and a[2] == "Some" and t and (show(a[1]) == show(e) or (show(a[1], 400) in ee and queue_derived(a[1]))) for (a, t) in fs)
        if ok:
            r1.ok("Sender::read returns first Some", "", loc(f.body.blocks[bb].term.sp))
        else:
            r1.violation("Sender::read returns first Some", "the queue result is returned without testing is_some()", loc(f.body.blocks[bb].term.sp))
    # sessions of a queue carry the queue's key as priority
    g = prog.fn(SENDER + "::new")
    ctx.analysed(g.path)
    slg = Slicer(g.body)
    ins = [s for s in call_sites(g, lambda p, c: p.endswith("BTreeMap::insert"))]
    ok_key = False
    for s in ins:
        ksrc = slg.sources(s.expr[2][1])
        if any(z == "var:priority" for z in ksrc):
            ok_key = True
    mk = []
    for cp in prog.with_closures(g.path):
        cf = prog.funcs[cp]
        for s in call_sites(cf, lambda p, c: p.endswith("SenderSession::new")):
            mk.append((cf, s))
    for cf, s in mk:
        a0 = show(s.expr[2][0])
        fdt_only = show(s.expr[2][3])
        key = "Sender::new SenderSession(priority=%s, fdt_only=%s)" % (a0, fdt_only)
        if fdt_only == "True":
            r1.ok(key, "FDT session", s.loc)
        elif "priority" in a0 and ok_key:
            r1.ok(key, "session priority = map key", s.loc)
        else:
            r1.violation(key, "object session created with priority %s which is not the queue key" % a0, s.loc)
    # eligibility requires equal priority
    h = prog.fn(FD + "::should_transfer_now")
    hflow = Flow(h.body)
    rets = list(ret_assign_blocks(h.body, lambda e: not (e[0] == "const" and e[2] is False)))
    bad = [(bb, e) for bb, e in rets
           if not any(a[0] == "eq" and t and {"self.priority", "priority"} == {show(a[1]), show(a[2])} for (a, t) in hflow.facts_at(bb))]
    key = "should_transfer_now priority match"
    if not rets:
        raise model.AnchorMissing("should_transfer_now: no return of a value other than `false` found")
    if not bad:
        r1.ok(key, "%d return(s) of a value other than false, each dominated by priority == self.priority" % len(rets), loc(h.sp))
    else:
        r1.violation(key, "should_transfer_now can accept an object of another priority queue (returns %s without the priority test)" % show(bad[0][1], 40), loc(h.sp))
    r1.floor(6, "priority facts")

    # ---- R2 ---------------------------------------------------------------------------------
    r2 = ctx.rule("C13.R2", "SenderSessionList.sessions is built once in Sender::new with max(1, multiplex_files) sessions and "
                            "never resized; a session holds at most one object (Option)", "WWF+TYP+ARG")
    acc = field_accesses(prog, SSL, "sessions")
    for a in acc:
        caller = a["func"].root().path
        key = "%s %s SenderSessionList.sessions" % (caller, a["kind"])
        if a["kind"] == "construct" and caller == SENDER + "::new":
            r2.ok(key, "", loc(a["sp"]))
        elif a["kind"] == "borrow_mut":
            continue
        elif a["kind"] in ("assign", "assign_sub", "construct"):
            r2.violation(key, "session list written outside Sender::new", loc(a["sp"]))
    allowed = {"get_mut", "len", "iter", "iter_mut", "get", "index", "index_mut", "is_empty", "fmt", "deref", "deref_mut"}
    for s, ai, mut in calls_on_field(prog, SSL, "sessions"):
        m = method_name(s)
        key = "%s calls %s on SenderSessionList.sessions" % (s.func.root().path, m)
        if s.func.derived or m in allowed:
            r2.ok(key, "", s.loc)
        else:
            r2.violation(key, "the number of sessions of a queue can change after construction (%s)" % m, s.loc)
    # the count: Range{start: 0, end: multiplex_files} with multiplex_files in {1, n}
    rng = [st for blk in g.body.blocks for st in blk.stmts if st.k == "assign" and st.rv.k == "aggr" and "Range" in (st.rv.j.get("adt") or "")]
    okc = False
    for st in rng:
        names = st.rv.j["fnames"]
        e_end = slg.sources(slg.x.operand(st.rv.ops[names.index("end")]))
        e_start = slg.x.operand(st.rv.ops[names.index("start")])
        if show(e_start) == "0" and "const:1" in e_end and any("multiplex_files" in z for z in e_end if z.startswith("var:")) :
            # the `1` must be the value of the arm selected by 0
            okc = True
            r2.ok("Sender::new session count", "0..match multiplex_files {0 => 1, n => n}", loc(st.sp))
    if not okc:
        r2.violation("Sender::new session count", "the number of sessions per queue is not derived from multiplex_files with 0 mapped to 1", loc(g.sp))
    arms = arm_int_match(g, r"multiplex_files")
    if arms is not None:
        if arms.get(0) == 1:
            r2.ok("Sender::new multiplex_files 0 => 1", "", loc(g.sp))
        else:
            r2.violation("Sender::new multiplex_files 0 => 1", "multiplex_files == 0 maps to %r sessions, expected 1" % (arms.get(0),), loc(g.sp))
    ty = field_type(prog, "sender::sendersession::SenderSession", "file")
    if ty.startswith("std::option::Option<"):
        r2.ok("SenderSession.file type", ty, "src/sender/sendersession.rs")
    else:
        r2.violation("SenderSession.file type", "a session can hold more than one object: %s" % ty, "src/sender/sendersession.rs")
    r2.floor(4, "multiplex facts")

    # ---- R3 ---------------------------------------------------------------------------------
    r3 = ctx.rule("C13.R3", "Fdt.files_transfer_queue is only grown by push_back, scanned front-to-back and shrunk by "
                            "remove(index)/retain", "WMC over mutators")
    ty = field_type(prog, FDT, "files_transfer_queue")
    if "VecDeque<" in ty:
        r3.ok("files_transfer_queue type", ty, "src/sender/fdt.rs")
    else:
        r3.violation("files_transfer_queue type", ty, "src/sender/fdt.rs")
    ok_m = {"push_back", "iter", "remove", "retain", "len", "is_empty", "fmt"}
    n = 0
    for s, ai, mut in calls_on_field(prog, FDT, "files_transfer_queue"):
        if s.func.derived:
            continue
        m = method_name(s)
        n += 1
        key = "%s calls %s on files_transfer_queue" % (s.func.root().path, m)
        if m in ok_m:
            r3.ok(key, "", s.loc)
        else:
            r3.violation(key, "%s breaks first-come-first-served admission" % m, s.loc)
    gq = prog.fn(FDT + "::get_next_file_transfer")
    ctx.analysed(gq.path)
    finds = call_sites(gq, lambda p, c: p.endswith("Iterator::find"))
    for s in finds:
        sty = (s.term.callee().get("substs") or [""])[0]
        key = "get_next_file_transfer scan order"
        if re.search(r"Enumerate<.*vec_deque::(iter::)?Iter<", sty) and "Rev<" not in sty:
            r3.ok(key, sty[:100], s.loc)
        else:
            r3.violation(key, "queue scanned with %s (not a forward scan of the VecDeque)" % sty[:120], s.loc)
    r3.floor(5, "queue mutators + scan")

    # ---- R4 ---------------------------------------------------------------------------------
    r4 = ctx.rule("C13.R4", "BlockEncoder.blocks grows only in read_block_{buffer,stream}, reached only from read_window under "
                            "`blocks.len() < block_multiplex_windows`, and the window is the configured interleave_blocks", "WMC+DOM+ARG")
    for s, ai, mut in calls_on_field(prog, BE, "blocks"):
        if s.func.derived:
            continue
        m = method_name(s)
        if m in ("push", "insert", "extend", "append", "resize", "resize_with", "push_within_capacity"):
            caller = s.func.root().path
            key = "%s %s BlockEncoder.blocks" % (caller, m)
            if re.search(r"BlockEncoder::read_block_(buffer|stream)$", caller) and m == "push":
                r4.ok(key, "", s.loc)
            else:
                r4.violation(key, "a block is opened outside the windowed readers", s.loc)
    # (read_window itself when the dispatcher read_block was folded into it - its only caller, checked by the next line while it exists)
    wmc(r4, prog, r"^sender::blockencoder::BlockEncoder::read_block_(buffer|stream)$",
        [r"^sender::blockencoder::BlockEncoder::read_block$"] + ([] if BE + "::read_block" in prog.funcs else [r"^sender::blockencoder::BlockEncoder::read_window$"]))
    wmc(r4, prog, r"^sender::blockencoder::BlockEncoder::read_block$", [r"^sender::blockencoder::BlockEncoder::read_window$"])
    w = prog.fn(BE + "::read_window")
    ctx.analysed(w.path)
    wflow = Flow(w.body)
    for s in call_sites(w, lambda p, c: p.endswith("BlockEncoder::read_block")):
        fs = wflow.facts_at(s.bb)
        ok = any(a[0] == "lt" and t and "self.blocks" in show(a[1]) and show(a[2]) == "self.block_multiplex_windows" for (a, t) in fs)
        if ok:
            r4.ok("read_window guard", "blocks.len() < block_multiplex_windows", s.loc)
        else:
            r4.violation("read_window guard", "read_block is called without `blocks.len() < block_multiplex_windows` holding "
                                              "(facts: %s)" % facts_text(wflow, s.bb), s.loc)
    nb = prog.fn(BE + "::new")
    for a in field_accesses(prog, BE, "block_multiplex_windows"):
        key = "%s %s block_multiplex_windows" % (a["func"].root().path, a["kind"])
        if a["kind"] == "construct" and a["func"].path == nb.path and show(a["value"]) == "block_multiplex_windows":
            r4.ok(key, "= parameter", loc(a["sp"]))
        elif a["kind"] == "borrow_mut":
            r4.violation(key, "window size mutably borrowed", loc(a["sp"]))
        else:
            r4.violation(key, "window size written: %s" % show(a["value"], 60), loc(a["sp"]))
    for s in find_calls(prog, r"^sender::blockencoder::BlockEncoder::new$"):
        key = "%s BlockEncoder::new window arg" % s.func.root().path
        if show(s.expr[2][1]) == "self.interleave_blocks":
            r4.ok(key, "", s.loc)
        else:
            r4.violation(key, "window argument is %s" % show(s.expr[2][1], 60), s.loc)
    r4.floor(6, "window facts")

    # round-robin: the slot cursor advances after every run(), also when that run produced a packet
    rq = prog.fn(SENDER + "::read_priority_queue")
    ctx.analysed(rq.path)
    rfl = Flow(rq.body)
    runs = call_sites(rq, lambda p, c: p.endswith("SenderSession::run"))
    SSL_ = "sender::sender::SenderSessionList"
    adv = set(a["bb"] for a in field_accesses(prog, SSL_, "index", funcs=[rq]) if a["kind"] == "assign" and
              a["value"][0] == "bin" and a["value"][1].startswith("Add") and show(a["value"][3]) == "1")
    rsl0 = Slicer(rq.body)

    def advance_value(v_, nm_=None):
        """the stored value is `cursor + 1` on one arm and a constant (the wrap to 0) on the others"""
        vals = [v_]
        if v_[0] == "tmp":
            vals = [rsl0.x.def_expr((db_, di_), rsl0.x.depth) for (db_, di_, dk_) in rq.body.defs().get(v_[1], []) if dk_ in ("whole", "call")]
        elif v_[0] == "var" and not v_[2]:
            vals = [d_ for (pj_, d_, _b) in rsl0.var_defs().get(v_[1], []) if pj_ == ""]
        exs = [rsl0.expand(z_) for z_ in vals]
        rx_ = r"\.index\b" + ((r"|\b%s\b" % re.escape(nm_)) if nm_ else "")
        plus1 = [z_ for z_ in exs if z_[0] == "bin" and z_[1].startswith("Add") and show(z_[3]) == "1" and re.search(rx_, show(z_[2]))]
        rest = [z_ for z_ in exs if z_ not in plus1]
        return bool(plus1) and all(z_[0] == "const" for z_ in rest)
    # `sessions.index = if next == len { 0 } else { next }` with `next = sessions.index + 1`
    adv |= set(a["bb"] for a in field_accesses(prog, SSL_, "index", funcs=[rq]) if a["kind"] == "assign" and advance_value(a["value"]))
    # the same advance written through a reference to the cursor (`let SenderSessionList { index: cursor, .. } = sessions; *cursor = if
    # next == len { 0 } else { next }` with `next = *cursor + 1`): a store through a local that borrows `.index`, whose value is `cursor + 1`
    # on one arm and a constant (the wrap to 0) on the others
    rsl = Slicer(rq.body)
    refs_ = set(nm for nm, ds_ in rsl.var_defs().items() if any(pj_ == "" and d_[0] == "ref" and show(d_[1]).endswith(".index") for (pj_, d_, _b) in ds_))
    for blk in rq.body.blocks:
        if blk.cleanup:
            continue
        for st in blk.stmts:
            if st.k == "assign" and st.lhs[1] == (("*",),) and rq.body.names.get(st.lhs[0]) in refs_:
                nm_ = rq.body.names[st.lhs[0]]
                v_ = rsl.x.rvalue(st.rv, rsl.x.depth)
                vals = [v_]
                if v_[0] == "tmp":
                    vals = [rsl.x.def_expr((db_, di_), rsl.x.depth) for (db_, di_, dk_) in rq.body.defs().get(v_[1], []) if dk_ in ("whole", "call")]
                elif v_[0] == "var" and not v_[2]:
                    vals = [d_ for (pj_, d_, _b) in rsl.var_defs().get(v_[1], []) if pj_ == ""]
                exs = [rsl.expand(z_) for z_ in vals]
                plus1 = [z_ for z_ in exs if z_[0] == "bin" and z_[1].startswith("Add") and show(z_[3]) == "1" and re.search(r"\b%s\b|\.index\b" % re.escape(nm_), show(z_[2]))]
                rest = [z_ for z_ in exs if z_ not in plus1]
                if plus1 and all(z_[0] == "const" for z_ in rest):
                    adv.add(blk.i)
    somes = [bb for bb, e in ret_assign_blocks(rq.body, lambda e: not is_variant(e, "None"))]
    key = "read_priority_queue: cursor advances before a packet is returned"
    if not runs or not adv or not somes:
        r2.violation(key, "run() call (%d) / `index += 1` (%d) / packet return (%d) not found" % (len(runs), len(adv), len(somes)), loc(rq.sp))
    else:
        bad = None
        for s in runs:
            for rb in somes:
                ok, w = rfl.must_pass(s.term.target, [rb], lambda n: n[0] == "b" and n[1] in adv)
                if not ok:
                    bad = w
        if bad is None:
            r2.ok(key, "every path from session.run() to `return data` passes sessions.index += 1", loc(rq.sp))
        else:
            r2.violation(key, "a slot that delivers a packet keeps the turn (the cursor is not advanced on the returning path): with multiplex_files >= 2 "
                              "the other slots are starved although their objects are ready: %s" % path_text(rq.body, bad), loc(rq.sp))

    # ---- R5 a yielding higher-priority session is not overtaken -------------------------------------------
    r5 = ctx.rule("C13.R5", "a session that has a ready object returns None from run() only to let a pending FDT instance out; since "
                            "Sender::read takes the first Some in priority order, strict priority then requires that *every* object "
                            "session yields while an FDT is pending: every path of SenderSession::run to encoder.read()/new_alc_pkt "
                            "passes the not-pending edge of need_transfer_fdt() (same analysis as C11.R2)", "MPT under assumption")
    from . import c11
    c11.fdt_pending_gate(ctx, r5)


def arm_int_match(func, scrut_regex):
    """for `match <int scrutinee> {0 => c, n => ..}`: {matched value: constant assigned in the arm}"""
    body = func.body
    x = X(body)
    for blk in body.blocks:
        t = blk.term
        if t.k == "switch" and t.dty != "bool" and re.search(scrut_regex, show(x.operand(t.discr))):
            out = {}
            for v, tgt in t.targets:
                for s in body.blocks[tgt].stmts:
                    if s.k == "assign" and not s.lhs[1]:
                        cv = const_value(x.rvalue(s.rv, x.depth))
                        if cv is not None:
                            out[v] = cv
            return out
    return None
