"""C04 — untrusted input: panic-site / loop / allocation / external-precondition inventory over everything reachable from
the receiver's entry points."""
import re

from ..rules import *  # noqa
from ..model import X, show, loc, walk, norm_path
from ..cfg import Flow, Slicer, find_calls, call_sites, show_fact
from .. import ranges, loops

ENTRIES = [r"^receiver::multireceiver::MultiReceiver::(push|cleanup)$", r"^receiver::receiver::Receiver::(push|push_data|cleanup)$",
           r"^<receiver::\S+ as (std|core)::ops::Drop>::drop$"]

EXTERNAL_CRATES = ("raptorq", "raptor_code", "reed_solomon_erasure", "flate2", "quick_xml", "base64", "url", "chrono", "md5", "serde_json", "serde")


def analysed_set(prog):
    entries = []
    for r in ENTRIES:
        fs = prog.find(r)
        if not fs:
            raise model.AnchorMissing("no entry function matches %s" % r)
        entries += [f.path for f in fs]
    reach = prog.reachable_from(entries)
    # callbacks from external generic code into local impls of external traits (io::Read / io::Write for RingBuffer …):
    # a local impl is reachable as soon as its Self type occurs in a reachable function
    changed = True
    while changed:
        changed = False
        mentioned = set()
        for p in reach:
            for l in prog.funcs[p].body.locals:
                mentioned.add(l["ty"])
        blob = " ".join(mentioned)
        for imp in prog.impls:
            if "trait" not in imp or imp.get("trait_local") or imp.get("derived"):
                continue
            if re.search(r"(fmt::Debug|fmt::Display|clone::Clone|cmp::|hash::Hash|default::Default|marker::|serde::|convert::(From|TryFrom|Into)|ops::Drop)", imp["trait"]):
                if "ops::Drop" not in imp["trait"] and "convert::" not in imp["trait"]:
                    continue
            st = norm_path(imp["self_ty"])
            if st in blob:
                for m in imp["methods"]:
                    if m["path"] in prog.funcs and m["path"] not in reach:
                        reach |= prog.reachable_from([m["path"]])
                        changed = True
    return entries, reach


def refcell_discipline(prog, reach):
    """cell inner types T for which no function holds a Ref/RefMut<T> guard across a call that may borrow a RefCell<T> again.
    returns {T: (ok, reason)}"""
    borrows = {}   # T -> [(func path, bb)]
    for p in sorted(reach):
        f = prog.funcs[p]
        for bb, t in f.body.calls():
            cp = norm_path(t.callee_path() or "")
            if re.search(r"cell::RefCell<.*>::(borrow|borrow_mut)$|cell::RefCell::(borrow|borrow_mut)$", cp):
                T = (t.callee().get("substs") or ["?"])[0]
                borrows.setdefault(T, []).append((p, bb))
    may_borrow = {}

    def mb(p, T, seen):
        key = (p, T)
        if key in may_borrow:
            return may_borrow[key]
        if p in seen:
            return False
        seen.add(p)
        res = any(q == p for q, _ in borrows.get(T, []))
        if not res:
            for q in prog.callgraph().get(p, ()):
                if mb(q, T, seen):
                    res = True
                    break
        may_borrow[key] = res
        return res

    out = {}
    for T, sites in borrows.items():
        ok, why = True, "no guard of this cell is held across a call that can borrow it again"
        for (p, bb) in sites:
            f = prog.funcs[p]
            t = f.body.blocks[bb].term
            if t.dest is None or t.dest[1]:
                continue
            g = t.dest[0]
            # live range: blocks reachable from the borrow until the guard local is dropped / moved out
            ends = set(b.i for b in f.body.blocks if b.term.k == "drop" and b.term.place is not None and b.term.place == (g, ()))
            # the guard may be moved into a named local first
            moved = set([g])
            for b in f.body.blocks:
                for s in b.stmts:
                    if s.k == "assign" and s.rv.k == "use" and s.rv.ops[0].place is not None and s.rv.ops[0].place == (g, ()) and not s.lhs[1]:
                        moved.add(s.lhs[0])
            ends |= set(b.i for b in f.body.blocks if b.term.k == "drop" and b.term.place is not None and b.term.place[0] in moved and not b.term.place[1])
            live = set()
            st = [t.target] if t.target is not None else []
            while st:
                n = st.pop()
                if n in live:
                    continue
                live.add(n)
                if n in ends:
                    continue
                st.extend(f.body.succs(n, False))
            for n in live:
                tt = f.body.blocks[n].term
                if tt.k != "call" or n in ends:
                    continue
                if n == bb:
                    continue
                cp2 = norm_path(tt.callee_path() or "")
                if re.search(r"cell::RefCell.*::(borrow|borrow_mut)$", cp2) and (tt.callee().get("substs") or ["?"])[0] == T:
                    ok, why = False, "%s borrows the cell again at line %s while a guard taken at line %s is live" % (p, tt.sp[1] if tt.sp else "?", t.sp[1] if t.sp else "?")
                for q in prog.callee_targets(tt.callee())[0]:
                    if mb(q, T, set()):
                        ok, why = False, "%s calls %s (line %s), which can borrow the cell, while holding a guard taken at line %s" % (p, q, tt.sp[1] if tt.sp else "?", t.sp[1] if t.sp else "?")
        out[T] = (ok, why)
    return out


def param_ranges(prog, reach, field_inv):
    """intervals of integer parameters of non-public local functions = join of the argument intervals over all call sites in the
    analysed set (one top-down round in call-graph order; public functions and trait methods keep the type range)"""
    from ..loops import sccs
    cg = {p: [q for q in prog.callgraph()[p] if q in reach] for p in reach}
    comps = sccs(cg)          # reverse topological (callees first)
    order = [c for comp in reversed(comps) for c in comp]
    params = {}
    callers_args = {}         # callee -> list of {param name: interval}
    for p in order:
        f = prog.funcs[p]
        if f.derived:
            continue
        pr = None
        if p in callers_args and f.vis != "pub" and not f.impl_trait and f.kind != "closure":
            pr = {}
            for d in callers_args[p]:
                for k, v in d.items():
                    if v is None:
                        pr[k] = None
                    elif k not in pr:
                        pr[k] = v
                    elif pr[k] is not None:
                        pr[k] = (min(pr[k][0], v[0]), max(pr[k][1], v[1]))
            pr = {k: v for k, v in pr.items() if v is not None}
        params[p] = pr or {}
        try:
            r = ranges.Ranges(prog, f, params=params[p], field_invariants=field_inv)
            r.run()
        except Exception:
            continue
        for (bb, st) in r.call_states:
            t = f.body.blocks[bb].term
            c = t.callee()
            if c is None or c.get("rkind") != "item":
                continue
            q = c.get("rpath")
            if q not in prog.funcs or q not in reach:
                continue
            g = prog.funcs[q]
            d = {}
            for i, a in enumerate(t.args):
                l = i + 1
                nm = g.body.names.get(l)
                if nm is None:
                    continue
                v, _ = r.operand(st, a)
                ty = g.body.locals[l]["ty"]
                if ranges.ty_bounds(ty) is None:
                    continue
                d[nm] = v
            callers_args.setdefault(q, []).append(d)
    return params


def run(ctx):
    import tables.c04_table as T
    prog = ctx.prog
    ctx.explanation = (
        "C04 — 'no packet sequence can panic, hang or blow up the receiver' is attacked as an exhaustive inventory over the MIR of "
        "every function reachable from MultiReceiver::{push, cleanup}, Receiver::{push, push_data, cleanup} and the receiver-side "
        "Drop impls (dyn calls expanded to all local impls, callbacks into local io::Read/Write impls included).  R1: every panic-"
        "capable site (Assert terminators: bounds / overflow / division; calls to a frozen list of panicking std APIs; explicit "
        "panics) is AUTO (discharged by the range interpreter: intervals, lengths, Some/Ok-ness, difference facts, caller-derived "
        "parameter ranges, RefCell guard discipline), TABLE (reviewed by hand, reason recorded, `requires` guards re-checked on "
        "every run), KNOWN (listed finding) or a VIOLATION.  R2: every loop and call-graph cycle has a progress argument.  R3: "
        "allocations sized by wire data are guarded.  R4: calls into third-party crates whose documented preconditions panic are "
        "guarded.  'A valid session pushed afterwards is still delivered', wall-clock and heap numbers are NOT decided.")
    ctx.not_decided += ["a valid session pushed after a rejected packet is still delivered (behavioural)", "time bounds", "heap bytes"]
    ctx.assume("dependencies (raptorq, raptor-code, reed-solomon-erasure, flate2, quick-xml, base64, url, chrono, md5) do not panic "
               "when the preconditions listed in tables/c04_table.py hold")
    ctx.assume("debug_assert!/log! expansions are not counted as panic sites for release semantics; debug_assert sites are listed under R1d")
    entries, reach = analysed_set(prog)
    ctx.analysed(*reach)
    ctx.extra["entry_points"] = entries

    # declared field ranges, verified where the field is written
    r0 = ctx.rule("C04.R0", "declared field invariants hold at every construction / assignment of the field (then assumed at reads)", "E4 induction")
    field_inv = {}
    for (adt, field, lo, hi, why) in T.FIELD_RANGES:
        okall = True
        n = 0
        for a in field_accesses(prog, adt, field):
            if a["func"].derived:
                continue  # derive(Clone) copies the field of a value that already satisfies the invariant
            if a["kind"] == "borrow_mut":
                okall = False
                r0.violation("%s.%s mutably borrowed in %s" % (adt.split("::")[-1], field, a["func"].path), "declared range cannot be maintained", loc(a["sp"]))
                continue
            n += 1
            f = a["func"]
            r = ranges.Ranges(prog, f, field_invariants=field_inv)
            r.run()
            st = r.entry.get(a["bb"])
            val = None
            if st is not None:
                st = st.copy()
                blk = f.body.blocks[a["bb"]]
                for i, s2 in enumerate(blk.stmts):
                    if a["idx"] != "term" and i == a["idx"]:
                        if a["kind"] == "construct":
                            names = s2.rv.j["fnames"]
                            val, _ = r.operand(st, s2.rv.ops[names.index(field)])
                        elif s2.rv.k == "use":
                            val, _ = r.operand(st, s2.rv.ops[0])
                        elif s2.rv.k == "cast":
                            v0, _ = r.operand(st, s2.rv.ops[0])
                            val = v0
                        break
                    if s2.k == "assign":
                        r.assign(st, s2.lhs, s2.rv, a["bb"], s2.sp)
            key = "%s.%s in [%s, %s] at %s (%s)" % (adt.split("::")[-1], field, lo, hi, f.path.split("::")[-1], a["kind"])
            if val is not None and val[0] >= lo and val[1] <= hi:
                r0.ok(key, "value range %s" % (val,), loc(a["sp"]))
            else:
                okall = False
                r0.violation(key, "assigned value ranges over %s (%s)" % (val, why), loc(a["sp"]))
        if okall and n:
            field_inv[r"\.%s$" % re.escape(field)] = (lo, hi)
    ctx.extra["field_invariants"] = sorted(field_inv)

    cells = refcell_discipline(prog, reach)
    params = param_ranges(prog, reach, field_inv)
    ctx.extra["functions_with_derived_param_ranges"] = sum(1 for v in params.values() if v)

    r1 = ctx.rule("C04.R1", "every panic-capable site reachable from the receiver entry points is discharged (AUTO), reviewed (TABLE) "
                            "or a known finding", "E1 inventory + E4 discharge")
    r1d = ctx.rule("C04.R1d", "debug_assert! sites (debug builds only) — listed, discharged where possible; open ones need a TABLE entry", "E4")
    counts = {"AUTO": 0, "TABLE": 0, "open": 0}
    used_table = set()
    per_func_open = {}
    allsites = []
    for p in sorted(reach):
        f = prog.funcs[p]
        if f.derived:
            continue
        r = ranges.Ranges(prog, f, params=params.get(p) or {}, field_invariants=field_inv)
        r.run()
        for s in r.sites:
            if ranges._is_log(s.expn):
                continue
            allsites.append(s)
    seen_keys = {}
    func_used = {}
    used_shapes = set()   # table entries consumed by shape (renamed-local) matching
    pending_dbg = []
    for s in allsites:
        dbg = any(e in ("debug_assert", "debug_assert_eq", "debug_assert_ne") for e in s.expn)
        rule = r1d if dbg else r1
        base = s.key()
        n = seen_keys.get(base, 0)
        seen_keys[base] = n + 1
        key = base
        status, detail = s.status, s.detail
        if status != "AUTO" and s.kind == "refcell":
            T_ = None
            t = s.func.body.blocks[s.bb].term
            T_ = (t.callee().get("substs") or ["?"])[0]
            ok, why = cells.get(T_, (False, "cell type not analysed"))
            if ok:
                status, detail = "AUTO", "RefCell<%s>: %s" % (T_.split("::")[-1], why)
            else:
                detail = "RefCell<%s>: %s" % (T_.split("::")[-1], why)
        if status == "AUTO":
            counts["AUTO"] += 1
            rule.ok(key, detail, s.loc, how="AUTO")
            continue
        ent = T.lookup(T.SITES, base, n, used_shapes)
        if ent is None:
            # the same site with a sub-expression hoisted into a named local (`let k = self.params.nb_source_symbols; &v[..k]`): compare the
            # site's text with single-definition locals substituted
            t_ = s.func.body.blocks[s.bb].term
            sl_ = _slicer_cache.setdefault(s.func.path, Slicer(s.func.body))
            txt2 = None
            if t_.k == "call":
                txt2 = show(sl_.expand(sl_.x.call_expr(s.bb, t_, sl_.x.depth)), 160)
            elif t_.k == "assert" and "(" in s.text:
                txt2 = "%s(%s)" % (s.text.split("(", 1)[0], ", ".join(show(sl_.expand(sl_.x.operand(o)), 70) for o in t_.ops))
            if txt2 is not None and txt2 != s.text:
                ent = T.lookup(T.SITES, "%s|%s|%s" % (s.func.path, s.kind, txt2), n, used_shapes)
                if ent is None:
                    # … or the reviewed entry is the one written with intermediates and the site now has them written out: compare both expanded
                    for e_ in T.SITES_LIST:
                        ep_ = e_["_key"].split("|", 2)
                        if len(ep_) == 3 and ep_[0] == s.func.path and ep_[1] == s.kind and id(e_) not in used_shapes and e_.get("xkey") == txt2:
                            used_shapes.add(id(e_))
                            ent = e_
                            break
        if ent is None and s.kind == "unwrap":
            # the unwrapped value is a local assigned once per arm (`let r = if a < b { b.duration_since(a) } else { a.duration_since(b) };
            # r.unwrap()`): the site is discharged when every definition is a reviewed site whose requirements hold where it is made
            t_ = s.func.body.blocks[s.bb].term
            sl_ = _slicer_cache.setdefault(s.func.path, Slicer(s.func.body))
            a0_ = sl_.x.operand(t_.args[0]) if t_.k == "call" and t_.args else None
            while a0_ is not None and a0_[0] == "ref":
                a0_ = a0_[-1]
            if a0_ is not None and a0_[0] == "var" and not a0_[2]:
                vds_ = value_defs(sl_, a0_[1])
                if len(vds_) >= 2:
                    import copy as _copy
                    ents_, probs_ = [], []
                    for (e_, bb_) in vds_:
                        txt_ = "%s(%s)" % (s.text.split("(", 1)[0], show(e_, 140))
                        en_ = T.lookup(T.SITES, "%s|%s|%s" % (s.func.path, s.kind, txt_), 0, used_shapes)
                        if en_ is None:
                            ents_ = None
                            break
                        s2_ = _copy.copy(s)
                        s2_.bb = bb_
                        ents_.append(en_)
                        probs_ += check_requires(ctx, prog, en_.get("requires", []), site=s2_)
                    if ents_:
                        for en_ in ents_:
                            used_table.add(en_["_key"])
                        if probs_:
                            rule.violation(key, "reviewed site (one per definition of `%s`) whose recorded guard no longer holds: %s" % (a0_[1], "; ".join(probs_)), s.loc)
                        else:
                            counts["TABLE"] += 1
                            rule.ok(key, "reviewed, per definition of `%s`: %s" % (a0_[1], " / ".join(en_["why"] for en_ in ents_)), s.loc, how="TABLE")
                        continue
        if ent is None and s.func.path in T.FUNCS:
            fe = T.FUNCS[s.func.path]
            kk = (s.func.path, s.kind)
            used = func_used.get(kk, 0)
            if used < fe["budget"].get(s.kind, 0):
                func_used[kk] = used + 1
                ent = fe
        if ent is not None:
            problems = check_requires(ctx, prog, ent.get("requires", []), site=s)
            used_table.add(ent["_key"])
            if problems:
                rule.violation(key, "reviewed site whose recorded guard no longer holds: %s (review note: %s)" % ("; ".join(problems), ent["why"]), s.loc)
            else:
                counts["TABLE"] += 1
                rule.ok(key, "reviewed: " + ent["why"] + (" [table entry matched up to local names %s]" % ent["renamed"] if ent.get("renamed") else ""), s.loc, how="TABLE")
            continue
        if dbg and s.kind == "panic" and "assertion failed" in s.text:
            pending_dbg.append((s, key, detail))
            continue
        counts["open"] += 1
        rule.violation(key, "%s site not discharged: %s" % (s.kind, detail), s.loc)
    # debug_assert! sites whose condition was re-spelled (`debug_assert!(block_len <= self.bytes_left)` for `data.len() <= ..`): the label of
    # such a site is the source text of its condition.  A site that matches no entry is paired, in order, with the reviewed debug_assert
    # entries of the same function that matched nothing; the entry's `requires` are still checked at the new site.  (debug builds only.)
    for (s, key, detail) in pending_dbg:
        cand = [e for e in T.SITES_LIST if e["_key"].startswith(s.func.path + "|panic|panicking::panic(\"assertion failed") and e["_key"] not in used_table]
        if cand:
            ent = cand[0]
            used_table.add(ent["_key"])
            problems = check_requires(ctx, prog, ent.get("requires", []), site=s)
            if problems:
                r1d.violation(key, "reviewed site whose recorded guard no longer holds: %s (review note: %s)" % ("; ".join(problems), ent["why"]), s.loc)
            else:
                counts["TABLE"] += 1
                r1d.ok(key, "reviewed (debug_assert re-spelled, paired with the entry `%s`): %s" % (ent["_key"].split("|", 2)[2][:80], ent["why"]), s.loc, how="TABLE")
            continue
        counts["open"] += 1
        r1d.violation(key, "%s site not discharged: %s" % (s.kind, detail), s.loc)
    ctx.extra["site_counts"] = counts
    r1.floor(280, "panic-capable sites in the analysed set (cross-checked against the opt-in clippy restriction lints)")
    for k in sorted((set(e["_key"] for e in T.SITES_LIST) | set(e["_key"] for e in T.FUNCS.values())) - used_table):
        r1.note("unused table entry", "no open site matches table key %s any more (code changed or now discharged automatically)" % k, "sa/tables/c04_table.py")

    # ---- R2 termination ------------------------------------------------------------------------
    r2 = ctx.rule("C04.R2", "no call-graph cycle and no loop without a progress argument in the analysed set", "loop inventory")
    loops.check_loops(ctx, r2, ENTRIES, table=T.LOOPS)
    r2.floor(10, "loops")

    # ---- R3 allocations --------------------------------------------------------------------------
    r3 = ctx.rule("C04.R3", "allocations whose size derives from packet / FDT data are dominated by a comparison of that size with a "
                            "constant or a configured limit", "DOM+E4")
    alloc_rx = re.compile(r"((alloc|std)::vec::from_elem|Vec<.*>::with_capacity|Vec::with_capacity|Vec::resize|Vec::resize_with|VecDeque::resize_with|VecDeque::with_capacity|"
                          r"Vec::reserve|RingBuffer::new|String::with_capacity)$")
    nall = 0
    for p in sorted(reach):
        f = prog.funcs[p]
        if f.derived:
            continue
        for s in call_sites(f, lambda pth, c: alloc_rx.search(pth) is not None):
            nall += 1
            base = "%s|alloc|%s" % (p, show(s.expr, 120))
            ent = T.lookup(T.ALLOCS, base, 0, used_shapes)
            if ent is not None:
                problems = check_requires(ctx, prog, ent.get("requires", []))
                if problems:
                    r3.violation(base, "recorded bound no longer holds: %s" % "; ".join(problems), s.loc)
                else:
                    r3.ok(base, "reviewed: " + ent["why"], s.loc, how="TABLE")
            else:
                r3.violation(base, "allocation sized by %s has no recorded bound" % show(s.expr[2][-1] if s.expr[2] else s.expr, 80), s.loc)
    r3.floor(5, "allocation sites")

    # ---- R4 external preconditions ----------------------------------------------------------------
    r4 = ctx.rule("C04.R4", "every call from the analysed set into a third-party crate is listed with its precondition; preconditions "
                            "whose violation panics inside the dependency are guarded", "call inventory + TABLE")
    next_ = {}
    ext_sites = []
    for p in sorted(reach):
        f = prog.funcs[p]
        if f.derived:
            continue
        for bb, t in f.body.calls():
            c = t.callee()
            if c is None:
                continue
            kr = c.get("krate")
            cp = norm_path(c.get("rpath") or c["path"])
            if kr in EXTERNAL_CRATES or any(cp.startswith(k + "::") or ("<" + k + "::") in cp for k in EXTERNAL_CRATES):
                if ranges._is_log(t.sp[5] if t.sp else []):
                    continue
                if re.match(r"^<[\w:]+(<.*>)? as (std|core)::(cmp::(PartialEq|Eq|PartialOrd|Ord)|clone::Clone|hash::Hash|fmt::(Debug|Display))(<.*>)?>::\w+$", cp):
                    # comparison / clone / hash / formatting of a third-party value (`*e == ParseError::X` for `match e { X => .. }`): total
                    # functions of their arguments, nothing to review
                    continue
                base = "%s|ext|%s" % (p, model.short_callee(cp))
                n = next_.get(base, 0)
                next_[base] = n + 1
                ent = T.lookup(T.EXTERNAL, base, 0, used_shapes) or (None if base in T.EXTERNAL_NO_WILDCARD else T.lookup(T.EXTERNAL, "*|ext|%s" % model.short_callee(cp), 0))
                ext_sites.append((p, t, base, ent, kr, cp))
    callers_of = {}
    for (p, t, base, ent, kr, cp) in ext_sites:
        if ent is not None:
            callers_of.setdefault(id(ent), set()).add(p)
    for (p, t, base, ent, kr, cp) in ext_sites:
        if ent is None:
            r4.violation(base, "call into %s (%s) without a recorded precondition review" % (kr, cp), loc(t.sp))
        else:
            # a wildcard entry is shared by several callers: a requirement that names one of them is reported at that caller only
            here = [rq for rq in ent.get("requires", [])
                    if not (len(rq) > 1 and isinstance(rq[1], str) and rq[1] in callers_of[id(ent)] and rq[1] != p)]
            problems = check_requires(ctx, prog, here)
            if problems:
                r4.violation(base, "precondition guard missing: %s (%s)" % ("; ".join(problems), ent["why"]), loc(t.sp))
            else:
                r4.ok(base, ent["why"], loc(t.sp), how="TABLE")
    r4.floor(10, "external call sites")

    # ---- R5 rejected packet leaves the receiver usable (narrow) --------------------------------------
    r5 = ctx.rule("C04.R5", "MultiReceiver::push parses the packet before touching any session state: no write to alc_receiver / "
                            "tsifilter / listeners on a path that returns the parse error", "DOM")
    f = prog.fn("receiver::multireceiver::MultiReceiver::push")
    fl = Flow(f.body)
    parse = call_sites(f, lambda pth, c: pth == "common::alc::parse_alc_pkt")
    if not parse:
        raise model.AnchorMissing("MultiReceiver::push does not call parse_alc_pkt")
    touch = [s for s, ai, mut in calls_on_field(prog, "receiver::multireceiver::MultiReceiver", "alc_receiver", funcs=[f])] + \
        [s for s in call_sites(f, lambda pth, c: pth.startswith("receiver::multireceiver::MultiReceiver::get_receiver"))]
    for s in touch:
        if all(fl.dominates(pb.bb, s.bb) for pb in parse):
            r5.ok("push: %s after parse_alc_pkt" % model.short_callee(s.term.callee_path()), "", s.loc)
        else:
            r5.violation("push: %s after parse_alc_pkt" % model.short_callee(s.term.callee_path()), "session state touched before the packet was validated", s.loc)
    r5.floor(2, "session accesses")

    # ---- R6 a rejected FDT instance does not shadow later valid copies ---------------------------------
    r6 = ctx.rule("C04.R6", "a rejected packet leaves the receiver usable: an FDT instance receiver that ended in Error (corrupted / malformed "
                            "instance) or Expired is released by Receiver::cleanup_fdt, so a later valid copy of the same instance id is accepted "
                            "(decision table of the retain predicate over the instance states, shared with C17.R3)", "E3 decision table")
    from . import c17
    c17.fdt_retain_rule(ctx, r6)
    c17.cache_reset_rule(ctx, r6)     # the pre-OTI packet cache stays bounded: its byte counter is only reset with the cache
    r6.floor(4, "state scenarios")


_req_cache = {}


_flow_cache = {}
_slicer_cache = {}


def fact_matches(rx_, fact):
    """regex against the POSITIVE text of the fact's atom; the fact must hold positively, unless the regex starts with '!'
    (then the atom must hold negatively).  A pattern can therefore never match inside a `not(..)` by accident."""
    neg = rx_.startswith("!")
    if neg:
        rx_ = rx_[1:]
    (atom, truth) = fact
    if truth == neg:
        return False
    txt_ = show_fact((atom, True))
    if re.search(rx_, txt_) is not None:
        return True
    if "~" in txt_ and re.search(rx_, re.sub(r"~\d+", "", txt_)) is not None:
        return True      # `name~2` is the analyser's label for a second local called `name` (shadowing, an inlined helper's local)
    # `x == Enum::V` is the same test as the match arm `x is V`: patterns are written in the `is` form
    if atom[0] == "eq":
        for x_, y_ in ((atom[1], atom[2]), (atom[2], atom[1])):
            m = re.search(r"::(\w+)\{\}$", show(y_, 200))
            if m and re.search(rx_, "%s is %s" % (show(x_, 300), m.group(1))) is not None:
                return True
    return False


_REGEX_WORDS = {"self", "len", "not", "is", "Some", "None", "as", "usize", "data", "Range", "start", "end"}


def relax_renamed(rx_, func):
    """identifiers of the pattern that are not (or no longer) names of locals of `func` may be locals that were renamed since the entry was
    written: let them match any local name.  Field names, paths and call names are untouched (they follow `.` / `::` or precede `(`)."""
    if func is None:
        return None
    names = set(re.sub(r"~\d+$", "", n) for n in func.body.names.values())

    def sub(m):
        w = m.group(1)
        if w in names or w in _REGEX_WORDS or len(w) < 3:
            return m.group(0)
        return r"\w+(?:~\d+)?"
    out = re.sub(r"(?<![\w.:\\])([a-z_][a-z0-9_]{2,})(?![\w(]|::|\\\()", sub, rx_)
    return out if out != rx_ else None


def any_fact(rx_, facts, func=None):
    """alternatives separated by ' || ' (each may carry its own '!')"""
    if any(fact_matches(alt, f) for alt in rx_.split(" || ") for f in facts):
        return True
    rel = relax_renamed(rx_, func)
    if rel is not None:
        try:
            return any(fact_matches(alt, f) for alt in rel.split(" || ") for f in facts)
        except re.error:
            return False
    return False


def _per_arm_dom(rx_, site, f, fl, sl_):
    """`let (earlier, later) = if a < b { (a, b) } else { (b, a) }; later.duration_since(earlier).unwrap()`: the operands of the site are locals
    destructured from one tuple per arm.  The ordering requirement (written over the operand names) is then checked per arm, with the operand
    names replaced by that arm's values, against the facts that hold where the arm builds its tuple; `<` is relaxed to `<=` (the reviewed
    requirement of such sites is `earlier <= later`; the strictness of the recorded pattern came from the branch it was written on)."""
    t_ = f.body.blocks[site.bb].term
    if t_.k != "call":
        return False
    e_ = sl_.x.call_expr(site.bb, t_, sl_.x.depth)
    names = []
    for z_ in walk(e_):
        if z_[0] == "var" and not z_[2] and z_[1] not in names:
            names.append(z_[1])
    arms = {}
    for nm_ in names:
        vd_ = value_defs(sl_, nm_)
        if len(vd_) >= 2:
            arms[nm_] = vd_
    if len(arms) < 2:
        return False
    nbb = set(tuple(bb_ for _e, bb_ in v_) for v_ in arms.values())
    if len(nbb) != 1:
        return False
    bbs = list(nbb)[0]
    rel = re.sub(r" < ", " <=? ", rx_)
    for i_, bb_ in enumerate(bbs):
        pat = rel
        for nm_, v_ in arms.items():
            pat = re.sub(r"(?<![\w.])%s(?![\w~])" % re.escape(re.sub(r"~\d+$", "", nm_)), "\x00" + nm_ + "\x00", pat)
        for nm_, v_ in arms.items():
            pat = pat.replace("\x00" + nm_ + "\x00", re.escape(show(v_[i_][0], 120)))
        try:
            if not any_fact(pat, list(fl.facts_at(bb_)), f):
                return False
        except re.error:
            return False
    return True


def check_requires(ctx, prog, reqs, site=None):
    probs = []
    for rq in reqs:
        if rq[0] == "dom":
            # ("dom", regex): the site itself is dominated by a fact whose text matches (checked in the site's own function)
            if site is None:
                probs.append("`dom` requirement without a site")
                continue
            f = site.func
            fl = _flow_cache.setdefault(f.path, Flow(f.body))
            fs_ = list(fl.facts_at(site.bb))
            if f.kind == "closure":
                # facts that hold where the enclosing function builds the closure hold inside it (the adaptors run it before returning)
                root_ = f.root()
                rfl_ = _flow_cache.setdefault(root_.path, Flow(root_.body))
                for blk_ in root_.body.blocks:
                    if not blk_.cleanup and any(st_.k == "assign" and st_.rv.k == "aggr" and st_.rv.j.get("ak") == "closure" and
                                                (st_.rv.j.get("path") == f.path or st_.rv.j.get("closure") == f.path or f.path in str(st_.rv.j)[:400]) for st_ in blk_.stmts):
                        fs_.extend(rfl_.facts_at(blk_.i))
            # the same facts with single-definition locals substituted (`offset < len` where `offset = sbn.checked_sub(off)@Some.0`)
            sl_ = _slicer_cache.setdefault(f.path, Slicer(f.body))
            for (a_, t_) in list(fs_):
                if a_[0] in ("lt", "le", "eq"):
                    b_ = (a_[0], sl_.expand(a_[1]), sl_.expand(a_[2]))
                    if b_ != a_:
                        fs_.append((b_, t_))
                elif a_[0] == "variant" and any(z_[0] == "call" and z_[1].endswith("::next") for z_ in walk(a_[1])):
                    # an iteration of a loop: the iterator's origin (`Range{start: 0, end: ..}`, `into_iter(&self.x)`) is part of the fact
                    fs_.append((("variant", ("opaque", origin_text(sl_, a_[1])), a_[2]), t_))
            if not any_fact(rq[1], fs_, f) and _per_arm_dom(rq[1], site, f, fl, sl_):
                continue
            if not any_fact(rq[1], fs_, f):
                probs.append("site no longer dominated by /%s/ (facts here: %s)" % (rq[1], "; ".join(show_fact(x) for x in fl.facts_at(site.bb))[:200]))
            continue
        key = repr(rq)
        if key not in _req_cache:
            _req_cache[key] = _check_one(ctx, prog, rq)
        if _req_cache[key]:
            probs.append(_req_cache[key])
    return probs


def _check_one(ctx, prog, rq):
    kind = rq[0]
    if kind == "guard":
        # ("guard", function path, regex on a fact text): some switch edge of the function carries that fact
        _, fp, rx_ = rq
        f = prog.funcs.get(fp)
        if f is None:
            return "function %s not found" % fp
        fl = Flow(f.body)
        for blk in f.body.blocks:
            if blk.term.k == "switch" and not blk.cleanup:
                for k in range(len(blk.term.targets) + 1):
                    if any_fact(rx_, fl.edge_facts(("e", blk.i, k)), f):
                        return None
        return "guard /%s/ not found in %s" % (rx_, fp.split("::")[-1])
    if kind == "dom_ok":
        # every Ok(..)/Some(..) return of the function is dominated by an edge whose fact matches
        _, fp, rx_ = rq
        f = prog.funcs.get(fp)
        if f is None:
            return "function %s not found" % fp
        fl = Flow(f.body)
        oks = ret_assign_blocks(f.body, lambda e: is_variant(e, "Ok"))
        if not oks:
            return "no Ok return in %s" % fp
        for bb, e in oks:
            if not any_fact(rx_, fl.facts_at(bb), f):
                return "an Ok return of %s is not dominated by /%s/" % (fp.split("::")[-1], rx_)
        return None
    if kind == "constructed_in":
        _, adt, allowed = rq
        for p, f in prog.funcs.items():
            if f.derived:
                continue
            for blk in f.body.blocks:
                for s in blk.stmts:
                    if s.k == "assign" and s.rv.k == "aggr" and s.rv.j.get("adt") == adt and not (s.sp and s.sp[5]):
                        if not any(re.search(a, f.root().path) for a in allowed):
                            return "%s constructed in %s" % (adt.split("::")[-1], f.root().path)
        return None
    if kind == "site_dom":
        # ("site_dom", function, callee regex, fact regex): every call matching callee regex in function is dominated by the fact
        _, fp, crx, rx_ = rq
        f = prog.funcs.get(fp)
        if f is None:
            return "function %s not found" % fp
        fl = Flow(f.body)
        ss = call_sites(f, lambda pth, c: re.search(crx, pth) is not None)
        if not ss:
            return "no call matching /%s/ in %s" % (crx, fp.split("::")[-1])
        for s in ss:
            if not any_fact(rx_, fl.facts_at(s.bb), f):
                return "call %s in %s not dominated by /%s/" % (model.short_callee(s.term.callee_path()), fp.split("::")[-1], rx_)
        return None
    if kind == "site_dom_assume":
        # ("site_dom_assume", function, callee regex, fact regex, assumption regex): like site_dom, after pruning every edge that
        # contradicts the assumption (an edge carrying not(A))
        _, fp, crx, rx_, arx = rq
        f = prog.funcs.get(fp)
        if f is None:
            return "function %s not found" % fp
        fl = Flow(f.body)

        def contra(fact):
            t = show_fact(fact)
            m = re.fullmatch(r"not\((.*)\)", t)
            if m and re.search(arx, m.group(1)):
                return False
            return None

        fl.assume(contra)
        ss = call_sites(f, lambda pth, c: re.search(crx, pth) is not None)
        if not ss:
            return "no call matching /%s/ in %s" % (crx, fp.split("::")[-1])
        for s_ in ss:
            if ("b", s_.bb) not in fl.reachable_nodes():
                continue
            if not any_fact(rx_, fl.facts_at(s_.bb), f):
                return "call %s in %s not dominated by /%s/ (assuming /%s/)" % (model.short_callee(s_.term.callee_path()), fp.split("::")[-1], rx_, arx)
        return None
    if kind == "field_assign_dom":
        # ("field_assign_dom", adt, field, [fact regexes]): every plain assignment to the field (outside constructions) is dominated
        # by a fact matching one of the regexes
        _, adt, fld, alts = rq
        for a in field_accesses(prog, adt, fld):
            if a["func"].derived or a["kind"] == "construct":
                continue
            if a["kind"] == "borrow_mut":
                return "%s.%s mutably borrowed in %s" % (adt.split("::")[-1], fld, a["func"].path.split("::")[-1])
            fl = _flow_cache.setdefault(a["func"].path, Flow(a["func"].body))
            if not any(any_fact(al, fl.facts_at(a["bb"])) for al in alts):
                return "%s.%s assigned in %s at line %s without being dominated by any of %s" % (
                    adt.split("::")[-1], fld, a["func"].path.split("::")[-1], a["sp"][1] if a["sp"] else "?", alts)
        return None
    if kind == "field_assigned_only_in":
        _, adt, fld, allowed = rq
        for a in field_accesses(prog, adt, fld):
            if a["func"].derived or a["kind"] == "construct":
                continue
            if not any(re.search(al, a["func"].root().path) for al in allowed):
                return "%s.%s written in %s" % (adt.split("::")[-1], fld, a["func"].root().path)
        return None
    if kind == "no_err_return":
        _, fp = rq
        f = prog.funcs.get(fp)
        if f is None:
            return "function %s not found" % fp
        errs = ret_assign_blocks(f.body, lambda e: is_variant(e, "Err")) + \
            ret_assign_blocks(f.body, lambda e: e[0] == "call" and e[1].endswith("from_residual"))
        return None if not errs else "%s can return Err" % fp.split("::")[-1]
    if kind == "fields_written_only_in":
        _, adt, fields, allowed = rq
        for fld in fields:
            for a in field_accesses(prog, adt, fld):
                if a["kind"] in ("assign", "assign_sub", "borrow_mut", "construct") and not a["func"].derived:
                    if not any(re.search(al, a["func"].root().path) for al in allowed):
                        return "%s.%s written in %s" % (adt.split("::")[-1], fld, a["func"].root().path)
        return None
    if kind == "guard_call_before":
        # ("guard_call_before", function, callee regex): a call matching the regex, followed by `?`, dominates every allocation in the function
        _, fp, crx = rq
        f = prog.funcs.get(fp)
        if f is None:
            return "function %s not found" % fp
        ss = call_sites(f, lambda pth, c: re.search(crx, pth) is not None)
        if not ss:
            return "no call matching /%s/ in %s" % (crx, fp.split("::")[-1])
        fl = Flow(f.body)
        allocs = call_sites(f, lambda pth, c: re.search(r"vec::from_elem$|with_capacity$", pth) is not None)
        for a in allocs:
            if not all(fl.dominates(s_.bb, a.bb) for s_ in ss):
                return "allocation not dominated by the validating call"
        return None
    return "unknown requires kind %s" % kind
