"""C19 — FDT expiry."""
import re

from ..rules import *  # noqa
from ..model import X, show, loc, walk
from ..cfg import Flow, Slicer, find_calls, call_sites
from .. import polarity

FR = "receiver::fdtreceiver::FdtReceiver"
FWI = "receiver::fdtreceiver::FdtWriterInner"
RC = "receiver::receiver::Receiver"
OR = "receiver::objectreceiver::ObjectReceiver"


def run(ctx):
    prog = ctx.prog
    ctx.explanation = (
        "C19: outcomes over all clock offsets are arithmetic on times and NOT decided.  Decided: R1 FdtReceiver::is_expired is "
        "true iff Expires is unknown or server_time > Expires (all orderings), and the Expired state is written only under "
        "enable_expired_check, from Complete; R2 both attach_fdt call sites are reached only behind update_expired_state(now) "
        "on the same instance followed by state == Complete; R3 the clock-skew bookkeeping is sign-consistent: the offset is "
        "|now - sct| with the direction flag set on the same edge, and get_server_time subtracts exactly when the flag says "
        "the sender is late.")
    ctx.not_decided += ["delivery outcomes for every receiver clock offset and transit delay (numeric)"]

    # ---- R1 ----------------------------------------------------------------------------------
    r1 = ctx.rule("C19.R1", "FdtReceiver::is_expired == (expires is None) || (get_server_time(now) > expires); FDTState::Expired is "
                            "assigned only in update_expired_state under enable_expired_check && is_expired() with state() == Complete", "E3 decision table + DOM")
    if FR + "::is_expired" in prog.funcs:
        f = prog.fn(FR + "::is_expired")
        ctx.analysed(f.path)
        # the instance's expiry is read as `inner.expires` or through the accessor get_expiration_time() (checked below to return that field)
        t = polarity.Table(f, name_sign={"d": r"get_server_time"}, name_bool={"exp_some": r"(expires|FdtReceiver::get_expiration_time\(&self\)) is Some"})
        o = 1
        for k, lab in t.seen_sign.items():
            if lab == "d":
                for n, v in k[0]:
                    if "get_server_time" in n:
                        o = 1 if v > 0 else -1
        polarity.check_table(r1, t, lambda sc: (not sc["exp_some"]) or (sc["d"] * o > 0), "is_expired", loc(f.sp), require_labels=("d", "exp_some"))
        # the comparison is against the instance's Expires and the time passed in
        sl = Slicer(f.body)
        cmp_ok = False
        for k, lab in t.seen_sign.items():
            if lab == "d":
                txt = polarity.show_key(k)
                if re.search(r"get_server_time\(&self, now\)", txt) and ("expires" in txt or "FdtReceiver::get_expiration_time(&self)@Some.0" in txt):
                    cmp_ok = True
        if "get_expiration_time" in " ".join(polarity.show_key(k) for k in t.seen_sign):
            ge = prog.funcs.get(FR + "::get_expiration_time")
            gets = [show(Slicer(ge.body).expand(e_), 200) for _b, e_ in ret_assign_blocks(ge.body, lambda e_: True)] if ge is not None else []
            if not (gets and all(re.search(r"\.expires$", z_) for z_ in gets)):
                cmp_ok = False
        if cmp_ok:
            r1.ok("is_expired compares get_server_time(now) with expires", "", loc(f.sp))
        else:
            r1.violation("is_expired compares get_server_time(now) with expires", "compared quantities: %s" % [polarity.show_key(k) for k in t.seen_sign], loc(f.sp))
    else:
        # the private predicate was folded into its only caller, update_expired_state: the same decision is then read off that function - the
        # state is written (a RefCell::borrow_mut happens) exactly when state() == Complete && enable_expired_check && (expires is None ||
        # get_server_time(now) > expires)
        f = prog.fn(FR + "::is_expired", host_ok=True)
        ctx.analysed(f.path)
        t = polarity.Table(f, name_sign={"d": r"get_server_time"},
                           name_bool={"exp_some": r"(expires|FdtReceiver::get_expiration_time\(&self\)) is Some", "enable": r"^self\.enable_expired_check$"},
                           name_enum={"state": (r"FdtReceiver::state\(", ("Receiving", "Complete", "Error", "Expired"))},
                           call_filter=r"RefCell.*::borrow_mut$")
        need = [l_ for l_ in ("d", "exp_some", "enable", "state") if l_ not in t.labels_found()]
        if need:
            raise model.AnchorMissing("is_expired (folded into %s): conditions %s not recognised (%s ; %s)" % (
                f.path.split("::")[-1], need, [polarity.show_key(k) for k in t.seen_sign], list(t.seen_bool)))
        o = 1
        for k, lab in t.seen_sign.items():
            if lab == "d":
                for n, v in k[0]:
                    if "get_server_time" in n:
                        o = 1 if v > 0 else -1
        for sc in t.scenarios():
            want = sc["state"] == "Complete" and sc["enable"] and ((not sc["exp_some"]) or sc["d"] * o > 0)
            got = set(bool(calls) for _r, calls in t.results(sc))
            key = "is_expired (in %s) [%s]" % (f.path.split("::")[-1], ", ".join("%s=%s" % kv for kv in sorted(sc.items())))
            if got == {want}:
                r1.ok(key, "state written: %s" % want, loc(f.sp))
            else:
                r1.violation(key, "the expiry state is %s under this ordering, expected %s" % (
                    "written on some path and not on another" if len(got) > 1 else ("written" if True in got else "not written"), "written" if want else "left alone"), loc(f.sp))
        txts = [polarity.show_key(k) for k, lab in t.seen_sign.items() if lab == "d"]
        if any(re.search(r"get_server_time\(&self, now\)", x_) and ("expires" in x_ or "get_expiration_time(&self)@Some.0" in x_) for x_ in txts):
            r1.ok("is_expired compares get_server_time(now) with expires", "", loc(f.sp))
        else:
            r1.violation("is_expired compares get_server_time(now) with expires", "compared quantities: %s" % txts, loc(f.sp))
    u = prog.fn(FR + "::update_expired_state")
    ctx.analysed(u.path)
    uf = Flow(u.body)
    for a in field_accesses(prog, FWI, "state"):
        caller = a["func"].root().path
        v = show(a["value"]) if a["value"] is not None else "?"
        if a["value"] is not None and not re.match(r"^FDTState::\w+\{\}$", v):
            # value chosen by a match / if: which variants can flow into it
            flow_vars = sorted(set(re.search(r"FDTState::(\w+)", z).group(1) for z in Slicer(a["func"].body).sources(a["value"]) if re.search(r"FDTState::(\w+)", z)))
            v = "one of " + "/".join("FDTState::%s{}" % x for x in flow_vars) if flow_vars else v
        key = "%s %s FdtWriterInner.state = %s" % (caller, a["kind"], v[:60])
        if a["kind"] == "borrow_mut":
            r1.violation(key, "state mutably borrowed", loc(a["sp"]))
            continue
        if "Expired" in v:
            if caller != u.path:
                r1.violation(key, "Expired assigned outside update_expired_state", loc(a["sp"]))
                continue
            fs = uf.facts_at(a["bb"])
            c1 = any(ff[0][0] == "true" and ff[1] and show(ff[0][1]) == "self.enable_expired_check" for ff in fs)
            c2 = any(ff[0][0] == "true" and ff[1] and "FdtReceiver::is_expired" in show(ff[0][1]) for ff in fs) or \
                prog.folded().get(FR + "::is_expired") == u.path      # folded into this function: decided by the table above
            c3 = any(ff[0][0] == "eq" and ff[1] and "FdtReceiver::state" in show(ff[0][1]) + show(ff[0][2]) and "Complete" in show(ff[0][1]) + show(ff[0][2]) for ff in fs) or \
                any((lambda et_: et_ is not None and et_[1] == "Complete" and et_[2] and "FdtReceiver::state" in show(et_[0]))(enum_test(ff)) for ff in fs)
            if c1 and c2 and c3:
                r1.ok(key, "under enable_expired_check && is_expired(now) && state() == Complete", loc(a["sp"]))
            else:
                r1.violation(key, "Expired can be assigned %s" % ("with expiry checking disabled" if not c1 else ("without evaluating is_expired" if not c2 else "from a state other than Complete")), loc(a["sp"]))
        elif "Complete" in v:
            if re.search(r"FdtWriter as receiver::writer::ObjectWriter>::complete$", caller):
                r1.ok(key, "", loc(a["sp"]))
            else:
                r1.violation(key, "Complete assigned outside FdtWriter::complete", loc(a["sp"]))
        else:
            r1.ok(key, "", loc(a["sp"]))
    r1.floor(8, "expiry facts")

    # ---- R2 ----------------------------------------------------------------------------------
    r2 = ctx.rule("C19.R2", "ObjectReceiver::attach_fdt is called only (a) in create_obj, after update_expired_state(now) on the "
                            "instance and under its state() == Complete, (b) in attach_latest_fdt_to_objects, whose only caller "
                            "push_fdt_obj reaches it past update_expired_state (when Complete) and the Complete arm of state()", "DOM+WMC")
    sites = find_calls(prog, r"^receiver::objectreceiver::ObjectReceiver::attach_fdt$")
    for s in sites:
        caller = s.func.root().path
        key = "%s -> attach_fdt" % caller
        if caller == RC + "::create_obj":
            fl = Flow(s.func.body)
            fs = fl.facts_at(s.bb)
            comp = any(a[0] == "eq" and t2 and "FdtReceiver::state" in show(a[1]) + show(a[2]) and "Complete" in show(a[1]) + show(a[2]) for (a, t2) in fs)
            ups = [u2 for u2 in call_sites(s.func, lambda p, c: p == FR + "::update_expired_state")]
            # update dominates the state() test that guards the site, and both are on the same loop element `fdt`
            sts = [c for (a, t2) in fs for c in walk(a[1]) if c[0] == "call" and c[1] == FR + "::state"] + \
                  [c for (a, t2) in fs if a[0] == "eq" for c in walk(a[2]) if c[0] == "call" and c[1] == FR + "::state"]
            upd = bool(ups) and bool(sts) and all(fl.dominates(u2.bb, st_[3][0]) for u2 in ups for st_ in sts) and \
                all(show(u2.expr[2][0]) == show(st_[2][0]) for u2 in ups for st_ in sts) and all(show(u2.expr[2][1]) == "now" for u2 in ups)
            if comp and upd:
                r2.ok(key, "behind update_expired_state(now) and state() == Complete on the same instance", s.loc)
            else:
                r2.violation(key, "an object can be attached to an instance %s" % ("whose expiry state was not refreshed with the current time" if comp else "that is not Complete (possibly Expired)"), s.loc)
        elif caller == RC + "::attach_latest_fdt_to_objects":
            r2.ok(key, "guard established by the only caller (checked below)", s.loc)
        else:
            r2.violation(key, "attach_fdt called from an unexpected place", s.loc)
    # cleanup re-evaluates the expiry of every FDT receiver before it decides which ones to keep
    cf = prog.fn(RC + "::cleanup_fdt")
    ctx.analysed(cf.path)
    cfl = Flow(cf.body)
    csl = Slicer(cf.body)
    # `fdt_receivers.iter_mut().for_each(|r| r.1.update_expired_state(now))` or the same as an explicit loop over the map
    upd = [s_ for bb_, how_, s_ in foreach_sites(prog, cf, r"^self\.fdt_receivers\b", lambda p: p == FR + "::update_expired_state")]
    rets_ = [s for s, ai, mut in calls_on_field(prog, RC, "fdt_receivers", funcs=[cf]) if method_name(s) in ("retain", "remove", "extract_if")]
    key = "cleanup_fdt refreshes the expiry state before retain"
    if upd and rets_ and all(any(u.bb != r.bb and cfl.dominates(u.bb, r.bb) for u in upd) for r in rets_):
        r2.ok(key, "update_expired_state(now) over fdt_receivers dominates retain", upd[0].loc)
    else:
        r2.violation(key, "cleanup_fdt decides which FDT receivers to keep without first re-evaluating their expiry (an instance that expired since it "
                          "completed stays Complete and attachable)", loc(cf.sp))
    r2.floor(3, "attach_fdt call sites")
    callers = find_calls(prog, r"^receiver::receiver::Receiver::attach_latest_fdt_to_objects$")
    for s in callers:
        caller = s.func.root().path
        key = "%s -> attach_latest_fdt_to_objects" % caller
        if caller != RC + "::push_fdt_obj":
            r2.violation(key, "unexpected caller", s.loc)
            continue
        g = s.func
        gf = Flow(g.body)
        fs = gf.facts_at(s.bb)
        # `match r.state() { Complete => .. }` or `let st = r.state(); if st != Complete { return }` (facts_at also carries the latter with `st`
        # written out)
        arm = []
        for (a, t2) in fs:
            et = enum_test((a, t2))
            if et is not None and et[1] == "Complete" and et[2] and any(c[0] == "call" and c[1] == FR + "::state" for c in walk(et[0])):
                arm.append((("variant", et[0], "Complete"), True))
        if not arm:
            r2.violation(key, "not dominated by the Complete arm of fdt_receiver.state()", s.loc)
            continue
        # the state() call feeding that arm
        st_call = [c for c in walk(arm[0][0][1]) if c[0] == "call" and c[1] == FR + "::state"][0]
        sbb = st_call[3][0]
        ups = set(u2.bb for u2 in call_sites(g, lambda p, c: p == FR + "::update_expired_state"))

        def thru(n):
            if n[0] == "b" and n[1] in ups:
                return True
            if n[0] == "e":
                for (a, t2) in gf.edge_facts(n):
                    if a[0] == "eq" and not t2 and "FdtReceiver::state" in show(a[1]) + show(a[2]) and "Complete" in show(a[1]) + show(a[2]):
                        return True
            return False

        ok, w = gf.must_pass(0, [sbb], thru)
        if ok and ups:
            r2.ok(key, "past update_expired_state(now) (when Complete) and the Complete arm", s.loc)
        else:
            r2.violation(key, "the Complete arm can be entered without refreshing the expiry state: %s" % path_text(g.body, w), s.loc)
        # Expired arm returns before push_front
        pf = [s2 for s2, ai, mut in calls_on_field(prog, RC, "fdt_current", funcs=[g]) if method_name(s2) == "push_front"]
        for s2 in pf:
            fs2 = gf.facts_at(s2.bb)
            if any((enum_test((a, t2)) or (None, None, None))[1:] == ("Complete", True) for (a, t2) in fs2):
                r2.ok("push_fdt_obj: only a Complete instance becomes current", "", s2.loc)
            else:
                r2.violation("push_fdt_obj: only a Complete instance becomes current", "an Expired / unfinished instance can be made current", s2.loc)

    # ---- R3 ----------------------------------------------------------------------------------
    r3 = ctx.rule("C19.R3", "FdtReceiver::push: on `sct < now` the flag is set late and the offset is now - sct, otherwise not-late and "
                            "sct - now; get_server_time returns now - offset when late and now + offset otherwise", "DOM+ARG")
    p = prog.fn(FR + "::push")
    ctx.analysed(p.path)
    pf_ = Flow(p.body)
    n = 0
    # the sender time local = the binding of `Ok(Some(x))` of get_sender_current_time(pkt), whatever it is called (`res` today)
    SCT = "res"
    psl_ = Slicer(p.body)
    for nm_, ds_ in psl_.var_defs().items():
        for d_ in ds_:
            if d_[0] == "" and re.search(r"get_sender_current_time\(.*\)@Ok\.0@Some\.0$", show(psl_.expand(d_[1]), 200)):
                SCT = nm_
    for a in field_accesses(prog, FR, "sender_current_time_late", funcs=[p]):
        if a["kind"] != "assign":
            continue
        n += 1
        fs = pf_.facts_at(a["bb"])
        lt = [t2 for (aa, t2) in fs if aa[0] == "lt" and show(aa[1]) == SCT and show(aa[2]) == "now"]
        ge = [t2 for (aa, t2) in fs if aa[0] == "le" and show(aa[1]) == "now" and show(aa[2]) == SCT]
        v = show(a["value"])
        key = "FdtReceiver::push late = %s" % v
        direct = False
        if v not in ("True", "False"):
            # `late = res < now` (or an equivalent spelling): the assigned value is the comparison itself
            from ..cfg import facts_of
            ex = Slicer(p.body).expand(a["value"], stop=(SCT, "now"))
            direct = any(aa[0] == "lt" and t2 and show(polarity.strip(aa[1])) == SCT and show(polarity.strip(aa[2])) == "now" for (aa, t2) in facts_of(ex, True))
        per_arm = False
        if not direct and a["value"][0] == "var" and not a["value"][2]:
            # `let (is_late, offset) = if res < now { (true, ..) } else { (false, ..) }`: the flag is a constant chosen per arm
            vd_ = value_defs(Slicer(p.body), a["value"][1])
            if len(vd_) >= 2:
                per_arm = True
                for (ev_, bv_) in vd_:
                    fs_ = pf_.facts_at(bv_)
                    lt_ = [t2 for (aa, t2) in fs_ if aa[0] == "lt" and show(aa[1]) == SCT and show(aa[2]) == "now"]
                    ge_ = [t2 for (aa, t2) in fs_ if aa[0] == "le" and show(aa[1]) == "now" and show(aa[2]) == SCT]
                    if not ((show(ev_) == "True" and lt_ and all(lt_)) or (show(ev_) == "False" and ge_ and all(ge_))):
                        per_arm = False
        if direct:
            r3.ok("FdtReceiver::push late = (res < now)", "the flag is the comparison itself", loc(a["sp"]))
        elif per_arm:
            r3.ok(key, "true / false chosen on the matching arm of `res < now`", loc(a["sp"]))
        elif (v == "True" and lt and all(lt)) or (v == "False" and ge and all(ge)):
            r3.ok(key, "on the matching edge of `res < now`", loc(a["sp"]))
        else:
            r3.violation(key, "the late flag does not match the comparison of the sender time with now", loc(a["sp"]))
    psl_ = Slicer(p.body)
    for a in field_accesses(prog, FR, "sender_current_time_offset", funcs=[p]):
        if a["kind"] != "assign":
            continue
        # the stored value, per definition: `Some(now.duration_since(res))` written in each branch, or `Some(offset)` with `offset` chosen by an
        # if/else before the store
        cands = [(a["value"], a["bb"])]
        inner_ = [z for z in walk(a["value"]) if z[0] == "var" and not z[2]]
        if not any(c[0] == "call" and c[1].endswith("SystemTime::duration_since") for c in walk(a["value"])) and len(inner_) == 1:
            ds_ = value_defs(psl_, inner_[0][1])
            if ds_:
                cands = ds_
        # `let (earlier, later) = if late { (res, now) } else { (now, res) }; Some(later.duration_since(earlier))`: one call, operands chosen per
        # arm - check each arm's pair where the arm builds it
        cs0 = [c for c in walk(a["value"]) if c[0] == "call" and c[1].endswith("SystemTime::duration_since")]
        if len(cands) == 1 and cs0:
            r_, g_ = polarity.strip(cs0[0][2][0]), polarity.strip(cs0[0][2][1])
            if r_[0] == "var" and g_[0] == "var" and not r_[2] and not g_[2]:
                vr_, vg_ = value_defs(psl_, r_[1]), value_defs(psl_, g_[1])
                if len(vr_) >= 2 and [b_ for _e, b_ in vr_] == [b_ for _e, b_ in vg_]:
                    cands = [(("call", cs0[0][1], (er_, eg_), cs0[0][3]), b_) for (er_, b_), (eg_, _b2) in zip(vr_, vg_)]
        for val_, bb_ in cands:
            n += 1
            fs = pf_.facts_at(bb_)
            late = any(aa[0] == "lt" and t2 and show(aa[1]) == SCT and show(aa[2]) == "now" for (aa, t2) in fs)
            cs = [c for c in walk(val_) if c[0] == "call" and c[1].endswith("SystemTime::duration_since")]
            key = "FdtReceiver::push offset (%s)" % ("late" if late else "early")
            if cs:
                recv, arg = show(polarity.strip(cs[0][2][0])), show(polarity.strip(cs[0][2][1]))
                if (late and recv == "now" and arg == SCT) or (not late and recv == SCT and arg == "now"):
                    r3.ok(key, "%s.duration_since(%s)" % (recv, arg), loc(a["sp"]))
                else:
                    r3.violation(key, "offset computed as %s.duration_since(%s) on the %s edge" % (recv, arg, "late" if late else "early"), loc(a["sp"]))
            else:
                r3.violation(key, "offset is %s" % show(val_, 60), loc(a["sp"]))
    gst = prog.fn(FR + "::get_server_time")
    ctx.analysed(gst.path)
    gf2 = Flow(gst.body)
    gsl2 = Slicer(gst.body)
    for s in call_sites(gst, lambda p2, c: re.search(r"ops::(arith::)?(Add|Sub).*::(add|sub)$", p2) is not None):
        n += 1
        fs = gf2.facts_at(s.bb)
        late = [t2 for (aa, t2) in fs if aa[0] == "true" and show(aa[1]) == "self.sender_current_time_late"]
        opn = method_name(s)
        key = "get_server_time now %s offset" % ("-" if opn == "sub" else "+")
        okargs = show(s.expr[2][0]) == gst.body.names.get(2, "now") and show(gsl2.expand(s.expr[2][1])) == "self.sender_current_time_offset@Some.0"
        if late and ((opn == "sub" and all(late)) or (opn == "add" and not any(late))) and okargs:
            r3.ok(key, "under late == %s" % late[0], s.loc)
        else:
            r3.violation(key, "sign of the clock correction does not match the late flag", s.loc)
    r3.floor(5, "skew facts")
    # flag/offset only written in push (and new)
    for fld in ("sender_current_time_late", "sender_current_time_offset"):
        for a in field_accesses(prog, FR, fld):
            if a["kind"] in ("assign", "assign_sub", "borrow_mut") and a["func"].root().path != p.path:
                r3.violation("%s writes %s" % (a["func"].root().path, fld), "skew bookkeeping written outside FdtReceiver::push", loc(a["sp"]))

    # ---- R4 the Expires value the test uses -------------------------------------------------------------------------
    r4 = ctx.rule("C19.R4", "FdtWriterInner.expires - the instant is_expired compares with - is written only in FdtWriter::complete, from the "
                            "instance's own Expires attribute: ntp_to_system_time((parse(inst.expires) as u64) << 32) (NTP seconds in the upper "
                            "half), None when it does not parse (is_expired then answers true); it starts as None", "WWF + value shape")
    from .. import bits
    COMPLETE = "<receiver::fdtreceiver::FdtWriter as receiver::writer::ObjectWriter>::complete"
    cf = prog.fn(COMPLETE)
    ctx.analysed(cf.path)
    csl = Slicer(cf.body)
    for a in field_accesses(prog, FWI, "expires"):
        caller = a["func"].root().path
        key = "%s %s FdtWriterInner.expires" % (caller.split("::")[-1], a["kind"])
        if a["kind"] == "construct":
            if show(a["value"]).startswith("Option::None"):
                r4.ok(key, "starts unknown", loc(a["sp"]))
            else:
                r4.violation(key, "an FDT receiver starts with a preset expiry %s" % show(a["value"], 40), loc(a["sp"]))
        elif a["kind"] in ("assign", "assign_sub", "borrow_mut"):
            if caller != COMPLETE:
                r4.violation(key, "the expiry instant is written outside FdtWriter::complete", loc(a["sp"]))
                continue
            srcs = set(csl.sources(a["value"]))
            # `.ok().and_then(|secs| ntp_to_system_time(..).ok())`: the conversion sits in a closure applied to the parsed attribute
            for z in list(srcs):
                if z.startswith("closure:") and z[8:] in prog.funcs and call_sites(prog.funcs[z[8:]], lambda p2, c: p2 == "tools::ntp_to_system_time"):
                    srcs.add("call:tools::ntp_to_system_time")
            if any(z.endswith("tools::ntp_to_system_time") for z in srcs) and any(re.match(r"var:inst\.expires", z) for z in srcs):
                r4.ok(key, "<- ntp_to_system_time(.. inst.expires ..)", loc(a["sp"]))
            else:
                r4.violation(key, "expires does not derive from the instance's Expires attribute through ntp_to_system_time (sources: %s)" % sorted(
                    z for z in srcs if z.startswith(("var:", "call:")))[:8], loc(a["sp"]))
    ntp_sites = []
    for fp_ in prog.with_closures(cf.path):
        for s in call_sites(prog.funcs[fp_], lambda p2, c: p2 == "tools::ntp_to_system_time"):
            ntp_sites.append((prog.funcs[fp_], s))
    for fn_, s in ntp_sites:
        slx = csl if fn_ is cf else Slicer(fn_.body)
        ex = bits.strip(slx.expand(s.expr[2][0]))
        key = "FdtWriter::complete NTP value of Expires"
        okv = ex[0] == "bin" and ex[1].startswith("Shl") and show(ex[3]) == "32"
        inner = bits.strip(ex[2]) if okv else None
        # the shifted value is the parsed attribute: `parse(..)@Ok.0`, or the u32 parameter of the closure applied to the parse result
        cparams = set(fn_.body.names.get(l) for l in range(1, fn_.body.argc + 1) if fn_.body.locals[l]["ty"] == "u32") if fn_.kind == "closure" else set()
        while okv and inner[0] == "cast":
            inner = inner[2]
        if okv and (re.search(r"parse.*@Ok\.0", show(inner, 200)) or (inner[0] == "var" and inner[1] in cparams and not inner[2])):
            r4.ok(key, "(seconds as u64) << 32", s.loc)
        else:
            r4.violation(key, "Expires is converted as %s; the attribute holds NTP *seconds*, which belong in the upper 32 bits" % show(ex, 100), s.loc)
    # absent expiry counts as expired (R1 covers the comparison itself)
    r4.floor(3, "Expires provenance facts")

    # ---- R5 the sender current time the skew is computed from -----------------------------------------------------------
    r5 = ctx.rule("C19.R5", "the sender's clock is read from EXT_TIME as RFC 5651 lays it out - any valid flag combination (SCT-High alone included) is "
                            "accepted, the seconds are wire bits 32..63 in the upper half of the NTP value - and converted with the 1900->1970 offset "
                            "(shared with C06.R8): a refused or misread SCT silently leaves the receiver on its own clock", "E5 bit provenance + affine forms")
    from . import c06
    c06.ext_time_rule(ctx, r5)

    # ---- R6 waiting objects are attached through the instance whose expiry was just evaluated -----------------------------
    r6 = ctx.rule("C19.R6", "when an FDT instance completes, waiting objects are offered that very instance - the one push_fdt_obj has just checked "
                            "for expiry and stored - not another stored instance whose expiry was not re-evaluated: push_fdt_obj stores at the end of "
                            "fdt_current that attach_latest_fdt_to_objects takes from (shared with C16.R5)", "PAIR")
    from . import c16
    c16.latest_instance_rule(ctx, r6)
    r6.floor(1, "store / take ends")
