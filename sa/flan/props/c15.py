"""C15 — TOI allocation."""
import re

from ..rules import *  # noqa
from ..model import X, show, loc, walk
from ..cfg import Flow, Slicer, find_calls, call_sites
from .. import ranges, witness

TAI = "sender::toiallocator::ToiAllocatorInternal"
TA = "sender::toiallocator::ToiAllocator"
TOI = "sender::toiallocator::Toi"
FD = "sender::filedesc::FileDesc"


def _masked_last(sl, fl, e, bb, depth):
    """None when the value is width-masked as its last operation, else a description of the offending form"""
    while e[0] in ("ref", "deref") or (e[0] == "cast" and e[3] == "IntToInt" and e[1] == "u128"):
        e = e[1] if e[0] != "cast" else e[2]
    if e[0] == "call" and e[1].endswith("::to_max_length"):
        return None
    if e[0] == "const" and e[2] == 1:
        return None
    if e[0] == "bin" and e[1].startswith("Add") and show(e[3]) == "1":
        # `y + 1` where y was just tested to be 0 (the FDT's TOI): the value is 1
        y = show(e[2])
        zero = any(a_[0] == "eq" and t_ and y in (show(a_[1]), show(a_[2])) and
                   any(show(z_) in ("0", "lct::TOI_FDT") or (z_[0] == "const" and z_[2] == 0) for z_ in (a_[1], a_[2])) for (a_, t_) in fl.facts_at(bb))
        return None if zero else "`%s` not under a test `%s == 0`" % (show(e, 40), y)
    if e[0] in ("var", "tmp") and not e[2] and depth > 0:
        body = sl.body
        if e[0] == "var":
            defs = [(ex_, b_) for (pj_, ex_, b_) in sl.var_defs().get(e[1], []) if pj_ == ""]
        else:
            defs = []
            for (b_, idx_, kind_) in body.defs().get(e[1], []):
                if body.blocks[b_].cleanup or body.blocks[b_].cloned_from is not None or kind_ not in ("whole", "call"):
                    continue
                defs.append((sl.x.call_expr(b_, body.blocks[b_].term, sl.x.depth) if idx_ == "term" else sl.x.rvalue(body.blocks[b_].stmts[idx_].rv, sl.x.depth), b_))
        if not defs:
            return "`%s`, whose origin is unknown" % show(e, 40)
        dbs = set(b_ for _e, b_ in defs)
        for (ex_, b_) in defs:
            # does this definition reach the use without being overwritten by another one?
            if b_ != bb and len(dbs) > 1:
                ok_, _w = fl.must_pass(b_, [bb], lambda n, b_=b_: n[0] == "b" and n[1] in dbs and n[1] != b_ and n[1] != bb)
                if ok_:
                    continue
            w_ = _masked_last(sl, fl, ex_, b_, depth - 1)
            if w_ is not None:
                return w_
        return None
    return "`%s`" % show(e, 80)


def run(ctx):
    prog = ctx.prog
    ctx.explanation = (
        "C15: decided clauses — R1 every arm of to_max_length yields a value within the width its variant names (range "
        "engine), R2 the allocator's cursor is never 0 at the exits of new() and allocate() (range engine with branch "
        "refinement), R3 uniqueness mechanism: allocate() records the returned value and leaves its loop only on an "
        "unreserved value; release only through Drop for Toi, R4 ownership (compile-fail / compile-pass witnesses), R5 "
        "the TOI on the wire and in the FDT entry is the allocated one.  Histories are covered only through this mechanism.")
    ctx.not_decided += ["uniqueness over concrete allocate/drop histories (covered only via the mechanism R3)"]

    # ---- R1 ----------------------------------------------------------------------------------
    r1 = ctx.rule("C15.R1", "each arm of ToiAllocatorInternal::to_max_length returns a value in [0, 2^w - 1], w being the "
                            "width named by the TOIMaxLength variant", "E4 per arm")
    f = prog.fn(TAI + "::to_max_length")
    ctx.analysed(f.path)
    # per variant: the function analysed under the assumption that the width parameter holds that variant; the interval of the returned value
    # at the exits (however the arms are written: `toi & MASK` per arm, or a mask selected by a helper and applied once)
    wparam = [f.body.names.get(l) for l in range(1, f.body.argc + 1) if f.body.locals[l]["ty"].endswith("TOIMaxLength")]
    adt_ = [a_ for p_, a_ in prog.adts.items() if p_.endswith("TOIMaxLength")]
    if not wparam or not adt_:
        raise model.AnchorMissing("to_max_length: no TOIMaxLength parameter")
    for vj in adt_[0]["variants"]:
        variant = vj["name"]
        m = re.search(r"(\d+)$", variant)
        if not m:
            continue
        w = int(m.group(1))
        key = "to_max_length[%s]" % variant
        r = ranges.analyse(prog, f, params={wparam[0]: variant})
        vals = [st_.iv.get("_0") for (_bb, st_) in r.exit_states]
        if not vals or any(v_ is None for v_ in vals):
            r1.violation(key, "no return value recognised in the arm", loc(f.sp))
            continue
        val = (min(v_[0] for v_ in vals), max(v_[1] for v_ in vals))
        if val[0] >= 0 and val[1] <= (1 << w) - 1:
            r1.ok(key, "result in [%d, 2^%d-1]" % (val[0], int(val[1]).bit_length()), loc(f.sp))
        else:
            r1.violation(key, "the %s arm can return values up to 2^%d-1 (range [%s, %s]); TOIs wider than %d bits do not fit the "
                              "configured width nor the 112-bit LCT field" % (variant, int(val[1]).bit_length(), val[0], val[1], w), loc(f.sp))
    r1.floor(6, "arms of to_max_length")
    # every value stored in the cursor passes through to_max_length (or is the constant 1 / +1 after a zero test)
    for a in field_accesses(prog, TAI, "toi"):
        if a["kind"] not in ("assign", "construct"):
            if a["kind"] == "borrow_mut":
                r1.violation("%s &mut ToiAllocatorInternal.toi" % a["func"].path, "cursor mutably borrowed", loc(a["sp"]))
            continue
        sl = Slicer(a["func"].body)
        fl_ = Flow(a["func"].body)
        v = a["value"]
        key = "%s cursor = %s" % (a["func"].path.split("::")[-1], show(v, 50))
        why = _masked_last(sl, fl_, v, a["bb"], 5)
        if why is None:
            r1.ok(key, "to_max_length is the last operation applied (or the constant 1 / +1 of a masked 0)", loc(a["sp"]))
        else:
            r1.violation(key, "the cursor is written with %s: the value handed out next may not fit the configured TOI width (to_max_length must be the "
                              "last operation; only the constant 1 and the +1 of a value just tested to be 0 are exempt)" % why, loc(a["sp"]))

    # ---- R2 never zero ----------------------------------------------------------------------------
    r2 = ctx.rule("C15.R2", "at every normal exit of ToiAllocatorInternal::new and ::allocate the cursor excludes 0 (TOI 0 is the FDT)", "E4")
    fn_new = prog.fn(TAI + "::new")
    ctx.analysed(fn_new.path)
    rn = ranges.analyse(prog, fn_new)
    # the value placed in the `toi` field of the constructed Self
    for blk in fn_new.body.blocks:
        for s in blk.stmts:
            if s.k == "assign" and s.rv.k == "aggr" and s.rv.j.get("adt") == TAI:
                names = s.rv.j["fnames"]
                st = rn.entry.get(blk.i)
                st = st.copy() if st else None
                key = "new: cursor at construction"
                if st is None:
                    r2.violation(key, "construction not reached by the analysis", loc(s.sp))
                    continue
                for s2 in blk.stmts:
                    if s2 is s:
                        break
                    if s2.k == "assign":
                        rn.assign(st, s2.lhs, s2.rv, blk.i, s2.sp)
                v, _ = rn.operand(st, s.rv.ops[names.index("toi")])
                if v is not None and v[0] >= 1:
                    r2.ok(key, "cursor in [%s, %s]" % v, loc(s.sp))
                else:
                    r2.violation(key, "cursor range %s includes 0" % (v,), loc(s.sp))
    fa = prog.fn(TAI + "::allocate")
    ctx.analysed(fa.path)
    ra = ranges.analyse(prog, fa, field_invariants={r"^self'1\.toi$": (1, 2 ** 128 - 1)})
    n = 0
    for bi, st in ra.exit_states:
        n += 1
        v = st.iv.get("self'1.toi")
        key = "allocate: cursor at exit"
        if v is not None and v[0] >= 1:
            r2.ok(key, "cursor in [%s, …]" % v[0], loc(fa.sp))
        else:
            r2.violation(key, "cursor range %s includes 0 at an exit of allocate()" % (v,), loc(fa.sp))
    # returned value is the entry cursor (non-zero by the invariant just proved inductively)
    sl = Slicer(fa.body)
    rets = ret_assign_blocks(fa.body, lambda e: True)
    for bb, e in rets:
        ex = sl.expand(e)
        if show(ex) == "self.toi":
            r2.ok("allocate returns the cursor value at entry", "", loc(fa.sp))
        else:
            r2.violation("allocate returns the cursor value at entry", "allocate returns %s" % show(ex, 60), loc(fa.sp))
    r2.floor(3, "exits")

    # ---- R3 uniqueness mechanism ---------------------------------------------------------------------
    r3 = ctx.rule("C15.R3", "allocate() inserts the returned value into toi_reserved and leaves its search loop only on "
                            "`!toi_reserved.contains(&self.toi)`; entries leave toi_reserved only through Drop for Toi", "DOM+WMC")
    flow = Flow(fa.body)
    ins = [s for s in call_sites(fa, lambda p, c: p.endswith("HashSet::insert")) if "toi_reserved" in show(s.expr[2][0])]
    if ins and show(sl.expand(ins[0].expr[2][1])) in ("self.toi", "ret"):
        r3.ok("allocate reserves the returned value", show(ins[0].expr, 80), ins[0].loc)
    else:
        r3.violation("allocate reserves the returned value", "the value handed out is not inserted into toi_reserved", loc(fa.sp))
    from ..loops import natural_loops
    ls = natural_loops(fa.body)
    if not ls:
        raise model.AnchorMissing("allocate has no search loop")
    for h, blocks, srcs in ls:
        exits = []
        for b in blocks:
            t = fa.body.blocks[b].term
            if t.k == "switch":
                for k in range(len(t.targets) + 1):
                    tgt = t.targets[k][1] if k < len(t.targets) else t.otherwise
                    if tgt not in blocks:
                        exits.append(("e", b, k))
        good = True
        for e in exits:
            fs = flow.edge_facts(e)
            if not any(a[0] == "true" and not tr and "contains" in show(a[1]) and "toi_reserved" in show(a[1]) and "self.toi" in show(a[1]) for (a, tr) in fs):
                good = False
        if exits and good:
            r3.ok("allocate loop exit", "only on !toi_reserved.contains(&self.toi)", loc(fa.body.blocks[h].term.sp))
        else:
            r3.violation("allocate loop exit", "the search loop can be left with a cursor that is still reserved", loc(fa.body.blocks[h].term.sp))
    # the cursor is not touched between the loop exit (where it is known to be free) and the return
    loopblocks = set()
    for h, blocks, srcs in ls:
        loopblocks |= set(blocks)
    cursor_writes = set(a_["bb"] for a_ in field_accesses(prog, TAI, "toi", funcs=[fa]) if a_["kind"] in ("assign", "assign_sub", "borrow_mut"))
    for a in field_accesses(prog, TAI, "toi", funcs=[fa]):
        if a["kind"] not in ("assign", "assign_sub", "borrow_mut"):
            continue
        key = "allocate writes the cursor only inside its search loop"
        if a["bb"] in loopblocks:
            r3.ok(key, "self.toi = %s" % show(a["value"], 50), loc(a["sp"]))
        elif flow.must_pass(a["bb"], fa.body.return_blocks(), lambda n_: (n_[0] == "e" and any(
                f_[0] == "true" and not tr_ and "contains" in show(f_[1]) and "toi_reserved" in show(f_[1]) and "self.toi" in show(f_[1])
                for (f_, tr_) in flow.edge_facts(n_))) or (n_[0] == "b" and n_[1] != a["bb"] and n_[1] in cursor_writes))[0]:
            # a rotated loop (`advance(); while reserved(cursor) { advance(); }`): the write sits before the loop, but every path from it to a
            # return still passes the `!toi_reserved.contains(&self.toi)` exit (or a later write, which has the same obligation)
            r3.ok(key, "self.toi = %s (followed by the free-slot test on every path to the return)" % show(a["value"], 50), loc(a["sp"]))
        else:
            r3.violation(key, "self.toi = %s after the search loop was left: the loop exit established `!toi_reserved.contains(&self.toi)` for the old "
                              "value only, the new cursor may be a TOI that is still reserved or attached to a live object" % show(a["value"], 50), loc(a["sp"]))
    wmc(r3, prog, r"^sender::toiallocator::ToiAllocatorInternal::release$", [r"^sender::toiallocator::ToiAllocator::release$"])
    wmc(r3, prog, r"^sender::toiallocator::ToiAllocator::release$", [r"^<sender::toiallocator::Toi as (std|core)::ops::Drop>::drop$"])
    for s, ai, mut in calls_on_field(prog, TAI, "toi_reserved"):
        if s.func.derived:
            continue
        m = method_name(s)
        caller = s.func.root().path
        key = "%s %s toi_reserved" % (caller, m)
        # remove: in ToiAllocatorInternal::release, or directly in its only caller ToiAllocator::release (itself reachable from Drop for Toi only)
        if m in ("contains", "insert", "len", "is_empty", "fmt") or (m == "remove" and caller in (TAI + "::release", "sender::toiallocator::ToiAllocator::release")):
            r3.ok(key, "", s.loc)
        else:
            r3.violation(key, "reservation set modified by %s outside release()" % m, s.loc)
    r3.floor(8, "mechanism facts")

    # ---- R4 ownership witnesses -------------------------------------------------------------------------
    r4 = ctx.rule("C15.R4", "a Toi handle cannot be cloned or forged outside the crate; Sender, Toi and Box<ObjectDesc> are "
                            "Send (+Sync) — compile_fail / compile-pass witnesses built against the current tree", "E6 witnesses")
    witness.run_witnesses(ctx, r4, ["toi_clone", "toi_forge", "send_sync"])

    # ---- R5 wire-exact -------------------------------------------------------------------------------------
    r5 = ctx.rule("C15.R5", "Pkt.toi (both constructions in BlockEncoder::read) and File.toi are FileDesc.toi, which is "
                            "object.config.toi.get(); new_alc_pkt writes pkt.toi into the LCT header", "ARG")
    be = prog.fn("sender::blockencoder::BlockEncoder::read")
    x = X(be.body)
    n = 0
    for blk in be.body.blocks:
        for s in blk.stmts:
            if s.k == "assign" and s.rv.k == "aggr" and s.rv.j.get("adt") == "common::pkt::Pkt" and not blk.cleanup:
                names = s.rv.j["fnames"]
                e = x.operand(s.rv.ops[names.index("toi")])
                n += 1
                if show(e) in ("Arc::deref(&self.file).toi", "self.file.toi"):
                    r5.ok("BlockEncoder::read Pkt.toi", show(e), loc(s.sp))
                else:
                    r5.violation("BlockEncoder::read Pkt.toi", "packet TOI is %s, not the FileDesc's TOI" % show(e, 60), loc(s.sp))
    fdn = prog.fn(FD + "::new")
    sl = Slicer(fdn.body)
    for a in field_accesses(prog, FD, "toi", funcs=[fdn]):
        if a["kind"] == "construct":
            ex = sl.expand(a["value"])
            if re.search(r"Toi::get\(.*object\.config\.toi", show(ex, 200)):
                r5.ok("FileDesc::new toi", show(ex, 100), loc(a["sp"]))
            else:
                r5.violation("FileDesc::new toi", "FileDesc.toi = %s, not object.config.toi.get()" % show(ex, 100), loc(a["sp"]))
    for a in field_accesses(prog, FD, "toi"):
        if a["kind"] in ("assign", "assign_sub", "borrow_mut"):
            r5.violation("%s writes FileDesc.toi" % a["func"].path, "TOI changed after construction", loc(a["sp"]))
    tg = prog.fn(TOI + "::get")
    rets = ret_assign_blocks(tg.body, lambda e: True)
    if len(rets) == 1 and show(rets[0][1]) == "self.value":
        r5.ok("Toi::get", "returns self.value", loc(tg.sp))
    else:
        r5.violation("Toi::get", "Toi::get returns %s" % [show(e) for _, e in rets], loc(tg.sp))
    for a in field_accesses(prog, TOI, "value"):
        caller = a["func"].path
        if a["kind"] == "construct" and caller == TA + "::allocate":
            e = Slicer(a["func"].body).expand(a["value"])
            if any(c[0] == "call" and c[1].endswith("ToiAllocatorInternal::allocate") for c in walk(e)):
                r5.ok("ToiAllocator::allocate Toi.value", "= internal.allocate()", loc(a["sp"]))
            else:
                r5.violation("ToiAllocator::allocate Toi.value", "handle value is %s" % show(e, 60), loc(a["sp"]))
        elif a["kind"] == "construct" and caller == TA + "::allocate_toi_fdt":
            if show(a["value"]) == "0":
                r5.ok("allocate_toi_fdt Toi.value", "0", loc(a["sp"]))
            else:
                r5.violation("allocate_toi_fdt Toi.value", show(a["value"]), loc(a["sp"]))
        elif a["kind"] in ("assign", "assign_sub", "borrow_mut", "construct"):
            r5.violation("%s %s Toi.value" % (caller, a["kind"]), "Toi value written outside the allocator", loc(a["sp"]))
    r5.floor(5, "TOI provenance facts")

    # ---- R6 TOI field on the wire -------------------------------------------------------------------------
    r6 = ctx.rule("C15.R6", "the allocated TOI is the TOI carried in the packets: in push_lct_header the O and H flags sit at their RFC 5651 "
                            "positions and the TOI (and the TSI / CCI before it) is written with exactly the 4*O + 2*H (4*S + 2*H, 4*(C+1)) "
                            "bytes the flags announce - a mismatch displaces or truncates the TOI the receiver reads (same analysis as C06.R7)",
                  "E5 bit provenance + affine lengths")
    from . import c06
    c06.lct_first_word_rule(ctx, r6)
    r6.floor(10, "first-word / length facts")
    r7 = ctx.rule("C15.R7", "the width of the TOI field is chosen so that no set bit of the allocated TOI is dropped: nb_bytes_128 returns the smallest "
                            "even byte count that holds every set bit, and O / H are derived from that count (shared with C06.R9)",
                  "arm table + E5 bit provenance + sign table")
    c06.width_class_rule(ctx, r7)
