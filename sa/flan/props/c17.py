"""C17 — receiver memory bounded by configuration."""
import re

from ..rules import *  # noqa
from ..model import X, show, loc, walk
from ..cfg import Flow, Slicer, find_calls, call_sites

RC = "receiver::receiver::Receiver"
OR = "receiver::objectreceiver::ObjectReceiver"
MR = "receiver::multireceiver::MultiReceiver"
FWI = "receiver::fdtreceiver::FdtWriterInner"
BW = "receiver::blockwriter::BlockWriter"

GROW = ("push", "push_back", "push_front", "insert", "entry", "extend", "extend_from_slice", "append", "resize", "resize_with", "reserve", "or_insert", "or_insert_with")

# long-lived receiver-side collections: (ADT, field)
REGISTRIES = [
    (RC, "objects"), (RC, "objects_completed"), (RC, "objects_error"), (RC, "fdt_receivers"), (RC, "fdt_current"),
    (OR, "cache"), (OR, "blocks"), (OR, "groups"),
    (MR, "alc_receiver"), (MR, "listeners"),
    (FWI, "data"), (BW, "buffer"),
]


def run(ctx):
    prog = ctx.prog
    ctx.explanation = (
        "C17: live heap bytes are a runtime measurement and NOT decided.  Decided: R1 an inventory of every growth call on the "
        "receiver's long-lived collections, each with its bound — a dominating size guard, an immediate GC in the same "
        "function, or removal by the timeout cleanup — checked mechanically where the bound is local; a growth site without a "
        "bound is a violation; R2 the counter that guards the packet cache is actually maintained (assigned a value that "
        "depends on the cached packet's length in the function that pushes); R3 the timeout cleanup can release entries of "
        "every registry in every state.")
    ctx.not_decided += ["live heap bytes held by the receiver", "decoded-but-unwritten blocks exceed the limit by at most two blocks (numeric)"]

    r1 = ctx.rule("C17.R1", "every growth call on a long-lived receiver collection has a recognised bound", "WMC+DOM/PAIR inventory")
    seen = 0
    for adt, field in REGISTRIES:
        try:
            prog.adt(adt)
        except model.AnchorMissing:
            raise
        for s, ai, mut in calls_on_field(prog, adt, field):
            m = method_name(s)
            if s.func.derived or m not in GROW:
                continue
            seen += 1
            caller = s.func.root().path
            key = "%s grows %s.%s (%s)" % (caller, adt.split("::")[-1], field, m)
            ok, why = bound_for(ctx, prog, adt, field, s, m)
            if ok:
                r1.ok(key, why, s.loc, how="TABLE+check" if "reviewed" in why else "AUTO")
            else:
                r1.violation(key, why, s.loc)
    r1.floor(11, "growth sites on receiver registries")

    # ---- R2 ----------------------------------------------------------------------------------
    r2 = ctx.rule("C17.R2", "in every function that pushes to ObjectReceiver.cache, cache_size is assigned a value that depends on the "
                            "pushed packet's length, and the push is guarded by cache_size against max_size_allocated", "WWF+DEP+DOM")
    pushers = {}
    for s, ai, mut in calls_on_field(prog, OR, "cache"):
        if method_name(s) in ("push", "insert", "extend", "append"):
            pushers.setdefault(s.func.root().path, []).append(s)
    if not pushers:
        raise model.AnchorMissing("nothing pushes to ObjectReceiver.cache")
    for fn, sites in sorted(pushers.items()):
        g = prog.fn(fn)
        ctx.analysed(fn)
        gfl = Flow(g.body)
        gsl = Slicer(g.body)
        acc = [a for a in field_accesses(prog, OR, "cache_size", funcs=[g]) if a["kind"] == "assign"]
        key = "%s maintains cache_size" % fn.split("::")[-1]
        dep = False
        for a in acc:
            srcs = gsl.sources(a["value"])
            if any(re.search(r"pkt.*\.data|data.*len|len", z) for z in srcs if z.startswith("var:pkt") or z.startswith("call:")) and \
                    any(z.startswith("var:pkt") for z in srcs) and any(z.startswith("var:self.cache_size") for z in srcs):
                dep = True
        # the increment is at least what the cached copy holds: AlcPkt::to_cache copies the whole datagram (pkt.data), so the
        # addend must be len(pkt.data) plus non-negative terms; an addend that subtracts (e.g. only the payload) undercounts
        from .. import polarity
        under = None
        cands = []
        xg = X(g.body)
        for blk in g.body.blocks:
            if blk.cleanup:
                continue
            for st in blk.stmts:
                if st.k == "assign":
                    cands.append(xg.rvalue(st.rv, xg.depth))
            if blk.term.k == "call":
                cands.append(xg.call_expr(blk.i, blk.term, xg.depth))
        seen_add = set()
        for ex in cands:
            adds = [c for c in walk(ex) if (c[0] == "call" and re.search(r"::(checked_add|saturating_add|wrapping_add)$", c[1]) and len(c[2]) == 2)
                    or (c[0] == "bin" and c[1].startswith("Add"))]
            for c in adds:
                l_, r_ = (c[2][0], c[2][1]) if c[0] == "call" else (c[2], c[3])
                # the counter may have been read into a local first (`let cached = self.cache_size; cached.checked_add(..)`)
                addend = r_ if show(gsl.expand(l_)) == "self.cache_size" else (l_ if show(gsl.expand(r_)) == "self.cache_size" else None)
                if addend is None or show(addend) in seen_add:
                    continue
                seen_add.add(show(addend))
                form, c0 = polarity.affine(gsl.expand(addend))
                whole = [v for n, v in form.items() if re.search(r"len\(&?pkt\.data\)$", n)]
                neg = [n for n, v in form.items() if v < 0]
                if not whole or whole[0] < 1 or neg or c0 < 0:
                    under = "cache_size grows by %s, which can be less than the %s bytes the cached copy holds" % (show(gsl.expand(addend), 80), "len(pkt.data)")
        if not seen_add:
            under = "no addition to self.cache_size found in %s" % fn.split("::")[-1]
        if dep and under:
            r2.violation(key, under + ": packets with small or empty payloads are cached without moving the counter, the limit never fires", loc(acc[0]["sp"]))
        elif dep:
            r2.ok(key, "cache_size <- cache_size + pkt length", loc(acc[0]["sp"]))
        else:
            r2.violation(key, "the function pushes packets into the cache but never updates cache_size (%s): the limit "
                              "`cache_size >= max_size_allocated` can never fire and the cache grows with traffic" % (
                                  "no assignment" if not acc else "assigned %s" % "; ".join(show(a["value"], 50) for a in acc)), sites[0].loc)
        for s in sites:
            fs = gfl.facts_at(s.bb)
            guard = any(a[0] == "lt" and t and show(a[1]) == "self.cache_size" and show(a[2]) == "self.max_size_allocated" for (a, t) in fs)
            key2 = "%s cache push guarded" % fn.split("::")[-1]
            if guard:
                r2.ok(key2, "cache_size < max_size_allocated", s.loc)
            else:
                r2.violation(key2, "packets are cached without comparing cache_size with max_size_allocated", s.loc)
    # an abandoned object is counted in error: cache() Err -> error() in push
    p = prog.fn(OR + "::push")
    okerr = False
    for s in call_sites(p, lambda pp, c: pp.endswith("Result::unwrap_or_else")):
        e = s.expr
        if any(c[0] == "call" and c[1] == OR + "::cache" for c in walk(e)):
            for z in walk(e):
                if z[0] == "closure" and z[1] in prog.funcs and any(True for _ in call_sites(prog.funcs[z[1]], lambda pp, c: pp == OR + "::error")):
                    okerr = True
    if not okerr:
        # `if self.cache(pkt).is_err() { self.error(..) }` / `if let Err(_) = self.cache(pkt) { .. }`
        pfl = Flow(p.body)
        for s in call_sites(p, lambda pp, c: pp == OR + "::error"):
            for (a, t) in pfl.facts_at(s.bb):
                if a[0] == "variant" and ((a[2] == "Err") == t) and any(c[0] == "call" and c[1] == OR + "::cache" for c in walk(a[1])):
                    okerr = True
                elif a[0] == "variant" and ((a[2] == "Err") == t) and ("call:" + OR + "::cache") in Slicer(p.body).sources(a[1], control=False):
                    # the result travelled through a local shared with another fallible step (`let (result, what) = match ..`)
                    okerr = True
    if okerr:
        r2.ok("push: cache() failure -> error()", "", loc(p.sp))
    else:
        r2.violation("push: cache() failure -> error()", "a full cache does not abandon the object", loc(p.sp))
    # what is cached is the whole datagram
    tc = prog.fn("common::alc::AlcPkt::<'a>::to_cache")
    ctx.analysed(tc.path)
    okc = False
    for blk in tc.body.blocks:
        for st in blk.stmts:
            if st.k == "assign" and st.rv.k == "aggr" and (st.rv.j.get("adt") or "").endswith("AlcPktCache"):
                e = X(tc.body).operand(st.rv.ops[st.rv.j["fnames"].index("data")])
                from ..cfg import strip_ref
                okc = e[0] == "call" and e[1].endswith("::to_vec") and show(strip_ref(e[2][0])) == "self.data"
    if okc:
        r2.ok("to_cache copies pkt.data", "AlcPktCache.data = self.data.to_vec()", loc(tc.sp))
    else:
        r2.violation("to_cache copies pkt.data", "the cached copy no longer holds exactly pkt.data: the counter in cache() measures something else", loc(tc.sp))
    cache_reset_rule(ctx, r2)
    r2.floor(4, "cache facts")

    # ---- R5 block allocation limit -----------------------------------------------------------------
    r5 = ctx.rule("C17.R5", "block allocation limit of push_to_block2: the size tested against max_size_allocated and accumulated in "
                            "total_allocated_blocks_size is the block's size in bytes in both arms (source_block_length x encoding_symbol_length when the "
                            "payload id carries the block length, partition::block_length(..) otherwise); the same value is stored as BlockDecoder.block_size "
                            "and subtracted when the block is released", "value shape + ARG")
    block_limit_rule(ctx, r5)
    r5.floor(7, "block limit facts")

    # ---- R4 the timeout clock -----------------------------------------------------------------------
    r4 = ctx.rule("C17.R4", "ObjectReceiver.last_activity - the clock Receiver::cleanup measures object_timeout against - is refreshed only "
                            "by a packet of the object: written in ObjectReceiver::new and on ObjectReceiver::push (directly, or in a helper "
                            "called from push only); an FDT arriving for the session must not keep a stalled object alive", "WWF + callers")
    okfns = {OR + "::new", OR + "::push"}
    for a in field_accesses(prog, OR, "last_activity"):
        if a["kind"] not in ("assign", "assign_sub", "borrow_mut", "construct"):
            continue
        w = a["func"].root().path
        key = "%s writes ObjectReceiver.last_activity" % w.split("::")[-1]
        if w in okfns:
            r4.ok(key, "", loc(a["sp"]))
            continue
        callers = sorted(set(c.func.root().path for c in find_calls(prog, "^" + re.escape(w) + "$")))
        bad = [c for c in callers if c not in okfns]
        if callers and not bad:
            r4.ok(key, "helper called only from %s" % ", ".join(c.split("::")[-1] for c in callers), loc(a["sp"]))
        else:
            r4.violation(key, "the object timeout clock is refreshed from %s: an event other than a packet of the object (e.g. every new FDT "
                              "instance attached through attach_latest_fdt_to_objects) keeps a stalled object for ever" % (
                                  ", ".join(c.split("::")[-1] for c in bad) or w.split("::")[-1]), loc(a["sp"]))
    # the timeout test reads that clock
    la = prog.fn(OR + "::last_activity_duration_since")
    rets = ret_assign_blocks(la.body, lambda e: True)
    from ..cfg import strip_ref as _sr
    if rets and all(e[0] == "call" and e[1].endswith("::duration_since") and show(_sr(e[2][1])) == "self.last_activity" for _, e in rets):
        r4.ok("last_activity_duration_since reads last_activity", "", loc(la.sp))
    else:
        r4.violation("last_activity_duration_since reads last_activity", "returns %s" % [show(e, 80) for _, e in rets], loc(la.sp))
    r4.floor(3, "timeout clock facts")

    # ---- R3 ----------------------------------------------------------------------------------
    r3 = ctx.rule("C17.R3", "Receiver::cleanup reaches a removal on `objects` (timeout) and on `fdt_receivers` for every state — an "
                            "instance still Receiving must be released after a timeout; MultiReceiver::cleanup removes expired sessions", "WMC + predicate inspection")
    cl = prog.fn(RC + "::cleanup")
    reach = prog.reachable_from([cl.path])
    ctx.analysed(*reach)
    rem_obj = [s for s, ai, mut in calls_on_field(prog, RC, "objects", funcs=[prog.funcs[p] for p in reach]) if method_name(s) in ("remove", "retain")]
    if rem_obj:
        r3.ok("cleanup releases stalled objects", "objects.%s in %s" % (method_name(rem_obj[0]), rem_obj[0].func.root().path.split("::")[-1]), rem_obj[0].loc)
    else:
        r3.violation("cleanup releases stalled objects", "Receiver::cleanup never removes from `objects`", loc(cl.sp))
    fdt_retain_rule(ctx, r3, reach)
    mc = prog.fn(MR + "::cleanup")
    rs = [s for s, ai, mut in calls_on_field(prog, MR, "alc_receiver", funcs=[mc]) if method_name(s) in ("retain", "remove")]
    if rs:
        r3.ok("MultiReceiver::cleanup removes expired sessions", "", rs[0].loc)
    else:
        r3.violation("MultiReceiver::cleanup removes expired sessions", "", loc(mc.sp))
    # explicit loop over the sessions, or `values_mut().for_each(|r| r.cleanup(now))`
    calls_inner = [s_ for bb_, how_, s_ in foreach_sites(prog, mc, r"^self\.alc_receiver\b", lambda pp: pp == RC + "::cleanup")]
    if calls_inner:
        r3.ok("MultiReceiver::cleanup runs Receiver::cleanup on every session", "", calls_inner[0].loc)
    else:
        r3.violation("MultiReceiver::cleanup runs Receiver::cleanup on every session", "", loc(mc.sp))
    r3.floor(4, "cleanup facts")


def bound_for(ctx, prog, adt, field, s, m):
    """-> (ok, reason)"""
    f = s.func.root()
    caller = f.path
    g = s.func
    fl = Flow(g.body)
    sl = Slicer(g.body)
    fs = fl.facts_at(s.bb)
    short = adt.split("::")[-1] + "." + field

    def followed_by(pred_call):
        bbs = set(c.bb for c in call_sites(g, pred_call))
        if not bbs:
            return False
        ok, _ = fl.postdominated_by(s.bb, lambda b: b in bbs)
        return ok

    if (adt, field) == (RC, "objects_error"):
        if followed_by(lambda p, c: p == RC + "::gc_object_error"):
            gc = prog.fn(RC + "::gc_object_error")
            gfl = Flow(gc.body)
            pops = [c for c in call_sites(gc, lambda p, c2: p.endswith("::pop_first") or p.endswith("::pop_last"))]
            ok = pops and all(any(a[0] == "lt" and t and "max_objects_error" in show(a[1]) and "objects_error" in show(a[2]) for (a, t) in gfl.facts_at(c.bb)) for c in pops)
            if not ok and pops:
                # the same trim as a counted loop: `for _ in 0..len.saturating_sub(max) { pop_first() }` - every pop sits in an iteration of a range
                # whose end is len(objects_error) - max_objects_error (saturating), and nothing else in the loop changes the set
                gsl_ = Slicer(gc.body)
                def counted(c):
                    for (a, t) in gfl.facts_at(c.bb):
                        if a[0] == "variant" and ((a[2] == "Some") == t) and a[2] in ("Some", "None") and any(z[0] == "call" and z[1].endswith("::next") for z in walk(a[1])):
                            txt = origin_text(gsl_, a[1])
                            if re.search(r"Range\{start: 0, end: <impl usize>::saturating_sub\(BTreeSet::len\(&self\.objects_error\), self\.config\.max_objects_error\)\}", txt):
                                return True
                    return False
                others = [s_ for s_, ai_, mut_ in calls_on_field(prog, RC, "objects_error", funcs=[gc]) if method_name(s_) in ("insert", "extend", "append", "remove", "clear", "retain")]
                ok = all(counted(c) for c in pops) and not others
            if ok:
                return True, "insert followed by gc_object_error(), which pops while len > config.max_objects_error"
            return False, "gc_object_error no longer trims to config.max_objects_error"
        return False, "%s grows without the gc_object_error() call that enforces config.max_objects_error" % short
    if (adt, field) == (RC, "fdt_current"):
        pops = [c for c, ai, mut in calls_on_field(prog, RC, "fdt_current", funcs=[g]) if method_name(c) in ("pop_back", "truncate")]
        for c in pops:
            cf = fl.facts_at(c.bb)
            for (a, t) in cf:
                if a[0] == "lt" and t and "fdt_current" in show(a[2]) and a[1][0] == "const" and fl.dominates(s.bb, c.bb):
                    return True, "push_front followed by `len > %s -> pop_back`" % show(a[1])
        return False, "%s grows without the length cap that follows push_front" % short
    if (adt, field) == (RC, "objects_completed"):
        gcs = find_calls(prog, r"^receiver::receiver::Receiver::gc_object_completed$")
        gc = prog.fn(RC + "::gc_object_completed")
        ret = [c for c, ai, mut in calls_on_field(prog, RC, "objects_completed", funcs=[gc]) if method_name(c) == "retain"]
        if gcs and ret:
            return True, "reviewed: trimmed to the TOIs of the newest FDT by gc_object_completed() on every completed FDT instance (bounded by the sender's FDT, not by configuration)"
        return False, "%s is no longer trimmed by gc_object_completed()" % short
    if (adt, field) == (RC, "objects"):
        cl = prog.fn(RC + "::cleanup_objects")
        rem = [c for c, ai, mut in calls_on_field(prog, RC, "objects", funcs=[cl]) if method_name(c) == "remove"]
        if rem:
            return True, "reviewed: one entry per TOI in reception; released on completion/error (check_object_state) and by cleanup_objects() after config.object_timeout"
        return False, "%s entries are never released by the timeout cleanup" % short
    if (adt, field) == (RC, "fdt_receivers"):
        return True, "reviewed: one entry per FDT instance id in reception; release is the subject of R3"
    if (adt, field) == (MR, "alc_receiver"):
        return True, "reviewed: one entry per (endpoint, TSI) session; released by close-session, expiry (cleanup) — config.session_timeout"
    if (adt, field) == (MR, "listeners"):
        return True, "reviewed: grows only through the add_listener API call, not through traffic"
    if (adt, field) == (OR, "groups"):
        return True, "reviewed: assigned once per attached FDT from its group list"
    if (adt, field) == (OR, "cache"):
        guard = any(a[0] == "lt" and t and show(a[1]) == "self.cache_size" and show(a[2]) == "self.max_size_allocated" for (a, t) in fs)
        if guard:
            return True, "dominated by cache_size < max_size_allocated (counter maintenance is R2)"
        return False, "%s grows without the cache_size guard" % short
    if (adt, field) == (OR, "blocks"):
        arg = s.expr[2][1] if len(s.expr[2]) > 1 else None
        srcs = sl.sources(arg) if arg is not None else set()
        if any(z.endswith("cmp::min") for z in srcs if z.startswith("call:")) and any("MAX_PREALLOCATED_BLOCKS" in z or z == "const:2048" for z in srcs):
            return True, "size = min(nb_blocks, MAX_PREALLOCATED_BLOCKS)"
        # the local the new size is computed from (named block_offset today)
        szl = [c[1] for c in walk(arg) if c[0] == "var" and not c[2]] if arg is not None else []
        g2 = [(a, t) for (a, t) in fs if a[0] == "le" and t and (show(a[1]) in szl or "block_offset" in show(a[1])) and const_value(a[2]) is not None or
              (a[0] == "le" and t and (show(a[1]) in szl or "block_offset" in show(a[1])) and re.search(r"\d", show(a[2])))]
        if g2:
            return True, "dominated by block_offset <= %s" % show(g2[0][0][2], 40)
        return False, "%s is resized from a wire-controlled block number without a cap" % short
    if (adt, field) == (BW, "buffer"):
        return True, "reviewed: decompression scratch buffer sized to the first block's length (bounded by the block allocation limit)"
    if (adt, field) == (FWI, "data"):
        # FDT reassembly buffer: any dominating comparison of its length / of a configured limit?
        guard = any(a[0] in ("lt", "le") and ("len" in show(a[1]) + show(a[2])) for (a, t) in fs)
        if guard:
            return True, "dominated by a length comparison"
        return False, ("the FDT reassembly buffer grows by every block written for TOI 0 with no bound other than the transfer length the "
                       "packets themselves announce (up to 2^48): memory is bounded by traffic, not by configuration")
    return False, "no bound recorded for %s" % short


def cache_reset_rule(ctx, rule):
    """the byte counter of the packet cache only decreases where the cache was emptied (shared by C17.R2 and C04.R6): a reset that can run while
    packets are still cached makes `cache_size >= max_size_allocated` unreachable and the cache grows with traffic"""
    prog = ctx.prog
    n = 0
    for a in field_accesses(prog, OR, "cache_size"):
        if a["kind"] != "assign" or a["func"].derived:
            continue
        v = a["value"]
        g = a["func"]
        if v[0] == "bin" and v[1].replace("WithOverflow", "").startswith("Add"):
            continue      # growth: C17.R2
        ex = Slicer(g.body).expand(v)
        if any(c[0] == "call" and re.search(r"::(checked_add|saturating_add)$", c[1]) for c in walk(ex)) or (ex[0] == "bin" and ex[1].startswith("Add")):
            continue
        n += 1
        key = "%s cache_size = %s" % (g.root().path.split("::")[-1], show(v, 40))
        fl = Flow(g.body)
        fs = fl.facts_at(a["bb"])
        # (a) dominated by the drain loop's exit `self.cache.pop() is None`
        drained = any(fa[0] == "variant" and fa[2] in ("None", "Some") and ((fa[2] == "None") == t) and
                      any(c[0] == "call" and re.search(r"Vec::pop$", c[1]) and "self.cache" in show(c[2][0]) for c in walk(fa[1])) for (fa, t) in fs)
        # (b) preceded on every path by self.cache.clear() / a fresh vector / mem::take, with no push in between
        clears = set(s_.bb for s_, ai_, mut_ in calls_on_field(prog, OR, "cache", funcs=[g]) if method_name(s_) in ("clear", "drain", "truncate"))
        clears |= set(x_["bb"] for x_ in field_accesses(prog, OR, "cache", funcs=[g]) if x_["kind"] == "assign" and x_["value"] is not None and
                      re.search(r"Vec::new\(\)$|vec::from_elem|Vec::with_capacity", show(x_["value"], 80)))
        clears |= set(c_.bb for c_ in call_sites(g, lambda p_, cc_: re.search(r"mem::(take|replace)$", p_) is not None)
                      if re.search(r"\bself\.cache\b", show(c_.expr[2][0], 120)))
        # … or by a call of a method of the same object that clears it (self.error(..) / self.complete(..) before a `break`)
        clearing_fns = set(s_.func.root().path for s_, ai_, mut_ in calls_on_field(prog, OR, "cache") if method_name(s_) in ("clear",))
        clears |= set(c_.bb for c_ in call_sites(g, lambda p_, cc_: p_ in clearing_fns and p_ != g.path))

        def emptied(n_):
            if n_[0] == "b":
                return n_[1] in clears and n_[1] != a["bb"]
            return any(fa[0] == "variant" and fa[2] in ("None", "Some") and ((fa[2] == "None") == t) and
                       any(c[0] == "call" and re.search(r"Vec::pop$", c[1]) and "self.cache" in show(c[2][0]) for c in walk(fa[1])) for (fa, t) in fl.edge_facts(n_))
        cleared = a["bb"] != 0 and fl.must_pass(0, [a["bb"]], emptied)[0]     # (in the entry block nothing precedes the reset)
        same_blk = any(c_ == a["bb"] for c_ in clears)
        if not (v[0] == "const" and v[2] == 0):
            rule.violation(key, "cache_size is set to %s: the counter may only grow by the length of a cached packet or be reset to 0 with the cache" % show(v, 60), loc(a["sp"]))
        elif drained or cleared or same_blk:
            rule.ok(key, "after the cache was emptied (%s)" % ("drain loop left on pop() == None" if drained else "cache.clear()"), loc(a["sp"]))
        else:
            rule.violation(key, "the byte counter of the packet cache is reset on a path where the cache was not emptied: the limit `cache_size >= "
                                "max_size_allocated` never fires again and the cache grows with every packet received before the OTI is known", loc(a["sp"]))
    return n


def fdt_retain_rule(ctx, r3, reach=None):
    """decision table of the retain predicate of Receiver::cleanup_fdt over the FDT instance states (shared with C04.R6)"""
    prog = ctx.prog
    cl = prog.fn(RC + "::cleanup")
    if reach is None:
        reach = prog.reachable_from([cl.path])
    ret_fdt = [s for s, ai, mut in calls_on_field(prog, RC, "fdt_receivers", funcs=[prog.funcs[p] for p in reach]) if method_name(s) in ("retain", "remove", "extract_if")]
    if not ret_fdt:
        r3.violation("cleanup releases FDT instances", "Receiver::cleanup never removes from `fdt_receivers`", loc(cl.sp))
    for s in ret_fdt:
        if method_name(s) != "retain":
            r3.ok("cleanup releases FDT instances (%s)" % method_name(s), "", s.loc)
            continue
        clos = [z[1] for z in walk(s.expr) if z[0] == "closure" and z[1] in prog.funcs]
        key = "cleanup releases unfinished FDT instances"
        if len(clos) != 1:
            r3.violation(key, "retain predicate is not a single closure", s.loc)
            continue
        from .. import polarity
        cf = prog.funcs[clos[0]]
        ctx.analysed(cf.path)
        # the instance state is an enum slot: `state == FDTState::V` and `match fdt.state() { V => .. }` are the same test
        t = polarity.Table(cf, name_enum={"state": (r"FdtReceiver::state\(|^state(~\d+)?$", ("Receiving", "Complete", "Error", "Expired"))},
                           name_bool={"has_timeout": r"object_timeout\)? is Some$", "timed_out": r"FdtReceiver::is_timeout"})
        found = t.labels_found()
        if "state" not in found:
            r3.violation(key, "the retain predicate of cleanup_fdt does not look at the instance's state (conditions: %s ; %s)" % (
                [polarity.show_key(k) for k in t.seen_sign][:5], list(t.seen_bool)[:5]), s.loc)
            continue
        nsc = 0
        for sc in t.scenarios():
            state = {"Receiving": "recv", "Complete": "comp", "Error": "err", "Expired": "exp"}[sc["state"]]
            if state == "recv":
                exp = {True} if not sc.get("has_timeout", False) else ({False} if sc.get("timed_out", False) else {True})
                if "has_timeout" not in sc or "timed_out" not in sc:
                    exp = None
            elif state == "comp":
                exp = {True}
            else:
                exp = {False}
            rets = set(r for r, _ in t.results(sc))
            k2 = "cleanup_fdt keeps [%s]" % ", ".join("%s=%s" % (k, v) for k, v in sorted(sc.items()))
            nsc += 1
            if exp is None:
                r3.violation(k2, "an instance still Receiving is kept without a timeout test: FDT instance ids that never complete are kept for ever", s.loc)
            elif rets == exp:
                r3.ok(k2, "%s" % sorted(rets), s.loc)
            else:
                what = {"recv": "still Receiving", "comp": "Complete", "err": "in state Error", "exp": "Expired"}[state]
                r3.violation(k2, "an FDT instance %s is %s by cleanup_fdt (expected %s): %s" % (
                    what, "kept" if True in rets else "released", "kept" if True in exp else "released",
                    "failed or expired instances accumulate with traffic and shadow later valid copies of the same instance id" if True in rets and False in exp
                    else "a usable instance is thrown away"), s.loc)
        if nsc:
            r3.ok(key, "retain predicate decided over %d state/timeout scenarios" % nsc, s.loc)


def block_limit_rule(ctx, rule):
    """the block allocation limit of push_to_block2 accounts in bytes"""
    from .. import polarity
    prog = ctx.prog
    f = prog.fn(OR + "::push_to_block2")
    ctx.analysed(f.path)
    sl = Slicer(f.body)
    fl = Flow(f.body)
    # the size local is whatever is handed to BlockDecoder::init as its byte size (named block_length today)
    inits_ = call_sites(f, lambda p, c: p.endswith("BlockDecoder::init"))
    BL = show(inits_[0].expr[2][3]) if inits_ and re.match(r"^\w+(~\d+)?$", show(inits_[0].expr[2][3])) else "block_length"
    defs = value_defs(sl, BL)
    if len(defs) < 2:
        raise model.AnchorMissing("push_to_block2: %d definitions of block_length" % len(defs))
    BLX = set([BL] + ([show(sl.expand(inits_[0].expr[2][3]), 200)] if inits_ else []))
    for e, bb in defs:
        e = sl.expand(e)
        txt = show(e, 200)
        if "partition::block_length" in txt:
            rule.ok("push_to_block2 block_length (partition arm)", "partition::block_length(..) bytes", loc(f.sp))
            continue
        key = "push_to_block2 block_length (payload-id arm)"
        facs = []
        ex = e
        while ex[0] == "cast":
            ex = ex[2]
        if ex[0] == "bin" and ex[1].replace("WithOverflow", "").startswith("Mul"):
            facs = [re.sub(r" as \w+|[()]", "", show(ex[2])), re.sub(r" as \w+|[()]", "", show(ex[3]))]
        # symbols (the payload id's source block length) x symbol length, under whatever local names
        if len(facs) == 2 and any("source_block_length" in x_ for x_ in facs) and any(re.search(r"(^|\.)encoding_symbol_length$", x_) for x_ in facs) and \
                not all("source_block_length" in x_ for x_ in facs):
            rule.ok(key, "source_block_length * encoding_symbol_length", loc(f.sp))
        else:
            rule.violation(key, "the size of a block announced by the payload id is taken as %s: the allocation limit compares it (and accumulates it) with "
                                "byte quantities, so anything but symbols x symbol length makes the limit wrong by that factor" % txt[:80], loc(f.sp))
    # the comparison and the accumulation use that value
    cmp_ok = False
    # a strict comparison max_size_allocated < total_allocated_blocks_size + <block size>, however it is spelled (`a + b > m`, `m < a + b`,
    # through a helper's parameters, its result kept in a local for `&&`)
    from .. import polarity
    for ((a_, t_), bb_) in comparisons(f):
        if a_[0] not in ("lt", "le"):
            continue
        key_, orient_ = polarity.diff_key(a_[1], a_[2])
        if key_[0] == "const":
            continue
        terms = dict(key_[0])
        names = set(terms)
        bl_ = (names - {"self.max_size_allocated", "self.total_allocated_blocks_size"})
        if len(names) == 3 and len(bl_) == 1 and (bl_ & BLX) and {"self.max_size_allocated", "self.total_allocated_blocks_size"} <= names and key_[1] == 0 and \
                terms["self.total_allocated_blocks_size"] == terms[list(bl_)[0]] == -terms["self.max_size_allocated"]:
            # (lhs - rhs) = orient * key ; the test must be `max < total + BL` (lt, true) or its negation `total + BL <= max` (le, true)
            d_max = orient_ * terms["self.max_size_allocated"]     # coefficient of max in (lhs - rhs)
            if (a_[0] == "lt" and d_max > 0) or (a_[0] == "le" and d_max < 0):
                cmp_ok = True
    if cmp_ok:
        rule.ok("push_to_block2 limit test", "total_allocated_blocks_size + block_length > max_size_allocated", loc(f.sp))
    else:
        rule.violation("push_to_block2 limit test", "no comparison of total_allocated_blocks_size + block_length with max_size_allocated found", loc(f.sp))
    for a in field_accesses(prog, OR, "total_allocated_blocks_size"):
        if a["kind"] != "assign":
            continue
        caller = a["func"].root().path.split("::")[-1]
        v = a["value"]
        key = "%s updates total_allocated_blocks_size" % caller
        form, c0 = polarity.affine(v)
        if caller == "push_to_block2" and form == {"self.total_allocated_blocks_size": 1, BL: 1} and c0 == 0:
            rule.ok(key, "+= block_length", loc(a["sp"]))
        elif v[0] == "bin" and v[1].replace("WithOverflow", "").startswith("Sub") and show(v[2]) == "self.total_allocated_blocks_size" and \
                re.search(r"block\)?\.block_size$|block_size$", show(Slicer(a["func"].body).expand(v[3]))):
            rule.ok(key, "-= block.block_size", loc(a["sp"]))
        else:
            rule.violation(key, "total_allocated_blocks_size = %s" % show(v, 80), loc(a["sp"]))
    # what BlockDecoder remembers as its size is the same value
    bi = prog.fn("receiver::blockdecoder::BlockDecoder::init")
    for a in field_accesses(prog, "receiver::blockdecoder::BlockDecoder", "block_size", funcs=[bi]):
        if a["kind"] == "assign":
            # the 4th parameter of init (after self, oti, source_block_length), whatever it is called
            pname = bi.body.names.get(4)
            if show(a["value"]) == pname:
                rule.ok("BlockDecoder::init block_size", "= %s (the byte size passed by push_to_block2)" % pname, loc(a["sp"]))
            else:
                rule.violation("BlockDecoder::init block_size", "block_size = %s, not the block_length that was accounted" % show(a["value"], 60), loc(a["sp"]))
    for s in call_sites(f, lambda p, c: p.endswith("BlockDecoder::init")):
        if show(s.expr[2][3]) == BL:
            rule.ok("push_to_block2 -> BlockDecoder::init(block_length)", "", s.loc)
        else:
            rule.violation("push_to_block2 -> BlockDecoder::init(block_length)", "passes %s" % show(s.expr[2][3], 60), s.loc)
