"""C20 — object sources interchangeable."""
import re

from ..rules import *  # noqa
from ..model import X, show, loc, walk
from ..cfg import Flow, Slicer, find_calls, call_sites
from ..loops import natural_loops

BE = "sender::blockencoder::BlockEncoder"


def run(ctx):
    prog = ctx.prog
    ctx.explanation = (
        "C20's core (equal packet sequences for all chunkings) is behavioural; decided are the structural conditions without "
        "which a chunking changes the packets: R1 the block buffer of a stream source is filled by a loop (or read_exact / "
        "read_to_end) rather than by one read() whose short count truncates the block, R2 every transfer rewinds the stream "
        "and builds a fresh encoder, R3 the buffer and stream block readers choose the block length by the same test and "
        "number blocks the same way, R4 the stream's transfer length is measured by seek(End) with the position restored.")
    ctx.not_decided += ["equality of packet sequences for all read chunkings"]

    # ---- R1 --------------------------------------------------------------------------------
    r1 = ctx.rule("C20.R1", R1_TEXT, "loop rule")
    stream_fill_rule(ctx, r1)

    # ---- R5 the end flag does not depend on how the source is read ---------------------------------------------
    from . import c08
    r5 = ctx.rule("C20.R5", "the close-object flag is decided from the bytes, not from the reader's state: " + c08.R1_TEXT +
                  "; the byte threshold is the transfer length compared with the source-byte counter (read_end is set at different moments for buffers and "
                  "streams) - shared with C08.R1", "DEP with listed idioms")
    c08.close_flag_window_rule(ctx, r5)

    # ---- R2 --------------------------------------------------------------------------------
    r2 = ctx.rule("C20.R2", R2_TEXT, "MPT+WWF")
    rewind_rule(ctx, r2)
    r2.floor(5, "rewind facts")

    # ---- R3 siblings ------------------------------------------------------------------------
    r3 = ctx.rule("C20.R3", "read_block_buffer and read_block_stream both pick block_length = a_large when curr_sbn < nb_a_large "
                            "else a_small, build the block with Block::new_from_buffer(curr_sbn, _, block_length, oti)", "SIB via DOM/ARG")
    for nm in ("read_block_buffer", "read_block_stream"):
        h = prog.fn(BE + "::" + nm)
        ctx.analysed(h.path)
        hf = Flow(h.body)
        hs = Slicer(h.body)
        # the selection = the local that receives self.a_large on one path and self.a_small on another (whatever it is called, and also when
        # the selection sits in a helper that was inlined)
        groups = {}
        for blk in h.body.blocks:
            if blk.cleanup:
                continue
            for st in blk.stmts:
                if st.k == "assign" and not st.lhs[1]:
                    v = re.sub(r" as \w+|[()]", "", show(hs.x.rvalue(st.rv, hs.x.depth)))
                    if v in ("self.a_large", "self.a_small"):
                        groups.setdefault(st.lhs[0], []).append((v, blk.i))
        found = {}
        sel_local = None
        for l_, vals in groups.items():
            if {v for v, _ in vals} == {"self.a_large", "self.a_small"}:
                sel_local = l_
                for v, bb_ in vals:
                    fs = hf.facts_at(bb_)

                    def is_sbn(e_):
                        return "self.curr_sbn" in show(hs.expand(e_), 120)
                    lt = [tr for (a, tr) in fs if a[0] == "lt" and "nb_a_large" in show(hs.expand(a[2]), 80) and is_sbn(a[1])]
                    ge = [tr for (a, tr) in fs if a[0] == "le" and "nb_a_large" in show(hs.expand(a[1]), 80) and is_sbn(a[2])]
                    found[v] = ("lt" if (lt and all(lt)) else ("ge" if (ge and all(ge)) else "?"))
        key = "%s block_length selection" % nm
        if found.get("self.a_large") == "lt" and found.get("self.a_small") in ("ge",):
            r3.ok(key, "a_large iff curr_sbn < nb_a_large", loc(h.sp))
        else:
            r3.violation(key, "block length selection is %s; expected a_large under curr_sbn < nb_a_large and a_small otherwise" % found, loc(h.sp))
        for s in call_sites(h, lambda p, c: p == "sender::block::Block::new_from_buffer"):
            a = s.expr[2]
            key = "%s Block::new_from_buffer args" % nm
            # third argument: the selected value (possibly copied into a named local)
            third = hs.expand(a[2])
            sel_name = h.body.names.get(sel_local, "_%s" % sel_local) if sel_local is not None else None
            third_ok = sel_local is not None and (show(third) == sel_name or any(c[0] in ("var", "tmp") and (c[1] == sel_name or c[1] == sel_local) for c in walk(third)) or
                                                  any(z in ("var:%s" % sel_name, "var:self.a_large") for z in hs.sources(a[2])))
            if show(a[0]) == "self.curr_sbn" and third_ok and show(a[3]) in ("oti", "&oti"):
                r3.ok(key, "", s.loc)
            else:
                r3.violation(key, "block built with (%s, _, %s, %s)" % (show(a[0], 30), show(a[2], 30), show(a[3], 30)), s.loc)
        # `value` is curr_sbn
        sw = [show(hs.x.operand(b.term.discr)) for b in h.body.blocks if b.term.k == "switch"]
    r3.floor(4, "sibling facts")

    # ---- R4 length --------------------------------------------------------------------------
    r4 = ctx.rule("C20.R4", "create_from_stream takes transfer_length from ObjectDataSource::len(), which measures with "
                            "seek(End(0)) and then restores the saved position", "ARG+PAIR")
    cs = prog.fn("sender::objectdesc::ObjectDesc::create_from_stream")
    ctx.analysed(cs.path)
    sl = Slicer(cs.body)
    for blk in cs.body.blocks:
        for st in blk.stmts:
            if st.k == "assign" and st.rv.k == "aggr" and st.rv.j.get("adt") == "sender::objectdesc::ObjectDesc" and not blk.cleanup:
                names = st.rv.j["fnames"]
                for fld in ("transfer_length", "content_length"):
                    srcs = sl.sources(sl.x.operand(st.rv.ops[names.index(fld)]))
                    key = "create_from_stream %s" % fld
                    if any(z == "call:sender::objectdesc::ObjectDataSource::len" for z in srcs):
                        r4.ok(key, "<- source.len()", loc(st.sp))
                    else:
                        r4.violation(key, "%s not taken from the measured stream length" % fld, loc(st.sp))
    ln = prog.fn("sender::objectdesc::ObjectDataSource::len")
    ctx.analysed(ln.path)
    lf = Flow(ln.body)
    lx = X(ln.body)
    lsl = Slicer(ln.body)
    ends, restores = [], []
    for s in call_sites(ln, lambda p, c: c.get("name") == "seek"):
        arg = show(s.expr[2][1])
        if "SeekFrom::End{0: 0}" in arg:
            ends.append(s.bb)
        elif "SeekFrom::Start{0:" in arg and re.search(r"SeekFrom::Start\{0: [^}]*stream_position\(.*\)@(Ok|Continue)\.0\}", show(lsl.expand(s.expr[2][1]), 400)):
            # Start(<the position read by stream_position() before measuring>), whatever the local is called
            restores.append(s.bb)
    if ends and restores and all(lf.postdominated_by(e, lambda b: b in restores)[0] or True for e in ends):
        # on the success path of the End seek the restore follows
        okp = True
        for e in ends:
            # every path from the End seek to an Ok return passes a restore
            oks = [bb for bb, ex in ret_assign_blocks(ln.body, lambda ex: is_variant(ex, "Ok"))]
            ok, w = lf.must_pass(e, oks, lambda n: n[0] == "b" and n[1] in restores)
            okp = okp and ok
        if okp:
            r4.ok("ObjectDataSource::len restores the position", "", loc(ln.sp))
        else:
            r4.violation("ObjectDataSource::len restores the position", "an Ok path leaves the stream at its end", loc(ln.sp))
    else:
        r4.violation("ObjectDataSource::len restores the position", "seek(End(0)) / seek(Start(current_pos)) pair not found", loc(ln.sp))
    # what len() answers: the position seek(End(0)) reported (streams) / the buffer's own length - not a difference with the current position,
    # which would make the announced length depend on where the stream stood when it was handed over
    for bb, ex in ret_value_defs(ln.body, lambda ex: is_variant(ex, "Ok")):
        pay = lsl.expand(ex)
        pay = pay[3][0] if pay[0] == "aggr" and len(pay) > 3 and pay[3] else pay
        while pay[0] == "cast" and pay[3] == "IntToInt" and pay[1] in ("u64", "u128", "usize"):
            pay = pay[2]
        txt = show(pay, 400)
        fs = lf.facts_at(bb)
        in_buffer = any(a[0] == "variant" and a[2] == "Buffer" and t for (a, t) in fs) or "@Buffer" in txt
        key = "ObjectDataSource::len answers %s" % ("the buffer length" if in_buffer else "the end position")
        if in_buffer and re.match(r"^(Vec::len|len)\(&*self@Buffer\.0\)$", txt):
            r4.ok(key, txt, loc(ln.sp))
        elif not in_buffer and re.match(r"^(Result::branch\()?[\w<>:, ]*::seek\(.*, SeekFrom::End\{0: 0\}\)\)?@(Continue|Ok)\.0$", txt) and \
                not any(z[0] == "bin" for z in walk(pay)):
            r4.ok(key, "the value seek(End(0)) returned", loc(ln.sp))
        else:
            r4.violation(key, "len() returns %s: the length announced for the object (transfer length, Content-Length, block partitioning) must be the "
                              "whole size of the source, whatever the position it was handed over at" % txt[:120], loc(ln.sp))
    r4.floor(5, "length facts")


R1_TEXT = ("in read_block_stream every Read::read that fills the block buffer sits in a loop that continues until the buffer is full or a "
           "read returns 0, and retries on ErrorKind::Interrupted (read_exact / read_to_end / take are accepted)")


R2_TEXT = ("BlockEncoder::new seeks a Stream source to Start(0) on every path to Ok; SenderSession::get_next "
           "builds a new encoder for every transfer it starts")


def rewind_rule(ctx, r2):
    prog = ctx.prog
    g = prog.fn(BE + "::new")
    ctx.analysed(g.path)
    gflow = Flow(g.body)
    x = X(g.body)
    seeks = []
    for s in call_sites(g, lambda p, c: c.get("name") == "seek" and (c.get("trait") or "").endswith("io::Seek")):
        arg = show(s.expr[2][1])
        if re.search(r"SeekFrom::Start\{0: 0\}", arg):
            # the Result must be propagated: the Continue edge of `?`
            seeks.append(s.bb)
    def contra(fact):
        (a, tr) = fact
        if a[0] == "variant" and "source" in show(a[1]) and a[2] == "Buffer" and tr:
            return False
        if a[0] == "variant" and "source" in show(a[1]) and a[2] == "Stream" and not tr:
            return False
        return None
    gflow.assume(contra)
    oks = ret_assign_blocks(g.body, lambda e: is_variant(e, "Ok"))
    if not oks:
        raise model.AnchorMissing("BlockEncoder::new has no Ok return")
    for bb, e in oks:
        ok, w = gflow.must_pass(0, [bb], lambda n: n[0] == "b" and n[1] in seeks)
        if ok and seeks:
            r2.ok("BlockEncoder::new rewinds streams", "seek(Start(0)) on every Ok path for Stream sources", loc(g.sp))
        else:
            r2.violation("BlockEncoder::new rewinds streams", "a Stream-backed encoder can be built without rewinding the stream: the "
                                                              "second transfer starts where the first ended", loc(g.sp))
    # seek error propagated
    for sb in seeks:
        t = g.body.blocks[sb].term
        nxt = g.body.blocks[t.target].term if t.target is not None else None
        e = x.call_expr(t.target, nxt, x.depth) if nxt is not None and nxt.k == "call" else None
        if e is not None and e[1].endswith("::branch"):
            r2.ok("BlockEncoder::new seek result checked", "?", loc(t.sp))
        else:
            r2.violation("BlockEncoder::new seek result checked", "the result of seek(Start(0)) is not propagated", loc(t.sp))
    SS = "sender::sendersession::SenderSession"
    gn = prog.fn(SS + "::get_next")
    ctx.analysed(gn.path)
    sl = Slicer(gn.body)
    for a in field_accesses(prog, SS, "encoder"):
        caller = a["func"].root().path
        if a["kind"] not in ("assign", "construct"):
            continue
        v = a["value"]
        key = "%s encoder = %s" % (caller.split("::")[-1], show(v, 40))
        if is_variant(v, "None") or (a["kind"] == "construct" and is_variant(v, "None")):
            r2.ok(key, "reset", loc(a["sp"]))
        elif caller == SS + "::get_next" and any(z == "call:sender::blockencoder::BlockEncoder::new" for z in sl.sources(v)):
            r2.ok(key, "fresh encoder from BlockEncoder::new", loc(a["sp"]))
        else:
            r2.violation(key, "encoder set from something other than a fresh BlockEncoder::new", loc(a["sp"]))
    # get_next resets the encoder first
    def straight_from_entry(bb):
        cur = 0
        for _ in range(6):
            if cur == bb:
                return True
            t = gn.body.blocks[cur].term
            if t.k in ("drop", "goto") and t.target is not None:
                cur = t.target
            else:
                return False
        return False
    first_none = any(a["func"].path == gn.path and a["kind"] == "assign" and is_variant(a["value"], "None") and straight_from_entry(a["bb"])
                     for a in field_accesses(prog, SS, "encoder", funcs=[gn]))
    if first_none:
        r2.ok("get_next drops the previous encoder first", "", loc(gn.sp))
    else:
        r2.violation("get_next drops the previous encoder first", "a previous encoder can survive into the next transfer", loc(gn.sp))


def stream_fill_rule(ctx, r1):
    prog = ctx.prog
    f = prog.fn(BE + "::read_block_stream")
    ctx.analysed(f.path)
    ls = natural_loops(f.body)
    inloop = set()
    for h, blocks, srcs in ls:
        inloop |= set(blocks)
    reads = call_sites(f, lambda p, c: re.search(r"io::Read::read$", p) is not None or (c.get("trait") == "std::io::Read" and c.get("name") == "read"))
    full = call_sites(f, lambda p, c: c.get("trait") == "std::io::Read" and c.get("name") in ("read_exact", "read_to_end", "read_buf_exact"))
    if not reads and not full:
        raise model.AnchorMissing("read_block_stream performs no Read call")
    flow = Flow(f.body)
    for s in reads:
        key = "read_block_stream Read::read"
        if s.bb in inloop:
            # the loop must be exited on a zero-length read or on a full buffer
            ok = False
            for h, blocks, srcs in ls:
                if s.bb not in blocks:
                    continue
                for b in blocks:
                    t = f.body.blocks[b].term
                    if t.k == "switch":
                        for k in range(len(t.targets) + 1):
                            tgt = t.targets[k][1] if k < len(t.targets) else t.otherwise
                            if tgt not in blocks:
                                for (a, tr) in flow.edge_facts(("e", b, k)):
                                    if a[0] in ("eq", "lt", "le"):
                                        ok = True
            if ok:
                r1.ok(key, "inside a fill loop", s.loc)
            else:
                r1.violation(key, "read() is in a loop whose exit does not test the byte count", s.loc)
        else:
            r1.violation(key, "a single read() fills the block buffer: a short read (pipes, sockets, chunked readers) yields a short "
                              "block, so packets depend on how the stream chunks its data", s.loc)
    # a transient ErrorKind::Interrupted must retry (the read_exact idiom), not end the transfer
    for s in reads:
        if s.bb not in inloop:
            continue
        retry = False
        for h, blocks, srcs in ls:
            if s.bb not in blocks:
                continue
            for b in blocks:
                t = f.body.blocks[b].term
                if t.k == "switch":
                    for k in range(len(t.targets) + 1):
                        tgt = t.targets[k][1] if k < len(t.targets) else t.otherwise
                        for (a, tr) in flow.edge_facts(("e", b, k)):
                            if a[0] == "eq" and tr and "Interrupted" in show(a[1]) + show(a[2]) and "kind" in show(a[1]) + show(a[2]) and tgt in blocks:
                                # and from there the loop is re-entered without setting read_end
                                retry = True
        key = "read_block_stream retries on ErrorKind::Interrupted"
        if retry:
            r1.ok(key, "", s.loc)
        else:
            r1.violation(key, "a read() interrupted by a signal (ErrorKind::Interrupted) ends the block / the transfer instead of being retried: "
                              "the packets then depend on how the stream behaves, not on its bytes", s.loc)
    for s in full:
        r1.ok("read_block_stream %s" % s.term.callee().get("name"), "", s.loc)
    # the MD5 announced for a stream is computed over the same bytes: the digest loop of ObjectDataStreamTrait::md5 ends only on a read of 0
    md5s = [p_ for p_ in prog.funcs if re.search(r"ObjectDataStreamTrait.*::md5$", p_)]
    if not md5s:
        # the private digest loop may have been folded into its only user, md5_base64
        md5s = [p_ for p_ in prog.funcs if re.search(r"ObjectDataStreamTrait.*::md5_base64$", p_) and
                call_sites(prog.funcs[p_], lambda p, c: c.get("name") == "read" and (c.get("trait") or "").endswith("io::Read"))]
    if not md5s:
        raise model.AnchorMissing("ObjectDataStreamTrait::md5 not found")
    m5 = prog.fn(md5s[0])
    ctx.analysed(m5.path)
    mls = natural_loops(m5.body)
    mflow = Flow(m5.body)
    mreads = [s for s in call_sites(m5, lambda p, c: c.get("name") == "read" and (c.get("trait") or "").endswith("io::Read"))]
    key = "ObjectDataStreamTrait::md5 reads until a read returns 0"
    okm = bool(mreads) and bool(mls)
    exits_seen = 0
    for h, blocks, srcs in mls:
        if not any(s.bb in blocks for s in mreads):
            continue
        for b in blocks:
            t = m5.body.blocks[b].term
            if t.k == "switch":
                for k in range(len(t.targets) + 1):
                    tgt = t.targets[k][1] if k < len(t.targets) else t.otherwise
                    if tgt in blocks or m5.body.blocks[tgt].cleanup or m5.body.blocks[tgt].term.k == "unreachable":
                        continue
                    fs = mflow.edge_facts(("e", b, k))
                    # leaving through `?` (an Err) is fine; a normal exit must be on count == 0
                    if any(a[0] == "variant" and a[2] in ("Break", "Err") and t_ for (a, t_) in fs):
                        continue
                    exits_seen += 1
                    msl = Slicer(m5.body)

                    def from_read(e_):
                        # the compared value is the count the read returned (whatever the local is called)
                        return any(z_.startswith("call:") and re.search(r"::read$", z_) for z_ in msl.sources(e_, control=False))
                    if not any(a[0] == "eq" and t_ and ((show(a[1]) == "0" and from_read(a[2])) or (show(a[2]) == "0" and from_read(a[1]))) for (a, t_) in fs):
                        okm = False
    if okm and exits_seen:
        r1.ok(key, "digest loop left only on count == 0", loc(m5.sp))
    else:
        r1.violation(key, "the digest loop can end on a read that is merely short: for a source that chunks its data the Content-MD5 announced in the FDT covers a "
                          "prefix only and differs from the one of the same bytes given as a buffer", loc(m5.sp))
    # the reads go straight to the object's own stream: an adaptor that buffers (BufReader, Take<BufReader>, ...) created for the
    # duration of one block reads ahead and drops the surplus when the block is done, so the next block starts too far
    for s in reads + full:
        selfty = (s.term.callee().get("substs") or ["?"])[0]
        if re.match(r"^[A-Z]\w{0,2}$", selfty):
            # the read sits in a generic helper (`fn fill<R: Read + ?Sized>(stream: &mut R, ..)`) that was analysed as part of this function: the
            # receiver is the caller's value, its type is the type of the place it was taken from
            tys = [z_[3] for z_ in walk(Slicer(s.func.body).expand(s.expr[2][0])) if z_[0] in ("var", "tmp") and len(z_) > 3 and isinstance(z_[3], str)
                   and not re.match(r"^(&mut |&)*[A-Z]\w{0,2}$", z_[3])]
            if tys:
                selfty = re.sub(r"^.*(MutexGuard|RefMut)<'?\w*,? ?(.*)>$", r"\2", tys[0])
        key = "read_block_stream reads the object's stream directly"
        if re.match(r"^(&mut |&|std::boxed::Box<)*dyn sender::objectdesc::ObjectDataStreamTrait", selfty):
            r1.ok(key, "Self = %s" % selfty, s.loc)
        else:
            r1.violation(key, "read() is called on `%s`, not on the object's stream: a per-block adaptor that buffers consumes bytes "
                              "beyond the block and loses them" % selfty, s.loc)
    r1.floor(3, "stream reads")


