"""C01 — clean channel: byte-exact delivery with metadata (structural necessary conditions only)."""
import re

from .. import rules
from ..rules import *  # noqa
from ..model import X, show, loc, walk
from ..cfg import Flow, Slicer

FILEDESC = "sender::filedesc::FileDesc"
FILE = "common::fdtinstance::File"
OBJRECV = "receiver::objectreceiver::ObjectReceiver"

# RFC wire width (bits) of the transfer-length field of EXT_FTI per FEC Encoding ID (DESIGN appendix D)
WIRE_TL_BITS = {"NoCode": 48, "ReedSolomonGF2M": 48, "ReedSolomonGF28": 48,
                "ReedSolomonGF28UnderSpecified": 48, "RaptorQ": 40, "Raptor": 40}
# width of the SBN field of the FEC payload id per scheme
WIRE_SBN_BITS = {"NoCode": 16, "ReedSolomonGF28": 24, "ReedSolomonGF28UnderSpecified": 32, "RaptorQ": 8, "Raptor": 16}


def user_constructions(prog, adt):
    out = []
    for p, f in sorted(prog.funcs.items()):
        if f.derived:
            continue
        for blk in f.body.blocks:
            for i, s in enumerate(blk.stmts):
                if s.k == "assign" and s.rv.k == "aggr" and s.rv.j.get("adt") == adt:
                    if s.sp and s.sp[5]:
                        continue  # derive / macro generated
                    out.append((f, blk.i, i, s))
    return out


def admission_gate_rule(ctx, r1):
    """every FileDesc is built behind the refusal gate of its own OTI (shared with C08.R10: the gate is what keeps the number of blocks within
    the SBN field of the scheme, so that every source symbol has its own (SBN, ESI) on the wire)"""
    prog = ctx.prog
    cons = user_constructions(prog, FILEDESC)
    for f, bb, i, s in cons:
        ctx.analysed(f.path)
        flow = Flow(f.body)
        sl = Slicer(f.body)

        from ..cfg import strip_ref
        names_ = s.rv.j["fnames"]
        oti_op = show(strip_ref(sl.x.operand(s.rv.ops[names_.index("oti")])))
        obj_op = show(strip_ref(sl.x.operand(s.rv.ops[names_.index("object")])))
        wrong = []

        def gate(n, flow=flow, sl=sl):
            """the limit is the one of the OTI the FileDesc is built with, the length the one of the object it is built with"""
            if n[0] != "e":
                return False
            for (a, t) in flow.edge_facts(n):
                if a[0] == "le" and t:
                    if sources_match(sl, a[1], r"transfer_length") and sources_match(sl, a[2], r"call:.*Oti::max_transfer_length"):
                        lim = [c for c in walk(sl.expand(a[2])) if c[0] == "call" and c[1].endswith("Oti::max_transfer_length")]
                        lhs = show(sl.expand(a[1]), 200)
                        if lim and all(show(strip_ref(c[2][0])) == oti_op for c in lim) and re.search(r"\b%s\)?\.transfer_length" % re.escape(obj_op), lhs):
                            return True
                        wrong.append("%s <= %s" % (lhs[:60], show(sl.expand(a[2]), 80)))
            return False

        ok, w = flow.must_pass(0, [bb], gate)
        key = "%s constructs FileDesc" % f.path
        if ok:
            r1.ok(key, "construction dominated by transfer_length <= max_transfer_length()", loc(s.sp))
        else:
            r1.violation(key, "a path reaches the FileDesc construction without passing the refusal gate "
                              "(%s.transfer_length <= %s.max_transfer_length(), the OTI and object the FileDesc is built with)%s: %s" % (
                                  obj_op, oti_op, (" - found only a gate on other values: " + "; ".join(sorted(set(wrong))[:2])) if wrong else "",
                                  path_text(f.body, w)), loc(s.sp))
    r1.floor(1, "user constructions of FileDesc")
    wmc(r1, prog, r"^sender::filedesc::FileDesc::new$", [r"^sender::fdt::Fdt::(add_object|publish)$"])


def run(ctx):
    prog = ctx.prog
    ctx.explanation = (
        "C01 is a byte-exact round-trip property; static analysis decides only its structural necessary conditions: "
        "R1 the refusal gate dominates every construction of a transmittable object, R2 the per-scheme capacity "
        "constants fit the wire field that carries them, R3 both ends call the same partition function with the same "
        "argument roles (shared with C07), R4 every metadata field flows from the sender's object into the FDT File "
        "entry and from the File entry into the writer's metadata.")
    ctx.not_decided += ["byte equality of delivered objects", "FEC / inflate / XML library behaviour",
                        "exactly-one-copy over configurations"]

    # ---- R1 refusal gate -----------------------------------------------------------------
    r1 = ctx.rule("C01.R1", "every FileDesc is built by a function in which each path to the construction passes the "
                            "not-taken edge of `transfer_length > Oti::max_transfer_length()`; only the FDT module "
                            "creates FileDescs", "MPT+WMC")
    admission_gate_rule(ctx, r1)

    # ---- R12 the object's own FDT instance goes out before its packets ------------------------------------------------------------------
    r12 = ctx.rule("C01.R12", "an object is announced before it is sent: every path of SenderSession::run to encoder.read() / new_alc_pkt passes "
                              "the not-pending edge of need_transfer_fdt() evaluated after the file was picked - an empty object has a single "
                              "packet, sent before the FDT that lists it it is never delivered (same analysis as C11.R2)", "MPT under assumption")
    from . import c11
    c11.fdt_pending_gate(ctx, r12)

    # ---- R2 capacity table vs wire width ----------------------------------------------------
    r2 = ctx.rule("C01.R2", "per FEC scheme, the transfer-length cap of Oti::max_transfer_length fits the EXT_FTI "
                            "transfer-length field (48 bits; 40 bits for RaptorQ/Raptor) and max_source_blocks_number fits the "
                            "SBN field of the payload id", "TABLE(arm constants) vs RFC width")
    f = prog.fn("common::oti::Oti::max_transfer_length")
    ctx.analysed(f.path)
    arms = arm_constants(f, r"fec_encoding_id", var_regex=r"transfer_length")
    for variant, bits in sorted(WIRE_TL_BITS.items()):
        if variant not in arms:
            raise model.AnchorMissing("max_transfer_length has no recognisable arm for %s" % variant)
        v = arms[variant]
        key = "max_transfer_length[%s]" % variant
        if not isinstance(v, int):
            r2.violation(key, "arm value is not a recognisable constant (%r)" % (v,), loc(f.sp))
        elif v > (1 << bits) - 1:
            r2.violation(key, "cap %#x needs %d bits but the %s EXT_FTI carries the transfer length in %d bits: a longer "
                              "object is accepted and its length truncated on the wire" % (v, v.bit_length(), variant, bits), loc(f.sp))
        else:
            r2.ok(key, "cap %#x fits %d bits" % (v, bits), loc(f.sp))
    r2.floor(6, "arms of max_transfer_length")
    f2 = prog.fn("common::oti::Oti::max_source_blocks_number")
    ctx.analysed(f2.path)
    arms2 = arm_constants(f2, r"fec_encoding_id")
    for variant, bits in sorted(WIRE_SBN_BITS.items()):
        v = arms2.get(variant)
        key = "max_source_blocks_number[%s]" % variant
        if not isinstance(v, int):
            r2.violation(key, "arm value is not a recognisable constant (%r)" % (v,), loc(f2.sp))
        elif v > (1 << bits) - 1:
            r2.violation(key, "%d blocks do not fit the %d-bit SBN field" % (v, bits), loc(f2.sp))
        else:
            r2.ok(key, "%d fits %d bits" % (v, bits), loc(f2.sp))

    # ---- R3 partition agreement: shared with C07 ---------------------------------------------
    from . import c07
    c07.partition_call_agreement(ctx, ctx.rule("C01.R3", c07.R1_TEXT, "ARG"))
    c07.partition_polynomials(ctx, prefix="C01.R3")

    # ---- R4 metadata flow -----------------------------------------------------------------
    metadata_flow_sender(ctx, ctx.rule("C01.R4s", SENDER_FLOW_TEXT, "ARG/DEP"))
    decoding_params_provenance(ctx, ctx.rule("C01.R5", DECODING_TEXT, "WWF + value provenance"))
    from . import c07 as _c07
    once_rule(ctx, ctx.rule("C01.R7", ONCE_TEXT, "E3 decision table over calls"))
    trailer_rule(ctx, ctx.rule("C01.R11", TRAILER_TEXT, "DOM"))
    block_addressing_rule(ctx, ctx.rule("C01.R9", ADDR_TEXT, "value shape + DOM"))
    from . import c08
    r8 = ctx.rule("C01.R8", "the sender never tells the receiver to close the object before its last packet (a premature close-object flag makes a "
                            "clean-channel receiver abandon the object): " + c08.R1_TEXT + "; " + c08.R5_TEXT, "DEP with listed idioms + decision table (shared with C08.R1 / C08.R5)")
    c08.close_flag_window_rule(ctx, r8)
    c08.source_symbol_rule(ctx, r8)
    from . import c07
    c07.z_range_rule(ctx, ctx.rule("C01.R10", c07.Z_TEXT, "E4 range of the written value vs the reader's refusal (shared with C07.R5)"))
    registry_forget_rule(ctx, ctx.rule("C01.R13", FORGET_TEXT, "WMC over objects_completed + DOM"))
    from . import c03
    c03.byte_accounting(ctx, ctx.rule("C01.R6", c03.BYTES_TEXT, "WWF + value shape + DOM"))
    metadata_flow_receiver(ctx, ctx.rule("C01.R4r", "receiver: each metadata field of ObjectReceiver assigned in attach_fdt "
                                                    "derives from the FDT File entry, and create_meta hands each one to the writer", "ARG/DEP"))


FORGET_TEXT = ("exactly one copy under receive-once: an entry of Receiver.objects_completed (the registry push_obj consults to suppress a second "
               "delivery) is dropped only by push_obj's own restart arm (decided by C01.R7) or by a collection that is conditioned on the FDT "
               "instance being a complete list (Full-FDT attribute) or on the entry's expiry - an FDT of publish mode ObjectsBeingTransferred "
               "lists only the objects in transfer, dropping what it does not list forgets an object between two of its transfers")

FORGETTERS = ("retain", "remove", "remove_entry", "clear", "pop_first", "pop_last", "split_off", "extract_if", "drain", "take", "replace")


def registry_forget_rule(ctx, rule):
    prog = ctx.prog
    RCV = "receiver::receiver::Receiver"
    sites = [s for (s, ai, mut) in calls_on_field(prog, RCV, "objects_completed") if method_name(s) in FORGETTERS and not s.func.derived]
    if not sites:
        raise model.AnchorMissing("no call removes entries of Receiver.objects_completed (push_obj's restart arm expected)")
    seen = set()
    flows = {}
    for s in sites:
        host = s.func.root().path.split("::")[-1]
        key = "%s: objects_completed.%s" % (host, method_name(s))
        if key in seen:
            continue
        seen.add(key)
        ctx.analysed(s.func.path)
        if host == "push_obj" and method_name(s) in ("remove", "remove_entry"):
            rule.ok(key, "the restart arm of push_obj (its scenarios are decided by C01.R7)", s.loc)
            continue
        fl = flows.setdefault(s.func.path, Flow(s.body))
        txt = " ".join(show(a[1], 300) + " " + (show(a[2], 300) if len(a) > 2 and not isinstance(a[2], str) else str(a[2]) if len(a) > 2 else "")
                       for (a, t_) in fl.facts_at(s.bb))
        if re.search(r"full_fdt|expire|is_expired", txt):
            rule.ok(key, "conditioned on %s" % re.search(r"full_fdt|expire|is_expired", txt).group(0), s.loc)
        else:
            rule.violation(key, "entries the current FDT instance does not list are dropped without a test that the instance is a complete list "
                                "(Full-FDT) or that the entry expired: with publish mode ObjectsBeingTransferred an object sent twice is forgotten "
                                "when another object's FDT instance arrives in between, and delivered a second time despite receive-once", s.loc)
    rule.floor(2, "calls that drop entries of objects_completed")


SENDER_FLOW_TEXT = ("sender: every metadata field of the FDT File entry derives from the corresponding field of the "
                    "object being sent")

# File field -> regex that one of its sources must match
SENDER_FIELDS = {
    "content_location": r"var:self\.object\.content_location",
    "toi": r"var:self\.toi",
    "content_length": r"var:self\.object\.content_length",
    "transfer_length": r"var:self\.object\.transfer_length",
    "content_type": r"var:self\.object\.content_type",
    "content_encoding": r"var:self\.object\.config\.cenc",
    "content_md5": r"var:self\.object\.md5",
    "cache_control": r"var:self\.object\.config\.cache_control",
    "file_etag": r"var:self\.object\.config\.e_tag",
    "group": r"var:self\.object\.config\.groups",
}


def metadata_flow_sender(ctx, rule):
    prog = ctx.prog
    cons = user_constructions(prog, FILE)
    if not cons:
        raise model.AnchorMissing("no user construction of fdtinstance::File")
    for f, bb, i, s in cons:
        ctx.analysed(f.path)
        sl = Slicer(f.body)
        x = sl.x
        names = s.rv.j["fnames"]
        for fld, want in sorted(SENDER_FIELDS.items()):
            if fld not in names:
                raise model.AnchorMissing("fdtinstance::File has no field %s" % fld)
            e = x.operand(s.rv.ops[names.index(fld)])
            srcs = sl.sources(e)
            key = "%s File.%s" % (f.path, fld)
            if any(re.search(want, z) for z in srcs):
                # equal-typed neighbours must not be swapped: the field must not ALSO be the only consumer of a sibling source
                rule.ok(key, "<- %s" % show(e, 120), loc(s.sp))
            else:
                rule.violation(key, "File.%s is built from {%s}; it never reads %s, so the receiver cannot learn the "
                                    "sender's value" % (fld, ", ".join(sorted(z for z in srcs if not z.startswith("const:")))[:200] or "constants only",
                                                        want.replace("var:", "").replace("\\", "")), loc(s.sp))
    rule.floor(len(SENDER_FIELDS), "File fields checked")
    # swapped equal-typed fields
    for f, bb, i, s in cons:
        sl = Slicer(f.body)
        names = s.rv.j["fnames"]
        for a, b in (("content_length", "transfer_length"),):
            ea = sl.sources(sl.x.operand(s.rv.ops[names.index(a)]))
            eb = sl.sources(sl.x.operand(s.rv.ops[names.index(b)]))
            key = "%s File.%s/%s not swapped" % (f.path, a, b)
            if any(re.search(SENDER_FIELDS[b], z) for z in ea) or any(re.search(SENDER_FIELDS[a], z) for z in eb):
                rule.violation(key, "File.%s and File.%s read each other's source" % (a, b), loc(s.sp))
            else:
                rule.ok(key, "", loc(s.sp))


RECV_FIELDS = {
    # ObjectReceiver field -> regex for a source in attach_fdt (param `fdt` or the File looked up from it)
    "content_location": r"var:file\.content_location",
    "content_md5": r"var:file\.content_md5",
    "content_length": r"var:file\.content_length",
    "content_type": r"var:file\.content_type",
    "e_tag": r"var:file\.file_etag",
    "groups": r"var:(file|fdt)\.group",
    "cache_control": r"call:.*File::get_object_cache_control",
    "transfer_length": r"call:.*File::get_transfer_length",
    "cenc": r"var:file\.content_encoding",
    "oti": r"call:.*FdtInstance::get_oti_for_file",
}

META_FIELDS = {
    "content_location": "content_location", "content_length": "content_length", "content_type": "content_type",
    "cache_control": "cache_control", "groups": "groups", "md5": "content_md5", "oti": "oti",
    "transfer_length": "transfer_length", "cenc": "cenc", "e_tag": "e_tag",
}


def metadata_flow_receiver(ctx, rule):
    prog = ctx.prog
    f = prog.fn(OBJRECV + "::attach_fdt")
    ctx.analysed(f.path)
    sl = Slicer(f.body)
    acc = [a for a in field_accesses(prog, OBJRECV, None, funcs=[f])] if False else None
    for fld, want in sorted(RECV_FIELDS.items()):
        accs = [a for a in field_accesses(prog, OBJRECV, fld, funcs=[f]) if a["kind"] in ("assign", "assign_sub")]
        key = "attach_fdt self.%s" % fld
        if not accs:
            rule.violation(key, "attach_fdt never assigns ObjectReceiver.%s: the FDT value is lost" % fld, loc(f.sp))
            continue
        srcs = set()
        for a in accs:
            srcs |= sl.sources(a["value"])
        if any(re.search(want, z) for z in srcs):
            rule.ok(key, "<- " + "; ".join(show(a["value"], 80) for a in accs)[:200], loc(accs[0]["sp"]))
        else:
            rule.violation(key, "ObjectReceiver.%s is assigned from {%s}, never from %s" % (
                fld, ", ".join(sorted(z for z in srcs if not z.startswith("const:")))[:200], want), loc(accs[0]["sp"]))
    g = prog.fn(OBJRECV + "::create_meta")
    ctx.analysed(g.path)
    cons = [c for c in user_constructions(prog, "receiver::writer::ObjectMetadata") if c[0].path == g.path]
    if not cons:
        raise model.AnchorMissing("create_meta does not construct ObjectMetadata")
    slg = Slicer(g.body)
    for _, bb, i, s in cons:
        names = s.rv.j["fnames"]
        for mf, of in sorted(META_FIELDS.items()):
            if mf not in names:
                raise model.AnchorMissing("ObjectMetadata has no field %s" % mf)
            e = slg.x.operand(s.rv.ops[names.index(mf)])
            srcs = slg.sources(e)
            key = "create_meta ObjectMetadata.%s" % mf
            if any(re.match(r"var:self\.%s($|\.|@)" % re.escape(of), z) for z in srcs):
                rule.ok(key, "<- self.%s" % of, loc(s.sp))
            else:
                rule.violation(key, "ObjectMetadata.%s does not read ObjectReceiver.%s (sources: %s)" % (
                    mf, of, ", ".join(sorted(srcs))[:200]), loc(s.sp))
    rule.floor(len(RECV_FIELDS) + len(META_FIELDS), "receiver metadata fields")


TRAILER_TEXT = ("content-encoded objects: once the announced content length has been delivered (content_length_left == Some(0)) decoder_read stops draining the "
                "inflater, so BlockWriter::decode_write_pkt must not feed it any further - the bytes that remain are the trailer of the encoded stream (gzip CRC / "
                "ISIZE, zlib Adler-32) and may arrive in a later source block than the last content byte; feeding them fills the ring buffer, nothing is "
                "consumed and the block is reported as an error (or, before fix F7, loops for ever)")


def trailer_rule(ctx, rule):
    prog = ctx.prog
    BW = "receiver::blockwriter::BlockWriter"
    f = prog.fn(BW + "::decode_write_pkt")
    ctx.analysed(f.path)
    fl = Flow(f.body)
    from ..loops import natural_loops
    inloop = set()
    for h, blocks, srcs in natural_loops(f.body):
        inloop |= set(blocks)
    ws = [s_ for s_ in call_sites(f, lambda p, c: c.get("name") == "write" and "Decompress" in (c.get("trait") or p)) if s_.bb in inloop]
    if not ws:
        raise model.AnchorMissing("decode_write_pkt: no Decompress::write call inside its loop")
    dr = prog.fn(BW + "::decoder_read")
    dfl = Flow(dr.body)
    stops = any(any(a[0] == "eq" and t and "content_length_left" in show(a[1]) + show(a[2]) and "Some{0: 0}" in show(a[1]) + show(a[2]) for (a, t) in dfl.facts_at(bb))
                for bb, e in ret_assign_blocks(dr.body, lambda e: is_variant(e, "Ok")))
    if stops:
        rule.ok("decoder_read stops at the content length", "returns Ok under content_length_left == Some(0)", loc(dr.sp))
    else:
        rule.ok("decoder_read drains regardless of the content length", "no early return found: the feeding side is not constrained", loc(dr.sp))
    for s_ in ws:
        fs = fl.facts_at(s_.bb)
        guarded = any(a[0] == "eq" and not t and "content_length_left" in show(a[1]) + show(a[2]) and "Some{0: 0}" in show(a[1]) + show(a[2]) for (a, t) in fs) or \
            any(a[0] == "variant" and "content_length_left" in show(a[1]) and a[2] == "None" and t for (a, t) in fs)
        key = "decode_write_pkt feeds the inflater only while content is still expected"
        if guarded or not stops:
            rule.ok(key, "Decompress::write dominated by content_length_left != Some(0)", s_.loc)
        else:
            rule.violation(key, "the loop keeps calling Decompress::write after the whole content was delivered: the trailer of the encoded stream (8 bytes for "
                                "gzip, 4 for zlib), when it falls into a later source block than the last content byte, is pushed into a ring buffer nobody "
                                "drains and the object ends in error although every packet was received", s_.loc)
    rule.floor(2, "trailer facts")


ADDR_TEXT = ("receiver-side block addressing in push_to_block2: the slot of a packet is block_offset = SBN - blocks_offset (window-relative), the block "
             "vector is indexed and grown with that offset, the 'too many blocks' refusal tests that offset (not the absolute SBN: objects with more "
             "than 4096 blocks are legitimate), and the default source block length is a_large for SBN < nb_a_large, a_small otherwise")


def block_addressing_rule(ctx, rule):
    from .. import polarity
    from ..cfg import strip_ref
    prog = ctx.prog
    f = prog.fn(OBJRECV + "::push_to_block2")
    ctx.analysed(f.path)
    sl = Slicer(f.body)
    fl = Flow(f.body)
    vd = sl.var_defs()
    # the slot local is whatever indexes self.blocks (named block_offset today)
    idxs = [show(strip_ref(s_.expr[2][1])) for s_, ai, mut in calls_on_field(prog, OBJRECV, "blocks", funcs=[f]) if method_name(s_) in ("index_mut", "index", "get_mut", "get")]
    SLOT = idxs[0] if idxs and re.match(r"^\w+(~\d+)?$", idxs[0]) else "block_offset"
    defs = [(e, bb) for (proj, e, bb) in vd.get(SLOT, []) if proj == ""]
    key = "push_to_block2 block_offset"
    okd = False
    # locals that hold the same value as the slot (the helper-local twin of a slot computed in an extracted helper and handed back through `Ok(..)?`)
    slot_txt = show(sl.expand(("var", SLOT, "", "usize"), stop=("payload_id",)), 400)
    SAME = set(nm_ for nm_ in vd if show(sl.expand(("var", nm_, "", "usize"), stop=("payload_id",)), 400) == slot_txt) | {SLOT}
    for e, bb in defs:
        form, c0 = polarity.affine(sl.expand(e, stop=("payload_id",)))
        pos = [n for n, v in form.items() if v == 1]
        neg = [n for n, v in form.items() if v == -1]
        if c0 == 0 and len(form) == 2 and len(pos) == 1 and len(neg) == 1 and re.search(r"payload_id\.sbn", pos[0]) and re.search(r"self\.blocks_offset$", neg[0]):
            okd = True
    if okd and len(defs) == 1:
        rule.ok(key, "SBN - blocks_offset", loc(f.sp))
    else:
        rule.violation(key, "block_offset = %s; expected payload_id.sbn - self.blocks_offset" % [show(e, 80) for e, _ in defs], loc(f.sp))
    # indexing / growing the block vector
    for s_, ai, mut in calls_on_field(prog, OBJRECV, "blocks", funcs=[f]):
        m = method_name(s_)
        if m in ("index_mut", "index", "get_mut", "get"):
            a = show(strip_ref(s_.expr[2][1]))
            key = "push_to_block2 blocks[%s]" % ("block_offset" if a == SLOT else a)
            if a == SLOT:
                rule.ok(key, "", s_.loc)
            else:
                rule.violation(key, "the block vector is indexed with %s, not with the window-relative offset" % a, s_.loc)
        elif m in ("resize_with", "resize"):
            form, c0 = polarity.affine(s_.expr[2][1])
            key = "push_to_block2 blocks.%s" % m
            if len(form) == 1 and list(form.values()) == [1] and list(form)[0] in SAME and c0 == 1:
                rule.ok(key, "to block_offset + 1", s_.loc)
            else:
                rule.violation(key, "the block vector is grown to %s" % show(s_.expr[2][1], 60), s_.loc)
    # the range of valid SBNs is the partition's N (self.nb_blocks), never the number of block slots allocated so far (nb_block() =
    # blocks_offset + blocks.len(), which grows on demand and is capped by the pre-allocation limit)
    from ..cfg import cmp_kind
    key = "push_to_block2 SBN range test uses the partition's block count"
    badc = []
    nrange = 0
    for blk_ in f.body.blocks:
        if blk_.cleanup or blk_.term.k != "switch":
            continue
        for k_ in range(len(blk_.term.targets) + 1):
            for (a_, t_) in fl.edge_facts(("e", blk_.i, k_)):
                if a_[0] not in ("lt", "le"):
                    continue
                l0_, r0_ = show(a_[1], 200), show(a_[2], 200)
                if not re.search(r"\.sbn\b", l0_ + r0_):
                    continue
                other = show(sl.expand(a_[2] if re.search(r"\.sbn\b", l0_) else a_[1]), 200)
                if re.search(r"\bnb_blocks\b", other):
                    nrange += 1
                if re.search(r"::nb_block\(|VecDeque::len\(&self\.blocks\)|len\(self\.blocks\)", other):
                    badc.append(other)
    if badc:
        rule.violation(key, "the SBN of a packet is range-tested against %s - the slots allocated so far - instead of the number of blocks of the "
                            "partition: blocks beyond the allocated window are refused before the vector is grown for them" % badc[0][:80], loc(f.sp))
    elif nrange:
        rule.ok(key, "compared with self.nb_blocks", loc(f.sp))
    # the refusal
    errs = [(bb, e) for bb, e in ret_assign_blocks(f.body, lambda e: is_variant(e, "Err")) if "Too many blocks" in show(e, 200)]
    key = "push_to_block2 'too many blocks' refusal"
    if not errs:
        # the refusal may have been reworded: look for Err returns dominated by a comparison of a large constant
        errs = [(bb, e) for bb, e in ret_assign_blocks(f.body, lambda e: is_variant(e, "Err"))
                if any(a[0] in ("lt", "le") and t and re.search(r"2048|4096|MAX_PREALLOCATED", show(a[1]) + show(a[2])) for (a, t) in fl.facts_at(bb))]
    for bb, e in errs:
        fs = [(a, t) for (a, t) in fl.facts_at(bb) if a[0] in ("lt", "le") and t and re.search(r"2048|4096", show(a[1]))]
        slotx = set(list(SAME) + [show(strip_ref(sl.expand(e_)), 300) for e_, _b in defs])   # the slot local (or a twin), or its definition written out
        if fs and all(show(strip_ref(a[2]), 300) in slotx for (a, t) in fs):
            rule.ok(key, "under %s" % "; ".join("%s %s %s" % (show(a[1]), "<" if a[0] == "lt" else "<=", show(a[2])) for a, t in fs), loc(f.sp))
        else:
            rule.violation(key, "the refusal is decided by %s: an absolute block number makes large but legitimate objects fail" % (
                ["%s %s %s" % (show(a[1], 40), a[0], show(a[2], 40)) for a, t in fs] or "no window-relative comparison"), loc(f.sp))
    if not errs:
        rule.violation(key, "refusal not found", loc(f.sp))
    # default source block length
    sel = []
    bylocal = {}
    for blk in f.body.blocks:
        if blk.cleanup:
            continue
        for st in blk.stmts:
            if st.k == "assign" and not st.lhs[1]:
                e = sl.x.rvalue(st.rv, sl.x.depth)
                if re.sub(r" as u\d+|[()]", "", show(e)) in ("self.a_large", "self.a_small"):
                    bylocal.setdefault(st.lhs[0], []).append((e, blk.i))
    for l_, vals in bylocal.items():
        if len(vals) == 2 and {re.sub(r" as u\d+|[()]", "", show(e)) for e, _ in vals} == {"self.a_large", "self.a_small"}:
            sel = vals
    key = "push_to_block2 default source block length"
    if not sel:
        rule.violation(key, "selection between a_large and a_small not found", loc(f.sp))
    else:
        okk = True
        for e, bb in sel:
            large = "a_large" in show(e)
            fs = fl.facts_at(bb)
            lt = [t for (a, t) in fs if a[0] == "lt" and re.search(r"payload_id\.sbn", show(a[1])) and re.search(r"self\.nb_a_large", show(a[2]))]
            ge = [t for (a, t) in fs if a[0] == "le" and re.search(r"self\.nb_a_large", show(a[1])) and re.search(r"payload_id\.sbn", show(a[2]))]
            if large and not (lt and all(lt)):
                okk = False
            if not large and not (ge and all(ge)):
                okk = False
        if okk:
            rule.ok(key, "a_large iff SBN < nb_a_large", loc(f.sp))
        else:
            rule.violation(key, "a_large / a_small are not selected by SBN < nb_a_large", loc(f.sp))
    rule.floor(5, "addressing facts")


ONCE_TEXT = ("Receiver::push_obj: a packet of an object that is in the completed registry never reaches create_obj / ObjectReceiver::push, except "
             "that with object_receive_once == false the first symbol (SBN 0, ESI 0) removes the registry entry and restarts the object; an object in "
             "the error registry restarts only on SBN 0 / ESI 0 (over all truth values of the five conditions)")


def once_rule(ctx, rule):
    from .. import polarity
    prog = ctx.prog
    f = prog.fn("receiver::receiver::Receiver::push_obj")
    ctx.analysed(f.path)
    t = polarity.Table(f, name_sign={"sbn": r"^\w+(~\d+)?\.sbn$", "esi": r"^\w+(~\d+)?\.esi$"},
                       name_bool={"completed": r"contains_key\(&self\.objects_completed", "once": r"^self\.config\.object_receive_once$",
                                  "errored": r"contains\(&self\.objects_error"},
                       call_filter=r"ObjectReceiver::push$|Receiver::create_obj$|BTreeMap.*::remove$|BTreeSet.*::remove$|HashMap.*::remove$|HashSet.*::remove$")
    missing = [l for l in ("sbn", "esi", "completed", "once", "errored") if l not in t.labels_found()]
    for l in missing:
        rule.violation("push_obj tests %s" % l, "Receiver::push_obj no longer tests `%s` (conditions found: %s ; %s)" % (
            l, [polarity.show_key(k) for k in t.seen_sign][:6], list(t.seen_bool)[:6]), loc(f.sp))
    if missing:
        return
    n = 0
    for sc in t.scenarios():
        first = sc["sbn"] == 0 and sc["esi"] == 0
        may_push = (not sc["completed"] or (not sc["once"] and first)) and (not sc["errored"] or first)
        drop_completed = sc["completed"] and not sc["once"] and first
        res = t.results(sc)
        pushes = [calls for _, calls in res if any(c.endswith("ObjectReceiver::push") or c.endswith("Receiver::create_obj") for c in calls)]
        rem_c = [calls for _, calls in res if any(re.search(r"BTreeMap.*::remove$|HashMap.*::remove$", c) for c in calls)]
        key = "push_obj [%s]" % ", ".join("%s=%s" % (k, {-1: "<0", 0: "=0", 1: ">0"}.get(v, v) if not isinstance(v, bool) else v) for k, v in sorted(sc.items()))
        n += 1
        if not may_push and pushes:
            rule.violation(key, "a packet reaches the object receiver although the object is %s and this is not an allowed restart: calls %s" % (
                "already completed" if sc["completed"] else "in the error registry", sorted(set(pushes))[0]), loc(f.sp))
        elif may_push and not pushes:
            rule.violation(key, "no path hands the packet to the object receiver in a scenario where it must be processed", loc(f.sp))
        elif bool(rem_c) != drop_completed and not (rem_c and not drop_completed and not sc["completed"]):
            rule.violation(key, "objects_completed.remove %s in this scenario" % ("happens" if rem_c else "does not happen"), loc(f.sp))
        else:
            rule.ok(key, "push %s, registry entry %s" % ("reachable" if may_push else "unreachable", "removed" if drop_completed else "kept"), loc(f.sp))
    rule.floor(72, "scenarios of push_obj")


DECODING_TEXT = ("the fields that decide how received bytes are decoded are written only from their wire / FDT source: ObjectReceiver.cenc from pkt.cenc "
                 "(EXT_CENC) or the FDT File entry (Null only for TOI 0 / an absent attribute), .oti from pkt.oti or the FDT, .transfer_length from "
                 "pkt.transfer_length or the FDT — never a default invented elsewhere")


def decoding_params_provenance(ctx, rule):
    prog = ctx.prog
    allowed = {
        "cenc": {OBJRECV + "::set_cenc_from_pkt": [r"^pkt\.cenc$", r"Cenc::Null"], OBJRECV + "::attach_fdt": [r"content_encoding|Cenc::Null"]},
        "oti": {OBJRECV + "::set_oti_from_pkt": [r"pkt\.oti"], OBJRECV + "::attach_fdt": [r"get_oti_for_file"]},
        "transfer_length": {OBJRECV + "::set_oti_from_pkt": [r"^pkt\.transfer_length$"], OBJRECV + "::attach_fdt": [r"get_transfer_length"]},
    }
    n = 0
    for fld, fns in sorted(allowed.items()):
        for a in field_accesses(prog, OBJRECV, fld):
            if a["func"].derived:
                continue
            caller = a["func"].root().path
            v = a["value"]
            key = "%s %s ObjectReceiver.%s" % (caller.split("::")[-1], a["kind"], fld)
            if a["kind"] == "construct":
                if v is not None and (show(v).startswith("Option::None")):
                    rule.ok(key, "starts unknown", loc(a["sp"]))
                else:
                    rule.violation(key, "object receiver starts with a preset %s: %s" % (fld, show(v, 60)), loc(a["sp"]))
                continue
            if a["kind"] == "borrow_mut":
                rule.violation(key, "mutable borrow of %s" % fld, loc(a["sp"]))
                continue
            n += 1
            if caller not in fns:
                rule.violation(key, "ObjectReceiver.%s is assigned in %s (value %s): only the packet-extension and FDT paths may set it, a default chosen "
                                    "elsewhere makes the receiver decode with parameters the sender never announced" % (fld, caller.split("::")[-1], show(v, 60)), loc(a["sp"]))
                continue
            sl = Slicer(a["func"].body)
            ex = sl.expand(v)
            txt = show(ex, 400)
            if any(z[0] == "tmp" for z in walk(ex)):
                # value chosen by a match / if: use the (flow-insensitive) sources of the multi-definition temporary
                txt += " " + " ".join(sorted(z for z in sl.sources(v) if z.startswith(("var:file", "var:pkt", "aggr:", "call:common::fdtinstance"))))
            if any(re.search(rx_, txt) for rx_ in fns[caller]):
                rule.ok(key, txt[:80], loc(a["sp"]))
            else:
                rule.violation(key, "value %s does not come from %s" % (txt[:100], fns[caller]), loc(a["sp"]))
    # the Null default in set_cenc_from_pkt is only for the FDT object
    f = prog.fn(OBJRECV + "::set_cenc_from_pkt")
    fl = Flow(f.body)
    for a in field_accesses(prog, OBJRECV, "cenc", funcs=[f]):
        if a["kind"] == "assign" and "Cenc::Null" in show(a["value"]):
            fs = fl.facts_at(a["bb"])
            if any(ff[0][0] == "eq" and ff[1] and "self.toi" in show(ff[0][1]) + show(ff[0][2]) and "0" in (show(ff[0][1]), show(ff[0][2])) for ff in fs):
                rule.ok("set_cenc_from_pkt Null default only for TOI 0", "", loc(a["sp"]))
            else:
                rule.violation("set_cenc_from_pkt Null default only for TOI 0", "content encoding defaulted to Null for an ordinary object", loc(a["sp"]))
    rule.floor(6, "assignments of cenc / oti / transfer_length")
