"""Multivariate polynomials over named atoms, built from expression trees (casts transparent, div_ceil / div_floor kept as
uninterpreted atoms).  Used to compare arithmetic with a reference formula in a way that is insensitive to algebraic rewrites."""
import re

from .model import show


class Unrecognised(Exception):
    pass


def const(c):
    return {(): c} if c else {}


def var(name):
    return {((name, 1),): 1}


def add(a, b, s=1):
    out = dict(a)
    for m, c in b.items():
        out[m] = out.get(m, 0) + s * c
        if out[m] == 0:
            del out[m]
    return out


def mul(a, b):
    out = {}
    for m1, c1 in a.items():
        for m2, c2 in b.items():
            d = dict(m1)
            for n, p in m2:
                d[n] = d.get(n, 0) + p
            m = tuple(sorted(d.items()))
            out[m] = out.get(m, 0) + c1 * c2
            if out[m] == 0:
                del out[m]
    return out


def text(p):
    if not p:
        return "0"
    parts = []
    for m, c in sorted(p.items()):
        mon = "*".join(n if pw == 1 else "%s^%d" % (n, pw) for n, pw in m)
        parts.append(("%+d" % c) + ("*" + mon if mon else ""))
    return " ".join(parts)


def from_expr(e, rename=None):
    """expression tree -> polynomial; rename(name) maps leaf names (e.g. strip ~N suffixes)"""
    rename = rename or (lambda n: n)
    k = e[0]
    if k == "const":
        if isinstance(e[2], bool) or not isinstance(e[2], int):
            raise Unrecognised("constant %r" % (e[2],))
        return const(e[2])
    if k in ("ref", "deref"):
        return from_expr(e[1], rename)
    if k == "cast":
        return from_expr(e[2], rename)
    if k in ("var", "tmp"):
        return var(rename(show(e, 120)))
    if k == "proj":
        return var(rename(show(e, 120)))
    if k == "bin":
        op = e[1].replace("WithOverflow", "").replace("Unchecked", "")
        if op in ("Add", "Sub"):
            return add(from_expr(e[2], rename), from_expr(e[3], rename), 1 if op == "Add" else -1)
        if op == "Mul":
            return mul(from_expr(e[2], rename), from_expr(e[3], rename))
        if op == "Shl":
            b = from_expr(e[3], rename)
            if set(b) <= {()}:
                return mul(from_expr(e[2], rename), const(1 << b.get((), 0)))
        raise Unrecognised("operator %s" % op)
    if k == "call":
        m = re.search(r"(div_ceil|div_floor)$", e[1])
        if m and len(e[2]) == 2:
            a = text(from_expr(e[2][0], rename))
            b = text(from_expr(e[2][1], rename))
            return var("%s(%s ; %s)" % (m.group(1), a, b))
        raise Unrecognised("call %s" % e[1].split("::")[-1])
    raise Unrecognised("expression %s" % k)
