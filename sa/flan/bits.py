"""E5 — bit-provenance over expression trees: which bit of which source lands on which bit of a value.

A value of width w is a list of w descriptors, most significant first:
   0 | 1 | ('F', leaf_text, bit)  bit `bit` (0 = LSB) of a named source  | ('O', text, bit)  opaque
Transfer functions: casts (zero-extend / truncate), & | ^ with constants and with each other, << >> by constants,
to_be_bytes / from_be_bytes, constant slicing of a byte source."""
import re

from .model import show, walk, norm_path
from .ranges import INT_BOUNDS

WIDTH = {"u8": 8, "u16": 16, "u32": 32, "u64": 64, "u128": 128, "usize": 64, "i8": 8, "i16": 16, "i32": 32, "i64": 64,
         "i128": 128, "isize": 64, "bool": 1}


class Unknown(Exception):
    pass


def const_bits(v, w):
    v &= (1 << w) - 1
    return [(v >> (w - 1 - i)) & 1 for i in range(w)]


def resize(b, w):
    if len(b) >= w:
        return b[len(b) - w:]
    return [0] * (w - len(b)) + b


def ty_of(e):
    """static type (name) of an expression when derivable"""
    k = e[0]
    if k == "const":
        return e[1]
    if k in ("var", "tmp") and len(e) > 3:
        return e[3]
    if k == "cast":
        return e[1]
    if k == "bin":
        op = e[1]
        if op in ("Eq", "Ne", "Lt", "Le", "Gt", "Ge"):
            return "bool"
        return ty_of(e[2]) or (ty_of(e[3]) if op not in ("Shl", "Shr") else None)
    if k == "call":
        m = re.search(r"num::<impl (\w+)>::(from_be_bytes|from_le_bytes|wrapping_\w+|saturating_\w+|min|max)$", e[1])
        if m:
            return m.group(1)
        m = re.search(r"convert::(From|Into)", e[1])
    if k == "proj":
        return None
    return None


class Eval:
    def __init__(self, leaf_namer=None, byte_source=None, leaf_width=None):
        """leaf_namer(expr) -> text for a field leaf (default show); byte_source(expr)->(name) if the expr is the wire byte array;
        leaf_width(text) -> declared value width of a leaf narrower than its type (or None)"""
        self.leaf_namer = leaf_namer or (lambda e: show(e, 200))
        self.byte_source = byte_source
        self.leaf_width = leaf_width or (lambda t: None)

    def bits(self, e, w=None):
        """bit vector of expression e, resized to w when given"""
        b = self._bits(e)
        if w is not None:
            b = resize(b, w)
        return b

    def _leaf(self, e, w):
        name = self.leaf_namer(e)
        dw = self.leaf_width(name)
        if dw is not None and dw < w:
            return [0] * (w - dw) + [("F", name, dw - 1 - i) for i in range(dw)]
        return [("F", name, w - 1 - i) for i in range(w)]

    def _bits(self, e):
        k = e[0]
        if k == "const":
            w = WIDTH.get(e[1])
            if w is None or not isinstance(e[2], int):
                raise Unknown("constant %s" % (e,))
            return const_bits(int(e[2]), w)
        if k in ("var", "tmp"):
            ty = e[3] if len(e) > 3 else None
            w = WIDTH.get(ty)
            if w is None:
                raise Unknown("leaf %s of type %s" % (show(e), ty))
            return self._leaf(e, w)
        if k == "cast":
            tw = WIDTH.get(e[1])
            if tw is None:
                raise Unknown("cast to %s" % e[1])
            inner = self._bits(e[2])
            st = ty_of(e[2])
            if st and st.startswith("i") and st != "isize" and len(inner) < tw:
                raise Unknown("sign extension")
            return resize(inner, tw)
        if k == "bin":
            op = e[1].replace("WithOverflow", "").replace("Unchecked", "")
            if op in ("BitOr", "BitAnd", "BitXor"):
                a = self._bits(e[2])
                b = self._bits(e[3])
                w = max(len(a), len(b))
                a, b = resize(a, w), resize(b, w)
                out = []
                for x, y in zip(a, b):
                    if op == "BitAnd":
                        if x == 0 or y == 0:
                            out.append(0)
                        elif x == 1:
                            out.append(y)
                        elif y == 1:
                            out.append(x)
                        elif x == y:
                            out.append(x)
                        else:
                            out.append(("O", "and", 0))
                    elif op == "BitOr":
                        if x == 0:
                            out.append(y)
                        elif y == 0:
                            out.append(x)
                        elif x == 1 or y == 1:
                            out.append(1)
                        elif x == y:
                            out.append(x)
                        else:
                            out.append(("X", "overlap(%s,%s)" % (x[1], y[1]), 0))
                    else:
                        if x == 0:
                            out.append(y)
                        elif y == 0:
                            out.append(x)
                        else:
                            out.append(("O", "xor", 0))
                return out
            if op in ("Shl", "Shr"):
                a = self._bits(e[2])
                kbits = self._bits(e[3])
                if not all(x in (0, 1) for x in kbits):
                    raise Unknown("variable shift")
                kv = int("".join(str(x) for x in kbits), 2)
                w = len(a)
                if op == "Shl":
                    return (a + [0] * kv)[-w:] if kv < w else [0] * w
                return ([0] * kv + a)[:w] if kv < w else [0] * w
            if op in ("Add", "Sub", "Mul", "Div", "Rem"):
                try:
                    a = self._bits(e[2])
                    b = self._bits(e[3])
                    if all(x in (0, 1) for x in a + b):
                        av = int("".join(map(str, a)), 2)
                        bv = int("".join(map(str, b)), 2)
                        w = max(len(a), len(b))
                        rv = {"Add": av + bv, "Sub": av - bv, "Mul": av * bv, "Div": av // bv if bv else 0, "Rem": av % bv if bv else 0}[op]
                        return const_bits(rv, w)
                except Unknown:
                    pass
                tw = WIDTH.get(ty_of(e) or "")
                if tw is None:
                    try:
                        tw = len(self._bits(e[2]))
                    except Unknown:
                        tw = len(self._bits(e[3]))
                txt = "%s(%s,%s)" % (op, self.leaf_namer(e[2]), self.leaf_namer(e[3]))
                return [("O", txt, tw - 1 - i) for i in range(tw)]
            raise Unknown("binop %s" % op)
        if k == "call":
            p = e[1]
            m = re.search(r"num::<impl (\w+)>::from_be_bytes$", p)
            if m:
                w = WIDTH[m.group(1)]
                by = self.bytes_of(e[2][0], w // 8)
                if len(by) * 8 != w:
                    raise Unknown("from_be_bytes of %d bytes into %s" % (len(by), m.group(1)))
                out = []
                for b in by:
                    out.extend(b)
                return out
            m = re.search(r"convert::(From|Into)<.*>::(from|into)$|convert::(From|Into)::(from|into)$", p)
            if m and len(e[2]) == 1:
                return self._bits(e[2][0])
            if re.search(r"(Option|Result)::(unwrap|expect|unwrap_or_default)$|Clone::clone$|Deref::deref$", p) and e[2]:
                return self._bits(e[2][0])
            raise Unknown("call %s" % p)
        if k in ("ref", "deref"):
            return self._bits(e[1])
        if k == "proj":
            if len(e) > 3 and WIDTH.get(e[3]):
                return self._leaf(e, WIDTH[e[3]])
            raise Unknown("projection %s" % show(e, 80))
        raise Unknown("expression kind %s" % k)

    # ---- byte arrays ---------------------------------------------------------------------------
    def bytes_of(self, e, n=None):
        """list of bytes, each a list of 8 bit descriptors (n = expected number of bytes when the source is a whole slice)"""
        k = e[0]
        if k in ("ref", "deref"):
            return self.bytes_of(e[1], n)
        if k == "proj" and isinstance(e[2], str) and re.match(r"^@(Ok|Some|Continue)\.0$", e[2]):
            # `let Ok(word) = <[u8; 4]>::try_from(ext) else {..}`: the payload of a successful conversion is the converted bytes
            return self.bytes_of(e[1], n)
        if k == "call":
            p = e[1]
            if re.search(r"(TryInto|TryFrom).*::(try_into|try_from)$|AsRef.*::as_ref$|(Option|Result)::(unwrap|expect)$|Clone::clone$|Deref::deref$|Borrow.*::borrow$|slice::.*::to_vec$", p):
                return self.bytes_of(e[2][0], n)
            m = re.search(r"num::<impl (\w+)>::to_be_bytes$", p)
            if m:
                w = WIDTH[m.group(1)]
                b = self.bits(e[2][0], w)
                return [b[i:i + 8] for i in range(0, w, 8)]
            if re.search(r"Index.*::index$", p) and len(e[2]) == 2:
                base, idx = e[2]
                idx = strip(idx)
                if idx[0] == "aggr" and "Range" in idx[1]:
                    names = idx[4]
                    vals = {}
                    for nm, fe in zip(names, idx[3]):
                        fe = strip(fe)
                        if fe[0] == "const" and isinstance(fe[2], int):
                            vals[nm] = fe[2]
                        elif fe[0] == "bin":
                            from .rules import const_value
                            cv = const_value(fe)
                            if cv is not None:
                                vals[nm] = cv
                    src = self.byte_source(strip(base)) if self.byte_source else None
                    if src is None:
                        raise Unknown("slice of %s" % show(base, 60))
                    if "start" in vals and "end" in vals:
                        return [[("W", src, i * 8 + (7 - j)) for j in range(8)] for i in range(vals["start"], vals["end"])]
                    raise Unknown("non-constant range %s" % show(idx, 60))
            raise Unknown("byte source call %s" % p)
        if k in ("var", "tmp"):
            src = self.byte_source(e) if self.byte_source else None
            if src is not None:
                ty = e[3] if len(e) > 3 else ""
                m = re.search(r"\[u8; (\d+)\]", ty or "")
                cnt = int(m.group(1)) if m else n
                if cnt is not None:
                    return [[("W", src, i * 8 + (7 - j)) for j in range(8)] for i in range(cnt)]
            raise Unknown("byte array leaf %s" % show(e, 60))
        if k == "array":
            return [self.bits(x, 8) for x in e[1]]
        raise Unknown("bytes of %s" % k)

    def byte_elem(self, e):
        """bits of a single wire byte  src[const]"""
        e = strip(e)
        if e[0] == "var":
            m = re.match(r"^(.*)\[(\d+)\]$", e[2])
            if m and self.byte_source:
                base = ("var", e[1], m.group(1))
                src = self.byte_source(base)
                if src is not None:
                    i = int(m.group(2))
                    return [("W", src, i * 8 + (7 - j)) for j in range(8)]
        return None


def strip(e):
    while e[0] in ("ref", "deref"):
        e = e[1]
    return e


def runs(bits):
    """group a bit vector into runs: [('const', width, value) | ('field', width, leaf, low_bit) | ('wire', width, src, first_wire_bit)
    | ('opaque', width, text) | ('conflict', width, text)]"""
    out = []
    i = 0
    n = len(bits)
    while i < n:
        b = bits[i]
        if b in (0, 1):
            j = i
            v = 0
            while j < n and bits[j] in (0, 1):
                v = (v << 1) | bits[j]
                j += 1
            out.append(("const", j - i, v))
            i = j
        elif b[0] == "F":
            j = i
            while j + 1 < n and isinstance(bits[j + 1], tuple) and bits[j + 1][0] == "F" and bits[j + 1][1] == b[1] and bits[j + 1][2] == bits[j][2] - 1:
                j += 1
            out.append(("field", j - i + 1, b[1], bits[j][2]))
            i = j + 1
        elif b[0] == "W":
            j = i
            # wire bits are numbered i*8 + (7-j): consecutive in significance means index pattern; compare by (byte,bit)
            def pos(x):
                byte, bit = divmod(x[2], 8)
                return byte * 8 + (7 - bit)
            while j + 1 < n and isinstance(bits[j + 1], tuple) and bits[j + 1][0] == "W" and bits[j + 1][1] == b[1] and pos(bits[j + 1]) == pos(bits[j]) + 1:
                j += 1
            out.append(("wire", j - i + 1, b[1], pos(b)))
            i = j + 1
        elif b[0] == "O":
            j = i
            while j + 1 < n and isinstance(bits[j + 1], tuple) and bits[j + 1][0] == "O" and bits[j + 1][1] == b[1]:
                j += 1
            out.append(("opaque", j - i + 1, b[1], bits[j][2]))
            i = j + 1
        else:
            out.append(("conflict", 1, b[1]))
            i += 1
    return out
