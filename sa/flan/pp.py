"""Pretty-print functions from the facts in back-substituted, source-named form (diagnostic aid)."""
import sys
from . import facts, model


def load_program(repo="/repo", cfg="default", crate="flute"):
    paths, th, cached = facts.build_facts(repo, cfg)
    return model.Program(facts.load(paths[crate]))


def pp_func(f, out=sys.stdout, raw=False):
    b = f.body
    x = model.X(b)
    out.write("fn %s  [%s]  argc=%d\n" % (f.path, model.loc(f.sp), b.argc))
    for blk in b.blocks:
        if blk.cleanup and not raw:
            continue
        out.write("  bb%d%s:\n" % (blk.i, " (cleanup)" if blk.cleanup else ""))
        for i, s in enumerate(blk.stmts):
            if s.k == "assign":
                l = s.lhs
                is_temp = b.single_def(l[0]) is not None and not l[1]
                if is_temp and not raw:
                    continue
                out.write("    %s = %s   @%s\n" % (model.show(x.place(l, 0) if not l[1] and l[0] not in b.names else x.place(l)), model.show(x.rvalue(s.rv, x.depth)), s.sp[1] if s.sp else "?"))
            else:
                out.write("    setdiscr %s = %s\n" % (model.show(x.place(s.lhs)), s.vi))
        t = blk.term
        if t.k == "switch":
            out.write("    switch %s -> %s else bb%d   @%s\n" % (model.show(x.operand(t.discr)), ["%s:bb%d" % (v, tt) for v, tt in t.targets], t.otherwise, t.sp[1] if t.sp else "?"))
        elif t.k == "call":
            e = x.call_expr(blk.i, t, x.depth)
            out.write("    %s = %s -> bb%s unwind %s  @%s %s\n" % (model.show(x.place(t.dest, 0)) if t.dest else "_", model.show(e), t.target, t.unwind, t.sp[1] if t.sp else "?", t.sp[5] if t.sp else ""))
        elif t.k == "assert":
            out.write("    assert %s(%s) -> bb%s  @%s\n" % (t.akind, ", ".join(model.show(x.operand(o)) for o in t.ops), t.target, t.sp[1] if t.sp else "?"))
        elif t.k == "drop":
            out.write("    drop %s : %s -> bb%s\n" % (model.show(x.place(t.place)), t.pty, t.target))
        elif t.k == "goto":
            out.write("    goto bb%s\n" % t.target)
        else:
            out.write("    %s\n" % t.k)


if __name__ == "__main__":
    prog = load_program()
    for f in prog.find(sys.argv[1]):
        pp_func(f, raw=len(sys.argv) > 2)
        print()
