"""E1 pre-pass: Option / Result / bool combinators applied to a closure of this crate are rewritten to the `match` they stand for.

`opt.map_or(true, |e| now > e)`, `res.map_err(|e| wrap(e))?`, `flag.then(|| compute())`, `opt.is_some_and(|x| x.ready())` … are calls into
core that run a closure on one arm.  Every engine here is intra-procedural over MIR: it sees an opaque call returning an unknown value and a
closure body that is never connected to it, while the equivalent `match` / `if let` is analysed precisely.  This pass replaces the call by

        switch discriminant(receiver) { arm with the closure: <closure body spliced in, its argument = the payload, its captures = the closure
                                        aggregate's fields> ; other arm: the documented result of the combinator }

using only the documented semantics of the combinators below (core::option / core::result / bool).  The closure's body is spliced with
inline.splice, its captured places are left unnamed so that they are shown in the caller's terms.  Bounded: closures of at most 120 blocks, 40
rewrites per function.  FLAN_NO_COMBINATORS=1 switches the pass off."""
import copy
import re

from . import inline

OPT = "std::option::Option"
RES = "std::result::Result"

# method -> (receiver adt, arm that runs the closure, what the closure receives, how the result is built on that arm, the other arm)
#   closure arm result:  "R" = the closure's result ; ("wrap", adt, variant) = Variant(R)
#   other arm:           ("arg", i) = the i-th argument of the call ; ("const", True/False) ; ("none",) ; ("pass",) = the receiver's payload
#                        re-wrapped in the same variant of the result type ; ("payload",) = the bare payload ; ("wrap_payload", adt, variant)
#                        ("call0", i) = result of calling the nullary closure passed as argument i
SPEC = {
    (OPT, "map_or"): dict(arm="Some", clo=2, res="R", other=("arg", 1)),
    (OPT, "is_some_and"): dict(arm="Some", clo=1, res="R", other=("const", False)),
    (OPT, "is_none_or"): dict(arm="Some", clo=1, res="R", other=("const", True)),
    (OPT, "map"): dict(arm="Some", clo=1, res=("wrap", OPT, "Some"), other=("none",)),
    (OPT, "and_then"): dict(arm="Some", clo=1, res="R", other=("none",)),
    (OPT, "unwrap_or_else"): dict(arm="None", clo=1, res="R", other=("payload",)),
    (OPT, "ok_or_else"): dict(arm="None", clo=1, res=("wrap", RES, "Err"), other=("wrap_payload", RES, "Ok")),
    (OPT, "or_else"): dict(arm="None", clo=1, res="R", other=("wrap_payload", OPT, "Some")),
    (RES, "map"): dict(arm="Ok", clo=1, res=("wrap", RES, "Ok"), other=("wrap_payload", RES, "Err")),
    (RES, "map_err"): dict(arm="Err", clo=1, res=("wrap", RES, "Err"), other=("wrap_payload", RES, "Ok")),
    (RES, "and_then"): dict(arm="Ok", clo=1, res="R", other=("wrap_payload", RES, "Err")),
    (RES, "or_else"): dict(arm="Err", clo=1, res="R", other=("wrap_payload", RES, "Ok")),
    (RES, "unwrap_or_else"): dict(arm="Err", clo=1, res="R", other=("payload",)),
    (RES, "is_ok_and"): dict(arm="Ok", clo=1, res="R", other=("const", False)),
    (RES, "is_err_and"): dict(arm="Err", clo=1, res="R", other=("const", False)),
    (RES, "map_or"): dict(arm="Ok", clo=2, res="R", other=("arg", 1)),
    ("bool", "then"): dict(arm="true", clo=1, res=("wrap", OPT, "Some"), other=("none",)),
}
# Armed subset.  Only the combinators that compute a *decision* (a bool) are rewritten: there the closure holds a condition the flow / table
# engines must see.  The value-plumbing ones (map, and_then, map_err, unwrap_or_else, ok_or_else, then, and the closure-less SPEC0) are kept as
# the single expressions the value-shape rules compare (they recognise the closure forms themselves); the tables below document what the
# pass would do for them and were used to try it: on the reviewed tree it made three rules lose the expression they match on.
DECISIONS = {(OPT, "map_or"), (OPT, "is_some_and"), (OPT, "is_none_or"), (RES, "is_ok_and"), (RES, "is_err_and"), (RES, "map_or")}

# combinators without a closure: pure re-packaging of the receiver's variant.  variant -> result
SPEC0 = {
    (OPT, "unwrap_or"): {"Some": ("payload",), "None": ("arg", 1)},
    (RES, "unwrap_or"): {"Ok": ("payload",), "Err": ("arg", 1)},
    (OPT, "ok_or"): {"Some": ("wrap_payload", RES, "Ok"), "None": ("wrap_arg", RES, "Err", 1)},
    (RES, "ok"): {"Ok": ("wrap_payload", OPT, "Some"), "Err": ("none",)},
    (RES, "err"): {"Err": ("wrap_payload", OPT, "Some"), "Ok": ("none",)},
}
VARIANTS = {OPT: [[0, "None"], [1, "Some"]], RES: [[0, "Ok"], [1, "Err"]]}
MAX_CLOSURE_BLOCKS = 120


def _split_generics(ty):
    """'std::result::Result<A<B, C>, D>' -> ['A<B, C>', 'D']"""
    i = ty.find("<")
    if i < 0 or not ty.endswith(">"):
        return []
    out, depth, cur = [], 0, ""
    for ch in ty[i + 1:-1]:
        if ch in "<([":
            depth += 1
        elif ch in ">)]":
            depth -= 1
        if ch == "," and depth == 0:
            out.append(cur.strip())
            cur = ""
        else:
            cur += ch
    if cur.strip():
        out.append(cur.strip())
    return out


def _closure_of(f, op, by_type, by_path, defs):
    """path of the closure function an operand holds: a local whose single definition is a closure aggregate, or a capture-less closure constant"""
    if not isinstance(op, dict):
        return None, None
    pl = op.get("m") or op.get("c")
    if isinstance(pl, dict) and pl.get("p") == []:
        ds = defs.get(pl["l"], [])
        if len(ds) == 1 and ds[0]["rv"]["k"] == "aggr" and ds[0]["rv"].get("ak") == "closure" and ds[0]["rv"].get("closure") in by_path:
            return ds[0]["rv"]["closure"], pl["l"]
        return None, None
    k = op.get("k")
    if isinstance(k, dict) and isinstance(k.get("ty"), str) and k["ty"] in by_type:
        return by_type[k["ty"]], None
    return None, None


def rewrite_function(f, by_path, by_type):
    blocks = f["blocks"]
    n = 0
    for _round in range(40):
        defs = {}
        for b in blocks:
            for st in b["stmts"]:
                if st["k"] == "assign" and isinstance(st.get("lhs"), dict) and st["lhs"].get("p") == []:
                    defs.setdefault(st["lhs"]["l"], []).append(st)
            t = b["term"]
            if t["k"] == "call" and isinstance(t.get("dest"), dict):
                defs.setdefault(t["dest"]["l"], []).append({"rv": {"k": "call"}})
        hit = None
        for bi, b in enumerate(blocks):
            t = b["term"]
            if t["k"] != "call" or b.get("cleanup") or not isinstance(t.get("func"), dict) or not isinstance(t["func"].get("k"), dict):
                continue
            fn = t["func"]["k"].get("fn") or {}
            path = fn.get("path", "")
            m = re.match(r"^(?:std|core)::(option::Option|result::Result)::<.*?>::(\w+)$", path) or re.match(r"^(?:std|core)::(option::Option|result::Result)::(\w+)$", path)
            key = None
            if m:
                key = (OPT if m.group(1).startswith("option") else RES, m.group(2))
            elif re.match(r"^(?:std|core)::bool::<impl bool>::then$|^core::bool::then$|^(?:std|core)::primitive::bool::then$", path):
                key = ("bool", "then")
            if False and key in SPEC0 and isinstance(t.get("t"), int) and isinstance(t.get("dest"), dict):
                args = t.get("args", [])
                recv = (args[0].get("m") or args[0].get("c")) if args and isinstance(args[0], dict) else None
                # only where the receiver is already a join of explicit variants (the result of a rewritten `map`/`and_then`/.., a `let x = if c
                # { Some(a) } else { None }`): an ordinary `x.unwrap_or(d)` stays the single expression the value-shape rules compare
                rdefs = defs.get(recv["l"], []) if isinstance(recv, dict) and recv.get("p") == [] else []
                if len(rdefs) >= 2 and all(r_["rv"]["k"] == "aggr" and r_["rv"].get("ak") == "adt" and r_["rv"].get("variant") in ("Some", "None", "Ok", "Err") for r_ in rdefs):
                    hit = (bi, key, None, None, None, recv["l"])
                    break
                continue
            if key not in SPEC or not isinstance(t.get("t"), int) or not isinstance(t.get("dest"), dict):
                continue
            if key not in DECISIONS:
                continue
            if key[1] == "map_or":
                dk = (t.get("args") or [None, None])[1]
                if not (isinstance(dk, dict) and isinstance(dk.get("k"), dict) and dk["k"].get("ty") == "bool"):
                    continue
            sp_ = SPEC[key]
            args = t.get("args", [])
            if len(args) <= sp_["clo"]:
                continue
            cpath, clocal = _closure_of(f, args[sp_["clo"]], by_type, by_path, defs)
            if cpath is None or len(by_path[cpath]["blocks"]) > MAX_CLOSURE_BLOCKS or cpath == f["path"]:
                continue
            recv = args[0].get("m") or args[0].get("c") if isinstance(args[0], dict) else None
            if not (isinstance(recv, dict) and recv.get("p") == []):
                continue
            if sp_["other"][0] == "call0":
                continue
            hit = (bi, key, sp_, cpath, clocal, recv["l"])
            break
        if hit is None:
            break
        _apply(f, by_path, *hit)
        n += 1
    return n


def _apply0(f, bi, key, recv):
    """closure-less re-packaging combinators (SPEC0)"""
    blocks, locs = f["blocks"], f["locals"]
    b = blocks[bi]
    t = b["term"]
    sp = t.get("sp")
    adt = key[0]
    rty = (t.get("aty") or [""])[0]
    gen = _split_generics(rty)
    dest, ret_to = t["dest"], t["t"]

    def payload_op(variant):
        vi = [v for v, nm in VARIANTS[adt] if nm == variant][0]
        pty = ""
        if adt == OPT and gen:
            pty = gen[0]
        elif adt == RES and len(gen) == 2:
            pty = gen[0] if variant == "Ok" else gen[1]
        return {"m": {"l": recv, "p": [{"d": vi, "n": variant}, {"f": 0, "n": "0", "ty": pty, "o": adt}]}}

    def wrap(adt2, variant, op):
        vi = [v for v, nm in VARIANTS[adt2] if nm == variant][0]
        return {"k": "aggr", "fields": [op] if op is not None else [], "ak": "adt", "adt": adt2, "variant": variant, "vi": vi, "fnames": ["0"] if op is not None else []}
    arms = {}
    for variant, res in SPEC0[key].items():
        if res[0] == "payload":
            rv = {"k": "use", "op": payload_op(variant)}
        elif res[0] == "wrap_payload":
            rv = wrap(res[1], res[2], payload_op(variant))
        elif res[0] == "arg":
            rv = {"k": "use", "op": copy.deepcopy(t["args"][res[1]])}
        elif res[0] == "wrap_arg":
            rv = wrap(res[1], res[2], copy.deepcopy(t["args"][res[3]]))
        else:
            rv = wrap(OPT, "None", None)
        blocks.append({"cleanup": False, "stmts": [{"k": "assign", "lhs": copy.deepcopy(dest), "rv": rv, "sp": sp}], "term": {"k": "goto", "t": ret_to, "sp": sp}})
        arms[variant] = len(blocks) - 1
    locs.append({"ty": "isize", "mut": True})
    d = len(locs) - 1
    b["stmts"].append({"k": "assign", "lhs": {"l": d, "p": []}, "rv": {"k": "discr", "place": {"l": recv, "p": []}, "pty": rty, "adt": adt, "variants": VARIANTS[adt]}, "sp": sp})
    blocks.append({"cleanup": False, "stmts": [], "term": {"k": "unreachable", "sp": sp}})
    b["term"] = {"k": "switch", "discr": {"m": {"l": d, "p": []}}, "dty": "isize", "targets": [[v, arms[nm]] for v, nm in VARIANTS[adt]], "otherwise": len(blocks) - 1,
                 "sp": sp, "combinator": key[1]}


def _apply(f, by_path, bi, key, sp_, cpath, clocal, recv):
    if sp_ is None:
        return _apply0(f, bi, key, recv)
    blocks, locs = f["blocks"], f["locals"]
    b = blocks[bi]
    t = b["term"]
    sp = t.get("sp")
    adt = key[0]
    g = copy.deepcopy(by_path[cpath])
    rty = (t.get("aty") or [""])[0]
    gen = _split_generics(rty)
    dest, ret_to, unwind = t["dest"], t["t"], t.get("unwind")

    def new_local(ty):
        locs.append({"ty": ty, "mut": True})
        return len(locs) - 1

    def new_block(stmts, term):
        blocks.append({"cleanup": False, "stmts": stmts, "term": term})
        return len(blocks) - 1

    def assign(l, rv):
        return {"k": "assign", "lhs": ({"l": l, "p": []} if isinstance(l, int) else copy.deepcopy(l)), "rv": rv, "sp": sp}

    def payload_op(variant):
        vi = [v for v, nm in VARIANTS[adt] if nm == variant][0]
        pty = ""
        if adt == OPT and gen:
            pty = gen[0]
        elif adt == RES and len(gen) == 2:
            pty = gen[0] if variant == "Ok" else gen[1]
        return {"m": {"l": recv, "p": [{"d": vi, "n": variant}, {"f": 0, "n": "0", "ty": pty, "o": adt}]}}, pty

    def wrap(adt2, variant, op):
        vi = [v for v, nm in VARIANTS[adt2] if nm == variant][0]
        return {"k": "aggr", "fields": [op] if op is not None else [], "ak": "adt", "adt": adt2, "variant": variant, "vi": vi, "fnames": ["0"] if op is not None else []}

    join = ret_to
    # ---- the arm that runs the closure ------------------------------------------------------------------------
    argc = g["argc"]
    env_ty = g["locals"][1]["ty"] if argc >= 1 else ""
    r_local = new_local(g["locals"][0]["ty"])
    clo_args = []
    pre = []
    if argc >= 1:
        if clocal is not None:
            if env_ty.startswith("&"):
                env = new_local(env_ty)
                pre.append(assign(env, {"k": "ref", "mut": env_ty.startswith("&mut"), "place": {"l": clocal, "p": []}}))
                clo_args.append({"m": {"l": env, "p": []}})
            else:
                clo_args.append({"m": {"l": clocal, "p": []}})
        else:
            env = new_local(env_ty)      # capture-less closure: the environment is never read
            clo_args.append({"m": {"l": env, "p": []}})
    if argc >= 2 and adt != "bool":
        pop, _pty = payload_op(sp_["arm"])
        clo_args.append(pop)
    after = new_block([], {"k": "goto", "t": join, "sp": sp})
    if sp_["res"] == "R":
        blocks[after]["stmts"].append(assign(dest, {"k": "use", "op": {"m": {"l": r_local, "p": []}}}))
    else:
        _, adt2, variant = sp_["res"]
        blocks[after]["stmts"].append(assign(dest, wrap(adt2, variant, {"m": {"l": r_local, "p": []}})))
    call_blk = new_block(pre, {"k": "call", "func": {"k": {"ty": "closure", "fn": {"path": cpath, "krate": "", "local": True, "substs": [], "name": "call", "rkind": "item",
                                                                                   "rpath": cpath, "rlocal": True}}},
                               "args": clo_args[:argc], "aty": [], "dest": {"l": r_local, "p": []}, "t": after, "unwind": unwind, "sp": sp})
    inline.splice(f, call_blk, g, upvars_unnamed=True)
    # ---- the other arm -------------------------------------------------------------------------------------------
    other = sp_["other"]
    ob = new_block([], {"k": "goto", "t": join, "sp": sp})
    other_variant = None
    if adt != "bool":
        other_variant = [nm for v, nm in VARIANTS[adt] if nm != sp_["arm"]][0]
    if other[0] == "arg":
        blocks[ob]["stmts"].append(assign(dest, {"k": "use", "op": copy.deepcopy(t["args"][other[1]])}))
    elif other[0] == "const":
        blocks[ob]["stmts"].append(assign(dest, {"k": "use", "op": {"k": {"ty": "bool", "v": other[1], "t": "true" if other[1] else "false"}}}))
    elif other[0] == "none":
        blocks[ob]["stmts"].append(assign(dest, wrap(OPT, "None", None)))
    elif other[0] == "payload":
        pop, _ = payload_op(other_variant)
        blocks[ob]["stmts"].append(assign(dest, {"k": "use", "op": pop}))
    elif other[0] == "wrap_payload":
        pop, _ = payload_op(other_variant)
        blocks[ob]["stmts"].append(assign(dest, wrap(other[1], other[2], pop)))
    # ---- the switch ----------------------------------------------------------------------------------------------------
    if adt == "bool":
        b["term"] = {"k": "switch", "discr": copy.deepcopy(t["args"][0]), "dty": "bool", "targets": [[0, ob]], "otherwise": call_blk, "sp": sp, "combinator": key[1]}
    else:
        d = new_local("isize")
        b["stmts"].append(assign(d, {"k": "discr", "place": {"l": recv, "p": []}, "pty": rty, "adt": adt, "variants": VARIANTS[adt]}))
        arm_vi = [v for v, nm in VARIANTS[adt] if nm == sp_["arm"]][0]
        other_vi = 1 - arm_vi
        unreachable = new_block([], {"k": "unreachable", "sp": sp})
        b["term"] = {"k": "switch", "discr": {"m": {"l": d, "p": []}}, "dty": "isize", "targets": [[arm_vi, call_blk], [other_vi, ob]], "otherwise": unreachable,
                     "sp": sp, "combinator": key[1]}


def rewrite_program(d):
    fns = d.get("functions", [])
    by_path = {f["path"]: f for f in fns}
    by_type = {}
    for f in fns:
        if f.get("kind") == "closure" and f.get("sp"):
            sp = f["sp"]
            by_type["{closure@%s:%d:%d: %d:%d}" % (sp[0], sp[1], sp[2], sp[3], sp[4])] = f["path"]
    done = []
    for f in fns:
        if f.get("blocks"):
            k = rewrite_function(f, by_path, by_type)
            if k:
                done.append((f["path"], k))
    d.setdefault("combinators", []).extend(done)
    return done
