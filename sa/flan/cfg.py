"""E2 support: edge-split CFG, branch atoms with polarity, dominance under assumptions,
must-pass-through, post-dominance, flow-insensitive data slices."""
import os
import re
from . import model
from .model import X, show, walk, leaves, norm_path

# ---------------------------------------------------------------------------
# atoms
#
# canonical atom forms (all with an explicit truth value):
#   ('lt', a, b)  a <  b            ('le', a, b)  a <= b
#   ('eq', a, b)                    ('variant', place, variant_name)
#   ('true', e)   arbitrary boolean expression e
# a *fact* is (atom, bool).

_CMP_CALL = {
    "core::cmp::PartialOrd::lt": "Lt", "core::cmp::PartialOrd::le": "Le",
    "core::cmp::PartialOrd::gt": "Gt", "core::cmp::PartialOrd::ge": "Ge",
    "core::cmp::PartialEq::eq": "Eq", "core::cmp::PartialEq::ne": "Ne",
}


def strip_ref(e):
    while e[0] in ("ref", "deref"):
        e = e[1]
    return e


def _callee_tail(p):
    """'<T as Trait>::m' or 'a::b::T::m' -> ('Trait' or 'T', 'm')"""
    p = norm_path(p)
    if p.startswith("<") and " as " in p:
        inner, m = p.rsplit(">::", 1)
        tr = inner.split(" as ", 1)[1]
        return norm_path(tr), m
    parts = p.split("::")
    return "::".join(parts[:-1]), parts[-1]


def strip_plumbing(p):
    """`Option::as_ref(&x)` / `as_mut` / `as_deref` / `Result::as_ref` … -> x : the variant of the wrapper is the variant of x"""
    for _ in range(6):
        if isinstance(p, tuple) and p and p[0] == "call" and len(p[2]) == 1 and \
                re.search(r"(Option|Result)(<.*>)?::(as_ref|as_mut|as_deref|as_deref_mut)$", p[1]):
            p = strip_ref(p[2][0])
        else:
            break
    return p


def cmp_kind(e):
    """if e is a comparison (BinOp or PartialOrd/PartialEq call incl. derived impls) return (Op, a, b)"""
    if e[0] == "bin" and e[1] in ("Lt", "Le", "Gt", "Ge", "Eq", "Ne"):
        return e[1], e[2], e[3]
    if e[0] == "call" and len(e[2]) == 2:
        tr, m = _callee_tail(e[1])
        op = {"lt": "Lt", "le": "Le", "gt": "Gt", "ge": "Ge", "eq": "Eq", "ne": "Ne"}.get(m)
        if op and (tr.endswith("PartialOrd") or tr.endswith("PartialEq") or tr.endswith("Ord")):
            return op, strip_ref(e[2][0]), strip_ref(e[2][1])
    return None


def facts_of(e, truth):
    """canonical facts implied by boolean expression e having value `truth` (list of (atom, bool))"""
    # negations
    while e[0] == "un" and e[1] == "Not":
        e, truth = e[2], not truth
    c = cmp_kind(e)
    if c:
        op, a, b = c
        # comparisons with boolean constants
        if op in ("Eq", "Ne") and b[0] == "const" and isinstance(b[2], bool):
            t = truth if op == "Eq" else not truth
            return facts_of(a, t if b[2] else not t)
        if op == "Lt":
            return [(("lt", a, b), True)] if truth else [(("le", b, a), True)]
        if op == "Le":
            return [(("le", a, b), True)] if truth else [(("lt", b, a), True)]
        if op == "Gt":
            return [(("lt", b, a), True)] if truth else [(("le", a, b), True)]
        if op == "Ge":
            return [(("le", b, a), True)] if truth else [(("lt", a, b), True)]
        if op == "Eq":
            return [(("eq", a, b), truth)]
        if op == "Ne":
            return [(("eq", a, b), not truth)]
    if e[0] == "call":
        tr, m = _callee_tail(e[1])
        if tr.endswith("Option") and m in ("is_some", "is_none") and len(e[2]) == 1:
            p = strip_plumbing(strip_ref(e[2][0]))
            some = truth if m == "is_some" else not truth
            return [(("variant", p, "Some"), some), (("variant", p, "None"), not some), (("true", e), truth)]
        if tr.endswith("Result") and m in ("is_ok", "is_err") and len(e[2]) == 1:
            p = strip_plumbing(strip_ref(e[2][0]))
            ok = truth if m == "is_ok" else not truth
            return [(("variant", p, "Ok"), ok), (("variant", p, "Err"), not ok), (("true", e), truth)]
    return [(("true", e), truth)]


def show_fact(f):
    (a, t) = f
    k = a[0]
    if k in ("lt", "le", "eq"):
        s = "%s %s %s" % (show(a[1]), {"lt": "<", "le": "<=", "eq": "=="}[k], show(a[2]))
    elif k == "variant":
        s = "%s is %s" % (show(a[1]), a[2])
    elif k == "variant_in":
        s = "%s is %s" % (show(a[1]), "|".join(a[2]))
    else:
        s = show(a[1])
    return s if t else "not(" + s + ")"


def facts_of_accessor(body, callee_path, truth):
    """facts of the expression a straight-line `fn(&self) -> bool` of this crate returns (no branch, at most 4 blocks, no write to self)"""
    prog = getattr(body.func, "prog", None)
    g = prog.funcs.get(callee_path) if prog is not None else None
    if g is None or g.body.argc != 1 or g.kind == "closure" or g.body.locals[0]["ty"] != "bool" or g.body.names.get(1) != "self" or \
            body.names.get(1) != "self" or not g.body.locals[1]["ty"].startswith("&") or g.body.locals[1]["ty"].startswith("&mut"):
        return []
    blocks = [b for b in g.body.blocks if not b.cleanup]
    if len(blocks) > 4 or any(b.term.k == "switch" for b in blocks):
        return []
    try:
        e = X(g.body).ret_expr()
    except Exception:
        return []
    if e[0] == "opaque":
        return []
    return facts_of(e, truth)


class Flow:
    """Edge-split CFG of one body with atoms on switch edges."""

    def __init__(self, body, unwind=False, drop_debug=False):
        """drop_debug: facts that stem from a `debug_assert!` expansion are not counted (they do not exist in release builds)"""
        self.body = body
        self.x = X(body)
        self.unwind = unwind
        self.drop_debug = drop_debug
        self._edge_facts = {}
        self._idom = None
        self._pruned = set()

    # nodes: ('b', i) | ('e', i, k)
    def succ(self, n):
        if n[0] == "e":
            if n in self._pruned:
                return []
            t = self.body.blocks[n[1]].term
            tgt = t.targets[n[2]][1] if n[2] < len(t.targets) else t.otherwise
            return [("b", tgt)]
        t = self.body.blocks[n[1]].term
        if t.k == "switch":
            return [("e", n[1], k) for k in range(len(t.targets) + 1) if ("e", n[1], k) not in self._pruned]
        return [("b", s) for s in t.succs(self.unwind)]

    def edge_facts(self, n):
        """facts that hold when edge-node n is taken"""
        if n in self._edge_facts:
            return self._edge_facts[n]
        _, bi, k = n
        t = self.body.blocks[bi].term
        if self.drop_debug and t.sp and len(t.sp) > 5 and any("debug_assert" in str(m) for m in (t.sp[5] or [])):
            self._edge_facts[n] = []
            return []
        e = self.x.operand(t.discr)
        out = []
        if t.dty == "bool":
            truth = None
            if k < len(t.targets):
                truth = bool(t.targets[k][0])
            else:
                vals = [v for v, _ in t.targets]
                if vals == [0]:
                    truth = True
                elif vals == [1]:
                    truth = False
            if truth is not None:
                out = facts_of(e, truth)
                out = out + self._joined_bool_facts(n, t, truth)
                out = out + self._named_bool_facts(n, t, truth)
        elif e[0] == "discr":
            # find variant table from the defining rvalue
            vt = self._variant_table(t.discr)
            p = strip_plumbing(e[1])
            if k < len(t.targets):
                v = t.targets[k][0]
                name = vt.get(v, "#%d" % v)
                out = [(("variant", p, name), True)]
                for vv, nn in vt.items():
                    if vv != v:
                        out.append((("variant", p, nn), False))
            else:
                listed = set(v for v, _ in t.targets)
                rest = [nn for vv, nn in vt.items() if vv not in listed]
                out = [(("variant", p, vt.get(v, "#%d" % v)), False) for v in listed]
                if len(rest) == 1:
                    out.append((("variant", p, rest[0]), True))
                if vt and not rest:
                    # every variant of the enum has its own edge: the `otherwise` edge (a wildcard arm kept for nested patterns) cannot be taken
                    out.append((("eq", ("const", "i32", 0), ("const", "i32", 1)), True))
            # `match a.cmp(&b) { Less => .., Equal => .., Greater => .. }`: the arm is an ordering fact about a and b
            if p[0] == "call" and re.search(r"cmp::(impls::)?(<impl .*Ord for \w+>|Ord)::cmp$", p[1]) and len(p[2]) == 2:
                a_, b_ = strip_ref(p[2][0]), strip_ref(p[2][1])
                for (f_, tr_) in list(out):
                    if f_[0] == "variant" and f_[2] in ("Less", "Equal", "Greater"):
                        out.append(({"Less": ("lt", a_, b_), "Equal": ("eq", a_, b_), "Greater": ("lt", b_, a_)}[f_[2]], tr_))
        else:
            if k < len(t.targets):
                v = t.targets[k][0]
                out = [(("eq", e, ("const", t.dty, v)), True)]
                # nested boolean: `match x { true => .. }` handled above; integers only here
            else:
                out = [(("eq", e, ("const", t.dty, v)), False) for v, _ in t.targets]
        self._edge_facts[n] = out
        return out

    def _named_bool_facts(self, n, t, truth):
        """`let is_complete = self.state() == Complete; if is_complete && ..`: the switch reads a named boolean local that was computed once, in
        the same block or in a block that falls straight through to the switch (no call, no store in between): the facts of its definition
        hold on the edge as well."""
        pl = t.discr.place
        if pl is None or pl[1]:
            return []
        b = self.body
        l = pl[0]
        for _ in range(3):   # the switch reads a copy of the named local
            if l in b.names:
                break
            sd = b.single_def(l)
            if sd is None or sd[1] == "term":
                return []
            rv = b.blocks[sd[0]].stmts[sd[1]].rv
            if rv.k == "use" and rv.ops[0].place is not None and not rv.ops[0].place[1]:
                l = rv.ops[0].place[0]
            else:
                return []
        if l not in b.names or l <= b.argc:
            return []
        ds = [d for d in b.defs().get(l, []) if d[2] in ("whole", "call", "partial")]
        if len(ds) != 1:
            return []
        db, didx, _k = ds[0]
        # the region between the definition and the switch (blocks on a path definition -> switch that does not re-enter either) must not
        # call anything nor store through a projection: the operands of the definition then still have the values it read
        tgt = n[1]
        fwd, st_ = set(), ([b.blocks[db].term.target] if didx == "term" else ([db] if db == tgt else list(b.succs(db))))
        if db == tgt:
            fwd = set()
        else:
            while st_:
                q = st_.pop()
                if q is None or q in fwd or q == db:
                    continue
                fwd.add(q)
                if q == tgt:
                    continue
                st_.extend(b.succs(q))
        if db != tgt and tgt not in fwd:
            return []
        preds = b.preds()
        bwd, st_ = set(), [tgt]
        while st_:
            q = st_.pop()
            if q in bwd:
                continue
            bwd.add(q)
            if q == db:
                continue
            st_.extend(preds.get(q, []))
        region = (fwd & bwd) | {tgt}
        if len(region) > 8:
            return []
        for q in region:
            blk = b.blocks[q]
            if q != tgt and blk.term.k in ("call", "drop", "assert") and q != db:
                return []
            for s_ in blk.stmts:
                if s_.k != "assign" or s_.lhs[1]:
                    return []
        # statements of the defining block after the definition
        if didx != "term":
            for s_ in b.blocks[db].stmts[didx + 1:]:
                if s_.k != "assign" or s_.lhs[1]:
                    return []
            if db != tgt and b.blocks[db].term.k in ("call", "drop", "assert"):
                return []
        if didx == "term":
            ex = self.x.call_expr(db, b.blocks[db].term, self.x.depth)
        else:
            ex = self.x.rvalue(b.blocks[db].stmts[didx].rv, self.x.depth)
        return facts_of(ex, truth)

    def _joined_bool_facts(self, n, t, truth):
        """`a && b && c` (or a helper returning it, once inlined) is lowered to a local that is set to `false` on every short-circuit path and to the
        last operand on the remaining one; when the switch on that local takes the `true` edge, the local was defined on that last path, so the
        conditions dominating that definition held as well (dually for `||` with `true`).  Also unwraps copies of such a local."""
        if getattr(self, "_jb_guard", None) is None:
            self._jb_guard = set()
        if n in self._jb_guard:
            return []
        pl = t.discr.place
        if pl is None or pl[1]:
            return []
        self._jb_guard.add(n)
        try:
            b = self.body
            l = pl[0]
            for _ in range(4):   # follow plain copies `_x = move _y`
                ds = [d for d in b.defs().get(l, []) if d[2] in ("whole", "call")]
                if len(ds) == 1 and ds[0][1] != "term":
                    rv = b.blocks[ds[0][0]].stmts[ds[0][1]].rv
                    if rv.k == "use" and rv.ops[0].place is not None and not rv.ops[0].place[1]:
                        l = rv.ops[0].place[0]
                        continue
                break
            ds = [d for d in b.defs().get(l, []) if d[2] in ("whole", "call")]
            if len(ds) < 2:
                return []
            consts, other = [], []
            for (bb_, idx, kind) in ds:
                if idx == "term":
                    other.append((bb_, idx))
                    continue
                rv = b.blocks[bb_].stmts[idx].rv
                if rv.k == "use" and rv.ops[0].kind == "const" and isinstance(rv.ops[0].value(), bool):
                    consts.append(rv.ops[0].value())
                else:
                    other.append((bb_, idx))
            if len(other) != 1 or not consts or len(set(consts)) != 1:
                return []
            if consts[0] == truth:
                # the switch value may stem from a constant definition - unless none of them reaches the switch any more (their paths were
                # threaded past it, normalize.py): then the value is the one of the remaining definition on both edges
                defblocks = set(d_[0] for d_ in ds)
                for (cb, cidx, ckind) in ds:
                    if (cb, cidx) == other[0]:
                        continue
                    if cb == n[1]:
                        return []
                    seen, st = set(), list(b.succs(cb))
                    while st:
                        q = st.pop()
                        if q in seen:
                            continue
                        seen.add(q)
                        if q == n[1]:
                            return []
                        if q in defblocks:
                            continue
                        st.extend(b.succs(q))
            bb_, idx = other[0]
            out = list(self.facts_at(bb_))
            if idx != "term":
                ex = self.x.rvalue(b.blocks[bb_].stmts[idx].rv, self.x.depth)
            else:
                ex = self.x.call_expr(bb_, b.blocks[bb_].term, self.x.depth)
            out += facts_of(ex, truth)
            return out
        finally:
            self._jb_guard.discard(n)

    def _variant_table(self, op):
        b = self.body
        if op.place is None:
            return {}
        sd = b.single_def(op.place[0])
        if sd is None or sd[1] == "term":
            return {}
        rv = b.blocks[sd[0]].stmts[sd[1]].rv
        if rv.k == "discr":
            return {int(v): n for v, n in rv.j.get("variants", [])}
        return {}

    # ---- assumptions ------------------------------------------------------
    def assume(self, pred):
        """prune every switch edge carrying a fact f for which pred(f) is False (contradiction).
        pred(fact) -> True (consistent) / False (contradicts assumption) / None (irrelevant)"""
        for b in self.body.blocks:
            if b.term.k == "switch":
                for k in range(len(b.term.targets) + 1):
                    n = ("e", b.i, k)
                    for f in self.edge_facts(n):
                        if pred(f) is False:
                            self._pruned.add(n)
        self._idom = None

    def prune_contradicted(self):
        """Opt-in feasibility pruning.  A switch edge is infeasible when it states `P is V1` for a plain field path P of a reference parameter
        (`self.block_writer`), an edge dominating its block states `P is V0` with V0 != V1, and nothing that can run before the later test can
        change P: no assignment to P or to a prefix of it, no mutable borrow of P or of a prefix that is stored in a named local, handed to a
        call (other than Option::as_mut and its kin on P itself, which cannot change the variant) or built into a value, and no call that is
        given the parameter itself.  The condition is deliberately over *every* block that can reach the test (not only those between the two
        edges): the value the later test looks at may have been read into a temporary at any earlier point.
        Returns the list of pruned edge nodes."""
        body = self.body
        x = self.x
        flip = {"Some": "None", "None": "Some", "Ok": "Err", "Err": "Ok"}
        params = {}
        for l in range(1, body.argc + 1):
            nm = body.names.get(l)
            ty = body.locals[l].get("ty", "") if l < len(body.locals) else ""
            if nm and ty.startswith("&"):
                params[nm] = (l, ty.startswith("&mut"))

        def pos(n):
            out = []
            for (a, t) in self.edge_facts(n):
                if a[0] != "variant":
                    continue
                e = strip_plumbing(a[1])
                while e[0] in ("ref", "deref"):
                    e = e[1]
                if e[0] != "var" or e[1] not in params or not e[2] or not re.match(r"^(\.\w+)+$", e[2]):
                    continue
                v = a[2] if t else (flip.get(a[2]) if re.match(r"^(std|core)::(option::Option|result::Result)<", (e[3] if len(e) > 3 and isinstance(e[3], str) else "")) else None)
                if v:
                    out.append((e[1], e[2], v))
            return out

        edges = {}
        for b in body.blocks:
            if b.cleanup or b.term.k != "switch":
                continue
            for k in range(len(b.term.targets) + 1):
                ps = pos(("e", b.i, k))
                if ps:
                    edges[("e", b.i, k)] = ps
        if not edges:
            return []
        preds = body.preds()
        WL = re.compile(r"(^|::)(Option|Result)(::)?(<.*>)?::(as_mut|as_deref_mut)$")

        def killed(root, path, bb):
            P = root + path
            rl, rmut = params[root]

            def related(txt):
                return P == txt or P.startswith(txt + ".")
            region, st = set([bb]), [bb]
            while st:
                q = st.pop()
                for pq in preds.get(q, []):
                    if pq not in region and not body.blocks[pq].cleanup:
                        region.add(pq)
                        st.append(pq)
            alias = {}      # local -> text of the place it mutably borrows
            for _round in range(4):
                n0 = len(alias)
                for q in region:
                    for s_ in body.blocks[q].stmts:
                        if s_.k == "setdiscr":
                            if related(show(x.place(s_.lhs), 300)):
                                return "discriminant set at bb%d" % q
                            continue
                        if s_.k != "assign":
                            continue
                        ltxt = show(x.place(s_.lhs), 300)
                        if related(ltxt) and not (s_.lhs[0] in alias and not s_.lhs[1]):
                            return "assigned at bb%d" % q
                        if s_.lhs[0] in alias and s_.lhs[1] and not ltxt.startswith(root):
                            return "stored through an alias at bb%d" % q
                        rv = s_.rv
                        if rv.k in ("ref", "rawptr") and rv.j.get("mut"):
                            rtxt = show(x.place(rv.place), 300)
                            if related(rtxt) or (rv.place[0] in alias and not rtxt.startswith(root)):
                                if s_.lhs[1] or s_.lhs[0] in body.names:
                                    return "mutable borrow kept in a named place at bb%d" % q
                                alias[s_.lhs[0]] = rtxt if related(rtxt) else alias[rv.place[0]]
                            continue
                        for o in rv.ops:
                            if o.place is not None and o.place[0] in alias and not o.place[1]:
                                if rv.k == "use" and not s_.lhs[1] and s_.lhs[0] not in body.names:
                                    alias[s_.lhs[0]] = alias[o.place[0]]
                                elif rv.k == "use" and not s_.lhs[1] and show(x.place((s_.lhs[0], ())), 50) == root:
                                    alias[s_.lhs[0]] = alias[o.place[0]]     # the `self` of an inlined method
                                else:
                                    return "mutable borrow escapes at bb%d" % q
                            if o.place is not None and o.place[0] == rl and not o.place[1] and rmut and rv.k != "use":
                                return "the parameter is built into a value at bb%d" % q
                            if o.place is not None and o.place[0] == rl and not o.place[1] and rmut and rv.k == "use":
                                if s_.lhs[1] or (s_.lhs[0] in body.names and show(x.place((s_.lhs[0], ())), 50) != root):
                                    return "the parameter is copied to a named place at bb%d" % q
                                alias[s_.lhs[0]] = root
                    t_ = body.blocks[q].term
                    if t_.k in ("call", "tailcall"):
                        if t_.dest is not None and related(show(x.place(t_.dest), 300)):
                            return "assigned by a call at bb%d" % q
                        cp = t_.callee_path() or ""
                        for o in t_.args:
                            if o.place is None or o.place[1]:
                                continue
                            if o.place[0] == rl and rmut:
                                return "the parameter itself is handed to %s at bb%d" % (cp, q)
                            if o.place[0] in alias and not (alias[o.place[0]] == P and WL.search(cp)):
                                return "a mutable borrow of %s is handed to %s at bb%d" % (alias[o.place[0]], cp, q)
                    elif t_.k == "drop" and t_.place is not None and related(show(x.place(t_.place), 300)):
                        return "dropped at bb%d" % q
                if len(alias) == n0:
                    break
            return None

        dead = []
        kcache = {}
        for n, ps in edges.items():
            bb = n[1]
            doms = [d for d in self.dom_edges(bb) if d in edges and d[1] != bb]
            for (root, path, v1) in ps:
                if any((root, path) == (r0, p0) and v0 != v1 for d in doms for (r0, p0, v0) in edges[d]):
                    kk = (root, path, bb)
                    if kk not in kcache:
                        kcache[kk] = killed(root, path, bb)
                        if os.environ.get("FLAN_DEBUG_PRUNE"):
                            print("prune?", body.func.path if getattr(body, "func", None) else "", kk, kcache[kk])
                    if kcache[kk] is None:
                        dead.append(n)
                        break
        for n in dead:
            self._pruned.add(n)
        if dead:
            self._idom = None
        return dead

    # ---- dominance ----------------------------------------------------------
    def idom(self):
        if self._idom is None:
            self._idom, self._rpo = model.dominators(None, self.succ, ("b", 0))
        return self._idom

    def reachable_nodes(self):
        self.idom()
        return set(self._rpo)

    def dom_edges(self, bb):
        """edge-nodes dominating block bb (closest first)"""
        ch = model.dom_chain(self.idom(), ("b", bb))
        return [n for n in ch if n[0] == "e"]

    def facts_at(self, bb):
        """facts that hold on every path from entry to block bb (by dominance of switch edges).  An or-pattern arm (`A | B => ..`) is entered by
        several edges of one switch, none of which dominates it: the block then carries the fact `subject in {A, B}` (('variant_in', p, names))
        and the negation of every other variant."""
        out = []
        for n in self.dom_edges(bb):
            out.extend(self.edge_facts_x(n))
        out.extend(self._merged_arm_facts(bb))
        return out

    def edge_facts_x(self, n):
        """edge_facts(n) plus the same facts with single-definition named locals substituted by their definition
        (`let len = self.file.object.transfer_length; if len == 0` also states `self.file.object.transfer_length == 0`).  Like every use of
        Slicer.expand this assumes the local still holds what its definition read."""
        if getattr(self, "_efx", None) is None:
            self._efx = {}
            self._sl = None
        if n in self._efx:
            return self._efx[n]
        base = self.edge_facts(n)
        if self._sl is None:
            self._sl = Slicer(self.body)
        out = list(base)
        seen = set(show_fact(f) for f in base)
        for (a, t) in base:
            b = None
            if a[0] in ("lt", "le", "eq"):
                b = (a[0], self._sl.expand(a[1]), self._sl.expand(a[2]))
            elif a[0] == "variant":
                b = (a[0], strip_plumbing(self._sl.expand(a[1])), a[2])
            elif a[0] == "true":
                b = (a[0], self._sl.expand(a[1]))
            if b is not None and b != a:
                txt = show_fact((b, t))
                if txt not in seen:
                    seen.add(txt)
                    out.append((b, t))
        # a boolean accessor of the same receiver (`if self.need_transfer_fdt()` for `if !self.fdt_transfer_queue.is_empty()`): when the callee is
        # a straight-line function of `&self` only, its returned expression is a fact here too (same `self`, so the text needs no substitution)
        for (a, t) in list(out):
            if a[0] != "true":
                continue
            c = a[1]
            while c[0] in ("ref", "deref"):
                c = c[1]
            if c[0] == "call" and len(c[2]) == 1:
                r = c[2][0]
                while r[0] in ("ref", "deref"):
                    r = r[1]
                if r[0] == "var" and r[1] == "self" and not r[2]:
                    for f2 in facts_of_accessor(self.body, c[1], t):
                        txt = show_fact(f2)
                        if txt not in seen:
                            seen.add(txt)
                            out.append(f2)
        self._efx[n] = out
        return out

    def _merged_arm_facts(self, bb):
        if getattr(self, "_merged", None) is None:
            self._merged = {}
            preds = {}
            for n in self.reachable_nodes():
                for m in self.succ(n):
                    preds.setdefault(m, []).append(n)
            for m, ps in preds.items():
                if m[0] != "b" or len(ps) < 2 or not all(p[0] == "e" for p in ps) or len(set(p[1] for p in ps)) != 1:
                    continue
                sw = ps[0][1]
                t = self.body.blocks[sw].term
                vt = self._variant_table(t.discr)
                e = self.x.operand(t.discr)
                if not vt or e[0] != "discr":
                    continue
                names = []
                for p in ps:
                    pos = [a[2] for (a, tr) in self.edge_facts(p) if a[0] == "variant" and tr]
                    if len(pos) != 1:
                        names = None
                        break
                    names.append(pos[0])
                if not names:
                    continue
                subj = strip_plumbing(e[1])
                fs = [(("variant_in", subj, tuple(sorted(set(names)))), True)]
                for nm in vt.values():
                    if nm not in names:
                        fs.append((("variant", subj, nm), False))
                self._merged[m[1]] = fs
        out = []
        for n in model.dom_chain(self.idom(), ("b", bb)):
            if n[0] == "b" and n[1] in self._merged:
                out.extend(self._merged[n[1]])
        return out

    def dominates(self, a, b):
        return ("b", a) in model.dom_chain(self.idom(), ("b", b))

    # ---- must-pass-through -----------------------------------------------------
    def reach(self, start, removed_nodes=(), removed_pred=None):
        """nodes reachable from node `start` without entering removed nodes"""
        seen = set()
        st = [start]
        removed = set(removed_nodes)
        while st:
            n = st.pop()
            if n in seen or n in removed:
                continue
            if removed_pred is not None and removed_pred(n):
                continue
            seen.add(n)
            st.extend(self.succ(n))
        return seen

    def must_pass(self, src_bb, dst_bbs, through_pred):
        """True iff every path src -> any dst passes a node n with through_pred(n).
        Returns (ok, witness_path) where witness is a path avoiding `through` nodes."""
        start = ("b", src_bb)
        dst = set(("b", d) for d in dst_bbs)
        prev = {start: None}
        st = [start]
        while st:
            n = st.pop()
            if n in dst and n != start:
                path = []
                while n is not None:
                    path.append(n)
                    n = prev[n]
                return False, list(reversed(path))
            for s in self.succ(n):
                if s in prev or through_pred(s):
                    continue
                prev[s] = n
                st.append(s)
        return True, None

    # ---- post-dominance ---------------------------------------------------------
    def postdominated_by(self, bb, pred_bb):
        """True iff every path from bb to a normal exit (return) passes a block satisfying pred_bb
        (paths ending in unreachable/diverging calls are ignored)."""
        rets = [("b", r) for r in self.body.return_blocks()]
        ok, w = self.must_pass(bb, [r[1] for r in rets], lambda n: n[0] == "b" and n != ("b", bb) and pred_bb(n[1]))
        if ("b", bb) in rets and not pred_bb(bb):
            return False, [("b", bb)]
        return ok, w


# ---------------------------------------------------------------------------
# sites

class Site:
    def __init__(self, func, body, bb, term, expr):
        self.func, self.body, self.bb, self.term, self.expr = func, body, bb, term, expr

    @property
    def loc(self):
        return model.loc(self.term.sp)

    def __repr__(self):
        return "<Site %s %s %s>" % (self.func.path, self.loc, show(self.expr, 120))


def call_sites(func, pred):
    """call sites in func.body (non-cleanup) whose normalised callee path satisfies pred(path, callee_dict)"""
    out = []
    x = X(func.body)
    for bb, t in func.body.calls():
        c = t.callee()
        if c is None:
            continue
        cands = {norm_path(c["path"])}
        if c.get("rpath"):
            cands.add(norm_path(c["rpath"]))
        if any(pred(p, c) for p in cands):
            out.append(Site(func, func.body, bb, t, x.call_expr(bb, t, x.depth)))
    return out


def callee_matches(c, regex):
    import re
    for p in (c.get("path"), c.get("rpath")):
        if p and re.search(regex, norm_path(p)):
            return True
    return False


def find_calls(prog, regex, within=None):
    """all call sites in the program (or in the listed function paths) whose callee path matches regex"""
    import re
    r = re.compile(regex)
    out = []
    fs = [prog.funcs[p] for p in within if p in prog.funcs] if within is not None else [f for _, f in sorted(prog.funcs.items())]
    for f in fs:
        out.extend(call_sites(f, lambda p, c: bool(r.search(p))))
    return out


# ---------------------------------------------------------------------------
# flow-insensitive data slice over named locals

class Slicer:
    def __init__(self, body):
        self.body = body
        self.x = X(body)
        self._var_defs = None
        self._flow = None

    def var_defs(self):
        """name -> list of (projtext, expr) assigned (whole: projtext '' / partial) to the named local, incl. calls
        that receive `&mut local…`."""
        if self._var_defs is None:
            b = self.body
            out = {}
            mutref_tmp = {}  # temp local -> (name, projtext) it mutably borrows
            for blk in b.blocks:
                for s in blk.stmts:
                    if s.k != "assign":
                        continue
                    if s.rv.k in ("ref", "rawptr") and s.rv.j.get("mut") and not s.lhs[1]:
                        e = self.x.place(s.rv.place)
                        if e[0] == "var":
                            mutref_tmp[s.lhs[0]] = (e[1], e[2])
            for blk in b.blocks:
                if blk.cleanup or blk.cloned_from is not None:
                    continue
                for s in blk.stmts:
                    if s.k == "assign":
                        if not s.lhs[1] and s.lhs[0] in b.names:
                            out.setdefault(b.names[s.lhs[0]], []).append(("", self.x.rvalue(s.rv, self.x.depth), blk.i))
                        elif s.lhs[1]:
                            e = self.x.place(s.lhs)
                            if e[0] == "var":
                                out.setdefault(e[1], []).append((e[2], self.x.rvalue(s.rv, self.x.depth), blk.i))
                t = blk.term
                if t.k == "call":
                    ce = self.x.call_expr(blk.i, t, self.x.depth)
                    if t.dest is not None:
                        if not t.dest[1] and t.dest[0] in b.names:
                            out.setdefault(b.names[t.dest[0]], []).append(("", ce, blk.i))
                        elif t.dest[1]:
                            de = self.x.place(t.dest)
                            if de[0] == "var":
                                out.setdefault(de[1], []).append((de[2], ce, blk.i))
                    for a in t.args:
                        if a.place is not None and not a.place[1] and a.place[0] in mutref_tmp:
                            nm, pj = mutref_tmp[a.place[0]]
                            out.setdefault(nm, []).append((pj, ce, blk.i))
            self._var_defs = out
        return self._var_defs

    def defs_of(self, name, proj, with_bb=False):
        out = []
        for dproj, e, bb in self.var_defs().get(name, []):
            if dproj == "" or proj == "" or proj.startswith(dproj) or dproj.startswith(proj):
                out.append((e, bb) if with_bb else e)
        return out

    def control_exprs(self, def_bbs):
        """discriminant expressions of the switches that choose between several definitions of one value:
        switch edges dominating one definition block but not all of them"""
        if len(set(def_bbs)) < 2:
            return []
        if self._flow is None:
            self._flow = Flow(self.body)
        fl = self._flow
        chains = []
        for bb in set(def_bbs):
            chains.append([n for n in fl.dom_edges(bb)])
        common = set(chains[0])
        for c in chains[1:]:
            common &= set(c)
        out = []
        seen = set()
        for c in chains:
            for n in c:
                if n in common or n[1] in seen:
                    continue
                seen.add(n[1])
                out.append(self.x.operand(self.body.blocks[n[1]].term.discr))
        return out

    def sources(self, e, control=True):
        """set of leaf descriptors reachable backwards from expression e through named locals (flow-insensitive,
        field-sensitive on the first level): every variable read on the way ('var:name.proj'), constants, callees.
        control=False: data dependences only (the conditions that select between several definitions are not followed)."""
        b = self.body
        seen_vars = set()
        out = set()
        work = [e]
        while work:
            cur = work.pop()
            for s in walk(cur):
                k = s[0]
                if k == "var":
                    out.add("var:" + s[1] + s[2])
                    key = (s[1], s[2])
                    if key not in seen_vars:
                        seen_vars.add(key)
                        ds = self.defs_of(s[1], s[2], with_bb=True)
                        work.extend(e for e, _ in ds)
                        if control:
                            work.extend(self.control_exprs([bb for _, bb in ds]))
                elif k == "const":
                    out.add("const:" + str(s[2]))
                elif k == "proj":
                    out.add("var:" + show(s, 200))
                elif k == "call":
                    out.add("call:" + s[1])
                elif k == "fnref":
                    out.add("fn:" + s[1])
                elif k == "tmp":
                    key = ("tmp", s[1])
                    if key not in seen_vars:
                        seen_vars.add(key)
                        dbbs = []
                        for (bb, idx, kind) in b.defs().get(s[1], []):
                            if kind in ("whole", "call", "partial"):
                                work.append(self.x.def_expr((bb, idx), self.x.depth))
                                dbbs.append(bb)
                        if control:
                            work.extend(self.control_exprs(dbbs))
                elif k == "closure":
                    out.add("closure:" + s[1])
                elif k == "aggr":
                    out.add("aggr:%s::%s" % (s[1], s[2]))
        return out

    def expand(self, e, depth=40, stop=()):
        """substitute named non-parameter locals that have exactly one definition by that definition
        (names in `stop` are kept)"""
        if depth <= 0 or not isinstance(e, tuple) or not e or not isinstance(e[0], str):
            return e
        b = self.body
        if e[0] == "var":
            params = set(b.names.get(l, "arg%d" % l) for l in range(1, b.argc + 1))
            upv = set(n for _, n in b.named_places)
            if e[1] not in params and e[1] not in upv and e[1] not in stop:
                ds = self.var_defs().get(e[1], [])
                if len(ds) == 1 and ds[0][0] == "":
                    inner = self.expand(ds[0][1], depth - 1, stop)
                    if not e[2]:
                        if inner[0] == "proj" and len(inner) == 3 and len(e) > 3:
                            inner = inner + (e[3],)
                        return inner
                    return ("proj", inner, e[2]) + ((e[3],) if len(e) > 3 else ())
            return e
        if e[0] == "proj" and len(e) > 2 and e[2] in ("@Continue.0", "@Ok.0", "@Some.0"):
            # the success payload of a value that is assigned in several places (the result slot of an inlined helper, tested with `?` or a
            # `match`): when every success definition wraps the same expression, that expression is the payload
            src = e[1]
            if e[2] == "@Continue.0" and src[0] == "call" and src[1].replace(" ", "").endswith("Try>::branch") and len(src[2]) == 1:
                src = src[2][0]
            while src[0] in ("ref", "deref"):
                src = src[1]
            pay = self._success_payloads(src, 3, stop)
            if pay:
                shown = set(show(z, 600) for z in pay)
                if len(shown) == 1:
                    return pay[0]
        out = []
        for x in e:
            if isinstance(x, tuple) and x and isinstance(x[0], str):
                out.append(self.expand(x, depth - 1, stop))
            elif isinstance(x, tuple):
                out.append(tuple(self.expand(y, depth - 1, stop) if isinstance(y, tuple) and y and isinstance(y[0], str) else y for y in x))
            else:
                out.append(x)
        return tuple(out)


def _success_payloads_impl(self, src, depth, stop=()):
    """expanded payload expressions of the Ok(..)/Some(..) definitions of a multi-definition local (failure definitions are skipped); None when
    some definition is neither"""
    b = self.body
    if src[0] != "tmp" or src[2] or depth <= 0:
        return None
    out = []
    ds = [d for d in b.defs().get(src[1], []) if d[2] in ("whole", "call")]
    if len(ds) < 2:
        return None
    for (bb, idx, kind) in ds:
        if idx == "term":
            t = b.blocks[bb].term
            if (t.callee_path() or "").endswith("::from_residual"):
                continue
            return None
        rv = b.blocks[bb].stmts[idx].rv
        if rv.k == "aggr" and rv.j.get("ak") == "adt" and rv.j.get("variant") in ("Ok", "Some") and len(rv.ops) == 1:
            out.append(self.expand(self.x.operand(rv.ops[0]), 40, stop))
        elif rv.k == "aggr" and rv.j.get("ak") == "adt" and rv.j.get("variant") in ("Err", "None"):
            continue
        elif rv.k == "use" and rv.ops[0].place is not None and not rv.ops[0].place[1]:
            inner = self._success_payloads(("tmp", rv.ops[0].place[0], ""), depth - 1, stop)
            if inner is None:
                return None
            out.extend(inner)
        else:
            return None
    return out


Slicer._success_payloads = _success_payloads_impl


def strip_casts(e):
    while e[0] in ("cast",) or (e[0] == "un" and False):
        e = e[2]
    while e[0] in ("ref", "deref"):
        e = e[1]
    return e
