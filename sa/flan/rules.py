"""E2 rule kinds shared by the property modules."""
import re

from . import model, cfg
from .model import X, show, walk, leaves, norm_path, loc
from .cfg import Flow, Slicer, call_sites, find_calls, show_fact


def root_path(func):
    return func.root().path


def rx(patterns):
    if isinstance(patterns, str):
        patterns = [patterns]
    return [re.compile(p) for p in patterns]


def matches_any(s, regs):
    return any(r.search(s) for r in regs)


# ---------------------------------------------------------------------------
def allowed_here(prog, caller, regs):
    """the caller matches one of the allowed patterns - or it hosts the code of a reviewed private function that matched and was folded into
    it (Program.folded)"""
    if matches_any(caller, regs):
        return True
    if any(host == caller and matches_any(f, regs) for f, host in prog.folded().items()):
        return True
    # the closure of a new private helper that was inlined into its callers (`fn publish() { .. self.enqueue(..) }`, the closure stays
    # `enqueue::{closure#0}`): its code runs where the helper's code runs - allowed when every host is
    hosts = prog.inlined_hosts(caller)
    return bool(hosts) and all(allowed_here(prog, h, regs) for h in hosts)


def wmc(rule, prog, callee_regex, allowed, floor=1, what=None, skip_callers=None):
    """who-may-call: every call whose callee path matches callee_regex sits in a function (closures are
    attributed to their enclosing function) whose path matches one of `allowed`."""
    allowed_r = rx(allowed)
    skip_r = rx(skip_callers) if skip_callers else []
    sites = find_calls(prog, callee_regex)
    n = 0
    for s in sites:
        caller = root_path(s.func)
        if skip_r and matches_any(caller, skip_r):
            continue
        n += 1
        key = "%s -> %s" % (caller, model.short_callee(s.term.callee_path()))
        if allowed_here(prog, caller, allowed_r):
            rule.ok(key, "call allowed here", s.loc)
        else:
            rule.violation(key, "call to %s from %s, which is outside the allowed set %s" % (
                what or callee_regex, caller, allowed), s.loc)
    return sites


# ---------------------------------------------------------------------------
def _ref_only_read(body, l, depth=2):
    """the reference held by local l (a `&mut` borrow) is only dereferenced for reading in this body: no store through it, no mutable reborrow, never
    an argument of a call, never returned or stored; plain copies of the reference are followed"""
    def mentions(pl):
        return pl is not None and pl[0] == l
    for blk in body.blocks:
        for s in blk.stmts:
            if s.k != "assign":
                if s.lhs is not None and mentions(s.lhs):
                    return False
                continue
            if mentions(s.lhs) and s.lhs[1]:
                return False                      # (*l) = .. / (*l).f = ..
            if s.rv.k in ("ref", "rawptr") and mentions(s.rv.place):
                if s.rv.j.get("mut"):
                    return False
                continue
            for o in s.rv.ops:
                if o.place is not None and mentions(o.place):
                    if not o.place[1]:
                        # the reference itself is copied / moved somewhere
                        if s.lhs[1] or s.lhs[0] == 0 or depth <= 0 or s.rv.k != "use" or not _ref_only_read(body, s.lhs[0], depth - 1):
                            return False
        t = blk.term
        if t.k == "call":
            if any(a.place is not None and mentions(a.place) and not a.place[1] for a in t.args):
                return False
            if t.dest is not None and mentions(t.dest) and t.dest[1]:
                return False
        elif t.k == "drop" and t.place is not None and mentions(t.place) and t.place[1]:
            return False
    return True


def field_accesses(prog, owner_adt, field, funcs=None):
    """all writes / mutable borrows / constructions touching field `field` of ADT `owner_adt`.
    yields dict(func, bb, idx, kind, value_expr, sp)"""
    out = []
    fs = funcs if funcs is not None else [f for _, f in sorted(prog.funcs.items())]

    def touches(pl):
        for e in pl[1]:
            if e[0] == "f" and e[2] == field and e[3] == owner_adt:
                return True
        return False

    def last_is(pl):
        fl = [e for e in pl[1] if e[0] == "f"]
        return bool(fl) and fl[-1][2] == field and fl[-1][3] == owner_adt

    for f in fs:
        b = f.body
        x = X(b)
        for blk in b.blocks:
            if blk.cleanup:
                continue
            for i, s in enumerate(blk.stmts):
                if s.k == "assign":
                    if touches(s.lhs):
                        out.append(dict(func=f, bb=blk.i, idx=i, kind="assign" if last_is(s.lhs) else "assign_sub",
                                        value=x.rvalue(s.rv, x.depth), sp=s.sp, place=x.place(s.lhs)))
                    if s.rv.k in ("ref", "rawptr") and s.rv.j.get("mut") and touches(s.rv.place):
                        if not s.lhs[1] and _ref_only_read(b, s.lhs[0]):
                            # `let Toi { allocator, value } = self;` with `self: &mut Toi` binds `value: &mut u128` although it is only read:
                            # a mutable borrow that is never stored through, reborrowed mutably or handed to a call is not a write
                            continue
                        out.append(dict(func=f, bb=blk.i, idx=i, kind="borrow_mut", value=None, sp=s.sp,
                                        place=x.place(s.rv.place), exact=last_is(s.rv.place)))
                    if s.rv.k == "aggr" and s.rv.j.get("ak") == "adt" and s.rv.j.get("adt") == owner_adt:
                        names = s.rv.j.get("fnames", [])
                        if field in names:
                            out.append(dict(func=f, bb=blk.i, idx=i, kind="construct",
                                            value=x.operand(s.rv.ops[names.index(field)]), sp=s.sp, place=None))
                elif s.k == "setdiscr" and touches(s.lhs):
                    out.append(dict(func=f, bb=blk.i, idx=i, kind="assign", value=("const", "discr", s.vi), sp=s.sp,
                                    place=x.place(s.lhs)))
            t = blk.term
            if t.k == "call" and t.dest is not None and touches(t.dest):
                out.append(dict(func=f, bb=blk.i, idx="term", kind="assign" if last_is(t.dest) else "assign_sub",
                                value=x.call_expr(blk.i, t, x.depth), sp=t.sp, place=x.place(t.dest)))
    return out


def wwf(rule, prog, owner_adt, field, allowed, kinds=("assign", "assign_sub", "borrow_mut"), value_check=None, floor=None):
    """who-writes-field: assignments to / mutable borrows of owner_adt.field occur only in `allowed` functions.
    value_check(access) -> None | str (problem) is applied to plain assignments in allowed functions."""
    allowed_r = rx(allowed)
    acc = [a for a in field_accesses(prog, owner_adt, field) if a["kind"] in kinds]
    for a in acc:
        caller = root_path(a["func"])
        key = "%s writes %s.%s (%s)" % (caller, owner_adt.split("::")[-1], field, a["kind"])
        if not allowed_here(prog, caller, allowed_r):
            rule.violation(key, "%s of %s.%s in %s, outside the allowed writers %s" % (
                a["kind"], owner_adt, field, caller, allowed), loc(a["sp"]))
            continue
        prob = None
        if value_check is not None:
            prob = value_check(a)
        if prob:
            rule.violation(key + " value", prob, loc(a["sp"]))
        else:
            rule.ok(key, "value: %s" % (show(a["value"], 160) if a["value"] is not None else "&mut"), loc(a["sp"]))
    return acc


# ---------------------------------------------------------------------------
def ret_assign_blocks(body, pred):
    """blocks that assign the return place `_0` with an rvalue/call expression satisfying pred(expr)"""
    out = []
    x = X(body)
    for blk in body.blocks:
        if blk.cleanup:
            continue
        for s in blk.stmts:
            if s.k == "assign" and s.lhs == (0, ()):
                e = x.rvalue(s.rv, x.depth)
                if pred(e):
                    out.append((blk.i, e))
        t = blk.term
        if t.k == "call" and t.dest == (0, ()):
            e = x.call_expr(blk.i, t, x.depth)
            if pred(e):
                out.append((blk.i, e))
        # an Err(..)/None built by an inlined helper and handed to the caller's `?` (normalize.thread_try routed this block straight to the
        # Break edge): it is the value the function returns
        if t.j.get("try_threaded") == "Break" and t.k == "goto":
            for s in blk.stmts:
                if s.k == "assign" and not s.lhs[1] and s.lhs[0] != 0 and s.rv.k == "aggr" and s.rv.j.get("variant") in ("Err", "None"):
                    e = x.rvalue(s.rv, x.depth)
                    if pred(e):
                        out.append((blk.i, e))
    return out


def is_variant(e, variant):
    return e[0] == "aggr" and e[2] == variant


def expr_mentions(e, var=None, call=None, const=None):
    """True iff expression e contains a var leaf whose text matches regex `var` / a call whose callee matches `call`"""
    for s in walk(e):
        if var is not None and s[0] == "var" and re.search(var, s[1] + s[2]):
            return True
        if call is not None and s[0] == "call" and re.search(call, s[1]):
            return True
        if const is not None and s[0] == "const" and s[2] == const:
            return True
    return False


def sources_match(slicer, e, regex):
    r = re.compile(regex)
    return any(r.search(s) for s in slicer.sources(e))


def edge_has_fact(flow, node, pred):
    return node[0] == "e" and any(pred(f) for f in flow.edge_facts(node))


def facts_text(flow, bb):
    return "; ".join(show_fact(f) for f in flow.facts_at(bb))


def path_text(body, path, limit=14):
    """render a witness path (list of flow nodes) as source lines"""
    out = []
    last = None
    for n in path:
        if n[0] == "b":
            t = body.blocks[n[1]].term
            ln = t.sp[1] if t.sp else None
            if ln is not None and ln != last:
                out.append(str(ln))
                last = ln
    if len(out) > limit:
        out = out[:limit // 2] + ["…"] + out[-limit // 2:]
    return "lines " + "→".join(out)


# ---------------------------------------------------------------------------
def arm_constants(func, discr_regex, var_regex=None):
    """For a `match <discr>` whose scrutinee text matches discr_regex: map variant name -> constant assigned in the
    arm (to the return place or to the named local matching var_regex).  Returns {variant: value|None}."""
    body = func.body
    flow = Flow(body)
    x = flow.x
    out = {}
    for blk in body.blocks:
        t = blk.term
        if t.k != "switch":
            continue
        e = x.operand(t.discr)
        if e[0] != "discr" or not re.search(discr_regex, show(e[1])):
            continue
        for k in range(len(t.targets) + 1):
            n = ("e", blk.i, k)
            var = [f[0][2] for f in flow.edge_facts(n) if f[0][0] == "variant" and f[1]]
            if len(var) != 1:
                continue
            # follow straight-line code from the arm
            cur = flow.succ(n)[0][1]
            val = None
            steps = 0
            panics = False
            while steps < 20:
                steps += 1
                b2 = body.blocks[cur]
                for s in b2.stmts:
                    if s.k == "assign" and not s.lhs[1]:
                        nm = body.names.get(s.lhs[0], "<ret>" if s.lhs[0] == 0 else None)
                        if nm is None:
                            continue
                        if var_regex is None and s.lhs[0] != 0:
                            continue
                        if var_regex is not None and not re.search(var_regex, nm):
                            continue
                        ev = x.rvalue(s.rv, x.depth)
                        val = const_value(ev)
                if val is not None:
                    break
                tt = b2.term
                if tt.k == "goto":
                    cur = tt.target
                    continue
                if tt.k == "call" and tt.target is None:
                    panics = True
                break
            out[var[0]] = "panic" if panics and val is None else val
    return out


def const_value(e):
    """evaluate a constant integer expression tree (casts, simple arithmetic), else None"""
    k = e[0]
    if k == "const":
        return e[2] if isinstance(e[2], int) and not isinstance(e[2], bool) else None
    if k == "cast":
        return const_value(e[2])
    if k == "bin":
        a, b = const_value(e[2]), const_value(e[3])
        if a is None or b is None:
            return None
        op = e[1].replace("WithOverflow", "").replace("Unchecked", "")
        try:
            return {"Add": a + b, "Sub": a - b, "Mul": a * b, "Shl": a << b, "Shr": a >> b,
                    "BitAnd": a & b, "BitOr": a | b}.get(op)
        except Exception:
            return None
    return None


# ---------------------------------------------------------------------------
def calls_on_field(prog, owner_adt, field, funcs=None, argpos=None):
    """call sites that receive (a reference to / the value of) the place `….field` of ADT owner_adt as an argument.
    yields (Site, arg index, is_mut_borrow)"""
    out = []
    fs = funcs if funcs is not None else [f for _, f in sorted(prog.funcs.items())]
    for f in fs:
        b = f.body
        x = X(b)
        for bb, t in b.calls():
            for ai, a in enumerate(t.args):
                if argpos is not None and ai != argpos:
                    continue
                if a.place is None:
                    continue
                pl = a.place
                mut = False
                hops = 0
                # chase single-def temps: _5 = &mut (*_1).field ; _6 = &(*_5) ...
                while hops < 6:
                    hops += 1
                    fl = [e for e in pl[1] if e[0] == "f"]
                    if fl and fl[-1][2] == field and fl[-1][3] == owner_adt:
                        out.append((Site(f, b, bb, t, x.call_expr(bb, t, x.depth)), ai, mut))
                        break
                    sd = b.single_def(pl[0])
                    if sd is None or sd[1] == "term":
                        break
                    rv = b.blocks[sd[0]].stmts[sd[1]].rv
                    if rv.k in ("ref", "rawptr"):
                        mut = mut or bool(rv.j.get("mut"))
                        pl = rv.place
                    elif rv.k == "use" and rv.ops[0].place is not None:
                        pl = rv.ops[0].place
                    else:
                        break
    return out


from .cfg import Site  # noqa: E402


def field_type(prog, adt, field):
    a = prog.adt(adt)
    for v in a["variants"]:
        for fl in v["fields"]:
            if fl["name"] == field:
                return fl["ty"]
    raise model.AnchorMissing("%s has no field %s" % (adt, field))


def method_name(site):
    return norm_path(site.term.callee_path()).split("::")[-1]


def fallback_chain(rule, prog, fpath, levels, keyprefix):
    """`levels` = [(name, value_regex, source_regex)] in priority order.  Every return of `fpath` is classified by the first
    level whose value_regex matches its (expanded) text; a return of level i must lie under facts saying that every
    level j < i is absent (its source `is None` / `is_some` false).  Recognised idioms: if/early-return chains, `match`,
    and `Option::or / or_else / unwrap_or / unwrap_or_else(level_i, level_i+1)`.  Each level needs at least one return."""
    from .cfg import Flow, Slicer, show_fact
    from .model import show, loc
    f = prog.fn(fpath)
    fl = Flow(f.body)
    sl = Slicer(f.body)
    seen = set()
    rets = ret_assign_blocks(f.body, lambda e: True)
    if not rets:
        from .model import AnchorMissing
        raise AnchorMissing("%s has no return value assignment" % fpath)

    def absent(j, bb):
        for (a, t) in fl.facts_at(bb):
            if a[0] == "variant":
                txt = show(sl.expand(a[1]), 300)
                if re.search(levels[j][2], txt) and ((a[2] == "None" and t) or (a[2] == "Some" and not t)):
                    return True
        return False

    def level_of(txt):
        for i, (_, vr, _) in enumerate(levels):
            if re.search(vr, txt):
                return i
        return None

    for bb, e in rets:
        ex = sl.expand(e)
        txt = show(ex, 400)
        m = ex[0] == "call" and re.search(r"Option(<.*>)?::(or|or_else|unwrap_or|unwrap_or_else)$", ex[1])
        if m and len(ex[2]) == 2:
            a0 = show(ex[2][0], 300)
            a1 = ex[2][1]
            if a1[0] == "closure":
                cf = prog.funcs.get(a1[1])
                a1txt = " | ".join(show(Slicer(cf.body).expand(v), 300) for _, v in ret_assign_blocks(cf.body, lambda e: True)) if cf else "?"
            else:
                a1txt = show(a1, 300)
            i0, i1 = level_of(a0), level_of(a1txt)
            key = "%s %s" % (keyprefix, "or-chain")
            if i0 is not None and i1 is not None and i0 < i1 and all(absent(j, bb) for j in range(i0)):
                rule.ok(key, "%s, then %s" % (levels[i0][0], levels[i1][0]), loc(f.sp))
                seen |= {i0, i1}
            else:
                rule.violation(key, "%s returns %s: the fallback order must be %s" % (
                    fpath.split("::")[-1], txt[:160], " > ".join(l[0] for l in levels)), loc(f.sp))
                seen |= {x for x in (i0, i1) if x is not None}
            continue
        i = level_of(txt)
        if i is None:
            rule.violation("%s returns %s" % (keyprefix, txt[:60]), "return value is none of %s" % [l[0] for l in levels], loc(f.sp))
            continue
        seen.add(i)
        key = "%s returns %s" % (keyprefix, levels[i][0])
        missing = [levels[j][0] for j in range(i) if not absent(j, bb)]
        if missing:
            rule.violation(key, "%s is returned although %s may be present (facts here: %s): the precedence %s is not respected" % (
                levels[i][0], missing, "; ".join(show_fact(x) for x in fl.facts_at(bb))[:200], " > ".join(l[0] for l in levels)), loc(f.sp))
        else:
            rule.ok(key, "under absence of %s" % [levels[j][0] for j in range(i)] if i else "first choice", loc(f.sp))
    for i, l in enumerate(levels):
        if i not in seen:
            rule.violation("%s returns %s" % (keyprefix, l[0]), "%s never returns %s" % (fpath.split("::")[-1], l[0]), loc(f.sp))


def mode_fact(fact, what="publish_mode", variants=("FullFDT", "ObjectsBeingTransferred")):
    """normalise a fact about a two-valued enum slot: returns (variant, truth) for `slot is Variant`, whether the source wrote a `match`
    (variant fact on the discriminant) or `slot == Enum::Variant` / `!=` (eq fact against a unit aggregate); None for unrelated facts."""
    (a, t) = fact
    if a[0] == "variant" and what in show(a[1]) and a[2] in variants:
        return a[2], t
    if a[0] == "eq":
        l, r = show(a[1]), show(a[2])
        for v in variants:
            for x, y in ((l, r), (r, l)):
                if what in x and re.search(r"::%s(\{\})?$" % re.escape(v), y):
                    return v, t
    if a[0] == "true":
        # `matches!(slot, Enum::Variant)` / PartialEq::eq(&slot, &Enum::Variant)
        for c in walk(a[1]):
            if c[0] == "call" and re.search(r"(PartialEq|cmp)::(eq|ne)$", c[1]) and len(c[2]) == 2:
                l, r = show(c[2][0]), show(c[2][1])
                for v in variants:
                    for x, y in ((l, r), (r, l)):
                        if what in x and re.search(r"::%s(\{\})?$" % re.escape(v), y):
                            return v, (t if c[1].endswith("eq") else not t)
    return None


def mode_is(fact, variant, what="publish_mode", variants=("FullFDT", "ObjectsBeingTransferred")):
    """True / False when the fact decides `slot is variant` (two-valued enum: `is other` decides it too), None otherwise"""
    m = mode_fact(fact, what, variants)
    if m is None:
        return None
    v, t = m
    return t if v == variant else (not t)


def origin_text(sl, e):
    """text of expression e with single-definition locals substituted, followed by the (substituted) plain assignments of the named locals it
    mentions: a loop iterator is a named local that is assigned once (`iter = into_iter(&self.objects)`) and then only borrowed mutably by
    next(), which the slicer counts as a further definition - so `expand` alone stops at it"""
    txt = show(sl.expand(e), 2000)
    seen_ = set()
    work_ = [z for z in walk(e) if z[0] == "var"]
    while work_:
        v = work_.pop()
        if v[1] in seen_ or len(seen_) > 6:
            continue
        seen_.add(v[1])
        for (pj, d, _bb) in sl.var_defs().get(v[1], []):
            if pj == "" and not (d[0] == "call" and any(show(a_) in ("&" + v[1], v[1]) for a_ in d[2])):
                txt += " " + show(sl.expand(d), 2000)
                work_.extend(z for z in walk(d) if z[0] == "var")
    return txt


def foreach_sites(prog, func, collection_regex, callee_pred, unconditional=True, search=False):
    """Where does `func` apply a call (callee_pred(path) -> bool) to EVERY element of an iteration over a collection whose access path matches
    collection_regex?  Two source idioms are the same statement:
      (a) an iterator adaptor driven to the end (`for_each`, or `map/filter/..` finished by `collect/count/for_each/last/sum`) whose closure makes
          the call on every path to its return;
      (b) an explicit `for`/`while let` loop: the `next()` call polled in `func` on an iterator over the collection, with the call made on every
          path from the `Some` edge back to the `next()`.
    Returns a list of (bb, how, site): bb is the block of `func` that stands for the whole iteration (the adaptor call, or the `next()` call that
    also ends the loop) - the block to use in dominance / post-dominance questions."""
    out = []
    sl = Slicer(func.body)
    flow = Flow(func.body)
    rx_ = re.compile(collection_regex)

    def over_collection(e):
        txt = origin_text(sl, e)
        return any(rx_.search(m) for m in re.findall(r"[A-Za-z_][\w~]*(?:\.[\w@]+)*", txt))

    # (a) adaptors
    for s in call_sites(func, lambda p, c: re.search(r"Iterator::(for_each|try_for_each|map|filter|filter_map|inspect|all|any|fold|find|find_map|position)$", p) is not None):
        if not over_collection(s.expr):
            continue
        for z in sl.sources(s.expr, control=False):
            if not z.startswith("closure:"):
                continue
            cf = prog.funcs.get(z[len("closure:"):])
            if cf is None:
                continue
            cs = call_sites(cf, lambda p, c: callee_pred(p))
            if not cs:
                continue
            if unconditional:
                cflow = Flow(cf.body)
                ok, _w = cflow.must_pass(0, cf.body.return_blocks(), lambda n: n[0] == "b" and n[1] in set(x.bb for x in cs))
                if not ok and 0 not in set(x.bb for x in cs):
                    continue
            m = s.term.callee_path() or ""
            # search=True: the caller asks for "offered to the elements in order until one accepts" (a loop with `break`, or
            # position/find/find_map/any), not for "applied to every element"
            if re.search(r"::(for_each|try_for_each|fold)$", m) or (search and re.search(r"::(position|find|find_map|any|all)$", m)):
                out.append((s.bb, "adaptor " + m.split("::")[-1], s))
            # lazy adaptors (`map`, `filter`, ...) are driven by a later consumer in the same function: use the consumer's block
            elif re.search(r"::(map|filter|filter_map|inspect)$", m):
                for c2 in call_sites(func, lambda p, c: re.search(r"Iterator::(collect|count|for_each|last|sum|max|min)$|::extend$|FromIterator::from_iter$", p) is not None):
                    if any(show(s.expr, 400) in show(sl.expand(a), 2000) or show(s.expr, 400) in show(a, 2000) for a in c2.expr[2]):
                        out.append((c2.bb, "adaptor %s + %s" % (m.split("::")[-1], (c2.term.callee_path() or "").split("::")[-1]), s))
    # (b) explicit loops
    nexts = call_sites(func, lambda p, c: re.search(r"Iterator(<.*>)?>?::next$|::next$", p) is not None)
    for nx in nexts:
        if not over_collection(nx.expr):
            continue
        some_edges = []
        for blk in func.body.blocks:
            if blk.term.k != "switch":
                continue
            for k in range(len(blk.term.targets) + 1):
                n = ("e", blk.i, k)
                for (a, t) in flow.edge_facts(n):
                    if a[0] == "variant" and ((a[2] == "Some") == t) and a[2] in ("Some", "None") and show(a[1], 400) == show(nx.expr, 400):
                        some_edges.append(n)
        if not some_edges:
            continue
        elem = "var:%s@Some.0" % show(nx.expr, 400)
        cs = [c for c in call_sites(func, lambda p, c: callee_pred(p))
              if any(show(nx.expr, 400) in show(sl.expand(a), 2000) or elem in sl.sources(a, control=False) for a in c.expr[2])]
        if not cs:
            continue
        good = True
        if unconditional:
            for n in some_edges:
                tgt = flow.succ(n)[0][1]
                if tgt in set(x.bb for x in cs):
                    continue
                ok, _w = flow.must_pass(tgt, [nx.bb], lambda m_: m_[0] == "b" and m_[1] in set(x.bb for x in cs))
                if tgt == nx.bb or not ok:
                    good = False
        if good:
            out.append((nx.bb, "loop", nx))
    return out


def comparisons(func, expand=True):
    """every ordering / equality comparison evaluated in the body, wherever its result goes (a branch, a local, an argument of `&&`):
    list of (fact, bb) with fact = (('lt'|'le'|'eq', a, b), True) in canonical orientation, operands with single-definition locals substituted"""
    from .cfg import facts_of
    body = func.body
    sl = Slicer(body)
    out = []
    seen = set()

    def add(e, bb):
        for (a, t) in facts_of(e, True):
            if a[0] in ("lt", "le", "eq"):
                x_, y_ = (sl.expand(a[1]), sl.expand(a[2])) if expand else (a[1], a[2])
                k = (a[0], show(x_, 400), show(y_, 400), t)
                if k not in seen:
                    seen.add(k)
                    out.append((((a[0], x_, y_), t), bb))
    for blk in body.blocks:
        if blk.cleanup:
            continue
        for s in blk.stmts:
            if s.k == "assign" and s.rv.k == "bin" and s.rv.j.get("op") in ("Eq", "Ne", "Lt", "Le", "Gt", "Ge"):
                add(sl.x.rvalue(s.rv, sl.x.depth), blk.i)
        t = blk.term
        if t.k == "switch":
            add(sl.x.operand(t.discr), blk.i)
        elif t.k == "call" and re.search(r"Partial(Ord|Eq)::(lt|le|gt|ge|eq|ne)$", t.callee_path() or ""):
            add(sl.x.call_expr(blk.i, t, sl.x.depth), blk.i)
    return out


def value_defs(slicer, name):
    """the values a named local can hold, one per definition: [(expr, bb)].  Looks through a tuple destructuring
    `let (a, b) = if c { (x1, y1) } else { (x2, y2) };` (the local is field k of a temporary that is assigned one tuple per arm)."""
    body = slicer.body
    defs = [(e, bb) for (proj, e, bb) in slicer.var_defs().get(name, []) if proj == ""]
    if len(defs) == 1 and defs[0][0][0] == "tmp" and re.match(r"^\.\d+$", defs[0][0][2] or ""):
        k = int(defs[0][0][2][1:])
        out = []
        for (bb, idx, kind) in body.defs().get(defs[0][0][1], []):
            if idx == "term" or kind != "whole":
                return defs
            rv = body.blocks[bb].stmts[idx].rv
            if rv.k == "aggr" and rv.j.get("ak") == "tuple" and k < len(rv.ops):
                out.append((slicer.x.operand(rv.ops[k]), bb))
            else:
                return defs
        if len(out) >= 2:
            return out
    return defs


def held_variants(facts, subject_pred):
    """variant names the subject (subject_pred(expr) -> bool) is known to have at this point: ['A'] under a `A => ..` arm, ['A', 'B'] under an
    or-pattern arm `A | B => ..`; [] when nothing is known"""
    out = []
    for (a, t) in facts:
        if a[0] == "variant" and t and subject_pred(a[1]):
            out.append(a[2])
        elif a[0] == "variant_in" and t and subject_pred(a[1]):
            out.extend(a[2])
    return sorted(set(out))


def ret_value_defs(body, pred=lambda e: True, depth=3):
    """like ret_assign_blocks, but a return of a local that is assigned in several places (`_0 = move r` where `r` is the result slot of an
    inlined helper, or a `let r = if .. {a} else {b}; r`) is resolved to those assignments: [(block of the defining assignment, expr)]"""
    x = X(body)
    out = []

    def defs_of_local(l, d):
        res = []
        for (bb, idx, kind) in body.defs().get(l, []):
            if kind not in ("whole", "call") or body.blocks[bb].cleanup:
                continue
            if idx == "term":
                res.append((bb, x.call_expr(bb, body.blocks[bb].term, x.depth)))
                continue
            rv = body.blocks[bb].stmts[idx].rv
            src = rv.ops[0].place if rv.k == "use" and rv.ops and rv.ops[0].place is not None else None
            if src is not None and not src[1] and d > 0 and len([z for z in body.defs().get(src[0], []) if z[2] in ("whole", "call")]) >= 2:
                res.extend(defs_of_local(src[0], d - 1))
            else:
                res.append((bb, x.rvalue(rv, x.depth)))
        return res
    for (bb, e) in defs_of_local(0, depth):
        if pred(e):
            out.append((bb, e))
    return out


def norm_unwrap(e):
    """normal form for comparing two spellings of the same value: `Option::unwrap(x)` / `expect` (after a guard that established Some) and
    the payload binding of a pattern `x@Some.0` are the same value; likewise Result::unwrap / `@Ok.0`"""
    if not isinstance(e, tuple) or not e:
        return e
    if not isinstance(e[0], str):
        return tuple(norm_unwrap(x) if isinstance(x, tuple) else x for x in e)     # a tuple of expressions (call arguments, fields)
    if e[0] == "call" and len(e) > 2 and len(e[2]) >= 1 and re.search(r"(option::)?Option::(unwrap|expect|unwrap_unchecked)$", e[1]):
        return ("proj", norm_unwrap(e[2][0]), "@Some.0")
    if e[0] == "call" and len(e) > 2 and len(e[2]) >= 1 and re.search(r"(result::)?Result::(unwrap|expect)$", e[1]):
        return ("proj", norm_unwrap(e[2][0]), "@Ok.0")
    if e[0] == "var" and isinstance(e[2], str) and e[2].endswith(("@Some.0", "@Ok.0")):
        return ("proj", e[:2] + (e[2].rsplit("@", 1)[0],) + e[3:], "@" + e[2].rsplit("@", 1)[1])
    return tuple(norm_unwrap(x) if isinstance(x, tuple) else x for x in e)


def enum_test(fact):
    """(subject expr, variant name, truth) when the fact tests a value against one enum variant - as a match arm (`x is V`) or as an equality
    with the unit variant (`x == Enum::V` / `!=`); None otherwise"""
    (a, t) = fact
    if a[0] == "variant":
        return a[1], a[2], t
    if a[0] == "eq":
        for x_, y_ in ((a[1], a[2]), (a[2], a[1])):
            y2 = y_
            while y2[0] in ("ref", "deref"):
                y2 = y2[1]
            if y2[0] == "aggr" and not y2[3]:
                return x_, y2[2], t
    return None
