"""Runner: rule bookkeeping, known findings, evidence, exit codes."""
import importlib
import json
import os
import sys
import time
import traceback

from . import facts, model

VERIF = facts.VERIF
KNOWN_FILE = os.path.join(VERIF, "KNOWN_FINDINGS.txt")


class Rule:
    def __init__(self, ctx, rid, statement, kind):
        self.ctx = ctx
        self.id = rid
        self.statement = statement
        self.kind = kind
        self.instances = []  # dicts: key, verdict(ok|violation|note|table), detail, loc
        self.floor_n = 0
        self.floor_what = ""

    def _add(self, verdict, key, detail, loc, extra=None):
        k = "%s|%s" % (self.id, key)
        # ordinal among equal keys
        n = sum(1 for i in self.instances if i["base_key"] == k)
        full = k if n == 0 else "%s#%d" % (k, n + 1)
        inst = {"key": full, "base_key": k, "verdict": verdict, "detail": detail, "loc": loc or "?"}
        if extra:
            inst["facts"] = extra
        self.instances.append(inst)
        return inst

    def ok(self, key, detail="", loc=None, how="AUTO"):
        i = self._add("ok", key, detail, loc)
        i["how"] = how
        return i

    def violation(self, key, detail, loc=None, facts=None):
        return self._add("violation", key, detail, loc, facts)

    def note(self, key, detail, loc=None):
        return self._add("note", key, detail, loc)

    def floor(self, n, what=""):
        """at least n instances (ok or violation) must have been examined, else the rule went blind"""
        self.floor_n = n
        self.floor_what = what

    def examined(self):
        return [i for i in self.instances if i["verdict"] in ("ok", "violation")]


THOROUGH_CFGS = ["optel", "openapi", "python"]


class Blind(Exception):
    """rule matched fewer instances than its floor: fail closed"""


class Ctx:
    def __init__(self, prop, tier, repo, seed):
        self.prop = prop
        self.tier = tier
        self.repo = repo
        self.seed = seed
        self.rules = []
        self.progs = {}
        self.assumptions = []
        self.not_decided = []
        self.explanation = ""
        self.analysed_functions = set()
        self.extra = {}
        self.fact_info = {}
        self.cfg = os.environ.get("FLAN_CFG", "default")

    def program(self, cfg=None, crate="flute"):
        cfg = cfg or self.cfg
        key = (cfg, crate)
        if key not in self.progs:
            paths, th, cached = facts.build_facts(self.repo, cfg)
            self.fact_info[cfg] = {"tree_hash": th, "cached": cached, "crates": sorted(paths)}
            self.progs[key] = model.Program(facts.load(paths[crate]))
        return self.progs[key]

    @property
    def prog(self):
        return self.program()

    def rule(self, rid, statement, kind=""):
        r = Rule(self, rid, statement, kind)
        self.rules.append(r)
        return r

    def analysed(self, *paths):
        self.analysed_functions.update(paths)

    def assume(self, text):
        if text not in self.assumptions:
            self.assumptions.append(text)


def load_known():
    known = {}
    fixed = []
    if os.path.exists(KNOWN_FILE):
        for line in open(KNOWN_FILE):
            line = line.rstrip("\n")
            if line.startswith("known: "):
                rest = line[len("known: "):]
                head, _, what = rest.partition(" :: ")
                parts = head.split(" ", 1)
                prop = parts[0].split("=", 1)[1]
                key = parts[1][len("key="):] if len(parts) > 1 and parts[1].startswith("key=") else ""
                known.setdefault(prop, {})[key] = what
            elif line.startswith("fixed: "):
                fixed.append(line)
    return known, fixed


def run_property(prop, tier="quick", repo="/repo", seed=0, replay=None, evidence_dir=None, quiet=False):
    """returns exit code"""
    t0 = time.time()
    evidence_dir = evidence_dir or os.path.join(VERIF, "evidence")
    os.makedirs(evidence_dir, exist_ok=True)
    ctx = Ctx(prop, tier, repo, seed)
    out = sys.stdout
    try:
        mod = importlib.import_module("flan.props.%s" % prop.lower())
        mod.run(ctx)
        if tier == "thorough" and "FLAN_CFG" not in os.environ:
            # thorough: the same rules over the other feature configurations of the crate that change library code
            # (cfg(feature = "opentelemetry") adds calls inside the sender/receiver state machines)
            for cfg in THOROUGH_CFGS:
                c2 = Ctx(prop, tier, repo, seed)
                c2.cfg = cfg
                mod.run(c2)
                for r in c2.rules:
                    r.id = "%s@%s" % (r.id, cfg)
                    r.cfg = cfg
                    ctx.rules.append(r)
                ctx.fact_info.update(c2.fact_info)
                ctx.analysed_functions |= c2.analysed_functions
                for a_ in c2.assumptions:
                    ctx.assume(a_)
        for r in ctx.rules:
            # a rule that already reports a violation explains its own shortfall (the violated instance replaced the
            # scenarios that would have been counted): the verdict is the violation, not "blind"
            if len(r.examined()) < r.floor_n and not any(i.get("verdict") == "violation" for i in r.examined()):
                raise Blind("rule %s examined %d instances, floor is %d (%s): the rule no longer sees the code it was "
                            "written for" % (r.id, len(r.examined()), r.floor_n, r.floor_what))
    except (model.AnchorMissing, Blind, facts.FactsError) as e:
        out.write("ERROR property=%s cannot be analysed (fail closed, not a verdict): %s\n" % (prop, e))
        _write_evidence(ctx, evidence_dir, t0, error=str(e))
        return 2
    except Exception:
        out.write("ERROR property=%s analyser exception (fail closed, not a verdict):\n%s\n" % (prop, traceback.format_exc()))
        _write_evidence(ctx, evidence_dir, t0, error="exception")
        return 2

    known, _fixed = load_known()
    known = known.get(prop, {})
    nviol = 0
    replay_dir = os.path.join(evidence_dir, "replay")
    printed_known = set()
    reported = set()
    for r in ctx.rules:
        for i in r.instances:
            if replay and i["key"] != replay:
                continue
            if i["verdict"] == "violation":
                if getattr(r, "cfg", None) and i["key"] in reported:
                    i["verdict"] = "violation-dup"   # same instance already reported for the default configuration
                    continue
                if i["key"] in known:
                    i["verdict"] = "known"
                    i["known"] = known[i["key"]]
                    if i["key"] not in printed_known:
                        printed_known.add(i["key"])
                        out.write("KNOWN-FINDING: property=%s %s [%s at %s]\n" % (prop, known[i["key"]], i["key"], i["loc"]))
                    continue
                nviol += 1
                reported.add(i["key"])
                os.makedirs(replay_dir, exist_ok=True)
                rp = os.path.join(replay_dir, "%s-%d.json" % (prop, nviol))
                with open(rp, "w") as fh:
                    json.dump({"property": prop, "rule": r.id, "rule_statement": r.statement, "key": i["key"],
                               "loc": i["loc"], "detail": i["detail"], "facts": i.get("facts"),
                               "replay_cmd": "./check %s --replay-key %s" % (prop, json.dumps(i["key"]))}, fh, indent=1)
                out.write("  rule %s [%s]: %s\n" % (r.id, r.kind, r.statement))
                out.write("  at %s: %s\n  key: %s\n" % (i["loc"], i["detail"], i["key"]))
                out.write("VIOLATION property=%s replay=%s\n" % (prop, rp))
            elif i["verdict"] == "note" and not quiet:
                out.write("NOTE %s at %s: %s\n" % (i["key"], i["loc"], i["detail"]))
    # known entries that no longer match anything are reported (not an error: the defect may be fixed)
    for k in known:
        if k not in printed_known and not replay:
            out.write("INFO known finding no longer reported (fixed or code moved): %s\n" % k)
    _write_evidence(ctx, evidence_dir, t0, nviol=nviol)
    if not quiet:
        tot = sum(len(r.examined()) for r in ctx.rules)
        out.write("%s: %d rule(s), %d instance(s) examined, %d violation(s), %d known, %.1fs\n" % (
            prop, len(ctx.rules), tot, nviol, len(printed_known), time.time() - t0))
    return 1 if nviol else 0


def _write_evidence(ctx, evidence_dir, t0, nviol=0, error=None):
    rules = []
    samples = []
    obligations = 0
    discharged = 0
    keys = set()
    for r in ctx.rules:
        ex = r.examined()
        counts = {}
        for i in r.instances:
            counts[i["verdict"]] = counts.get(i["verdict"], 0) + 1
        obligations += len([i for i in r.instances if i["verdict"] in ("ok", "violation", "known")])
        discharged += len([i for i in r.instances if i["verdict"] == "ok"])
        for i in r.instances:
            keys.add(i["key"])
        rules.append({"rule": r.id, "kind": r.kind, "statement": r.statement, "floor": r.floor_n,
                      "instances": len(r.instances), "counts": counts})
        shown = 0
        for i in r.instances:
            if i["verdict"] != "ok" or shown < 4:
                s = {"rule": r.id, "key": i["key"], "loc": i["loc"], "verdict": i["verdict"],
                     "detail": i["detail"][:600]}
                if "how" in i:
                    s["how"] = i["how"]
                if "known" in i:
                    s["known"] = i["known"]
                samples.append(s)
                if i["verdict"] == "ok":
                    shown += 1
    cov = {
        "explanation": ctx.explanation or "static rules over MIR facts of /repo's current tree",
        "obligations": obligations,
        "discharged": discharged,
        "evaluations": max(obligations, 1),
        "distinct_nontrivial": len(keys),
        "rule": "one evaluation = one rule instance (call site, assignment, branch edge, function or type fact) "
                "found in the MIR of the current tree and decided by the named rule; distinct = distinct instance keys "
                "(function path + normalised operand text), all non-trivial by construction (each is a site the "
                "rule's slot matched)",
        "samples": samples[:80],
        "rules": rules,
        "functions_analysed": len(ctx.analysed_functions),
        "functions_analysed_list": sorted(ctx.analysed_functions)[:200],
        "facts": ctx.fact_info,
        "not_decided": ctx.not_decided,
        "checker_cmd": "./check %s --tier %s" % (ctx.prop, ctx.tier),
        "trusted_base": ["rustc nightly (type check, MIR construction, callee resolution)", "mirdump fact exporter",
                         "flan rule engine", "std/library models listed in assumptions"],
        "exhaustive": True,
    }
    cov.update(ctx.extra)
    if error:
        cov["error"] = error
    ev = {
        "property_id": ctx.prop,
        "tier": ctx.tier,
        "seed": ctx.seed,
        "level": "other",
        "coverage": cov,
        "assumptions": ctx.assumptions,
        "wall_s": round(time.time() - t0, 2),
        "violations": nviol,
    }
    with open(os.path.join(evidence_dir, "%s.json" % ctx.prop), "w") as fh:
        json.dump(ev, fh, indent=1)


def main(argv=None):
    import argparse
    ap = argparse.ArgumentParser(prog="check")
    ap.add_argument("prop")
    ap.add_argument("--tier", default=os.environ.get("VERIF_TIER", "quick"))
    ap.add_argument("--repo", default="/repo")
    ap.add_argument("--replay", default=None, help="replay file written by an earlier violation")
    ap.add_argument("--replay-key", default=None)
    ap.add_argument("--evidence-dir", default=None)
    ap.add_argument("--quiet", action="store_true")
    a = ap.parse_args(argv)
    seed = int(os.environ.get("VERIF_SEED", "0") or 0)
    key = a.replay_key
    if a.replay:
        key = json.load(open(a.replay))["key"]
    tier = a.tier if a.tier in ("quick", "thorough") else "quick"
    if a.prop.lower() == "all":
        rc = 0
        for n in range(1, 21):
            rc = max(rc, run_property("C%02d" % n, tier, a.repo, seed, key, a.evidence_dir, a.quiet))
        return rc
    return run_property(a.prop.upper(), tier, a.repo, seed, key, a.evidence_dir, a.quiet)


if __name__ == "__main__":
    sys.exit(main())
