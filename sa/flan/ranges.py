"""E4 — forward range interpreter over MIR: integer intervals per access path, pseudo-paths for slice/Vec
lengths (P#len), Some/None/Ok/Err-ness of Option/Result paths, and difference facts  a + c <= b.
Used to discharge panic sites (C04), arm ranges (C15), masks (C10), narrow shifts (C06), divisors (C14)."""
import re

from . import model
from .model import X, show, loc, norm_path

INF = float("inf")

INT_BOUNDS = {
    "u8": (0, 2 ** 8 - 1), "u16": (0, 2 ** 16 - 1), "u32": (0, 2 ** 32 - 1), "u64": (0, 2 ** 64 - 1),
    "u128": (0, 2 ** 128 - 1), "usize": (0, 2 ** 64 - 1),
    "i8": (-2 ** 7, 2 ** 7 - 1), "i16": (-2 ** 15, 2 ** 15 - 1), "i32": (-2 ** 31, 2 ** 31 - 1),
    "i64": (-2 ** 63, 2 ** 63 - 1), "i128": (-2 ** 127, 2 ** 127 - 1), "isize": (-2 ** 63, 2 ** 63 - 1),
    "bool": (0, 1), "char": (0, 0x10FFFF),
}
LEN_TOP = (0, 2 ** 63 - 1)


def ty_bounds(ty):
    return INT_BOUNDS.get(ty)


class State:
    __slots__ = ("iv", "rel", "opt", "org")

    def __init__(self, iv=None, rel=None, opt=None, org=None):
        self.iv = iv if iv is not None else {}
        self.rel = rel if rel is not None else set()
        self.opt = opt if opt is not None else {}
        self.org = org if org is not None else {}

    def copy(self):
        return State(dict(self.iv), set(self.rel), dict(self.opt), dict(self.org))

    def key(self):
        return (tuple(sorted(self.iv.items())), tuple(sorted(self.rel)), tuple(sorted(self.opt.items())),
                tuple(sorted((k, repr(v)) for k, v in self.org.items())))

    def kill(self, path):
        """forget everything about `path` and its sub-paths (fields, #len)"""
        def hit(k):
            return k == path or k.startswith(path + ".") or k.startswith(path + "#") or k.startswith(path + "@") or k.startswith(path + "[")
        for d in (self.iv, self.opt, self.org):
            for k in [k for k in d if hit(k)]:
                del d[k]
        self.rel = set(f for f in self.rel if not hit(f[0]) and not hit(f[1]))
        for k in [k for k, o in self.org.items() if _org_mentions(o, hit)]:
            del self.org[k]

    def kill_prefix_roots(self, pred):
        for d in (self.iv, self.opt, self.org):
            for k in [k for k in d if pred(k)]:
                del d[k]
        self.rel = set(f for f in self.rel if not pred(f[0]) and not pred(f[1]))
        for k in [k for k, o in self.org.items() if _org_mentions(o, pred)]:
            del self.org[k]


def _org_mentions(o, hit):
    if o[0] == "when":
        if any(hit(pth) for pth, _ in o[3]):
            return True
        return o[2] is not None and _org_mentions(o[2], hit)
    for x in o[1:]:
        if isinstance(x, tuple) and len(x) == 2 and x[0] == "p" and hit(x[1]):
            return True
        if isinstance(x, str) and hit(x):
            return True
    return False


def _other_variant(st, k):
    """key k = base@Variant… : True iff state st knows that `base` holds a different variant (so k is vacuous there)"""
    i = k.find("@")
    if i < 0:
        return False
    base = k[:i]
    m = re.match(r"@(\w+)", k[i:])
    cur = st.opt.get(base)
    return cur is not None and m is not None and cur != m.group(1)


def join(a, b):
    iv = {}
    for k, v in a.iv.items():
        w = b.iv.get(k)
        if w is not None:
            iv[k] = (min(v[0], w[0]), max(v[1], w[1]))
        elif _other_variant(b, k):
            iv[k] = v
    for k, w in b.iv.items():
        if k not in a.iv and _other_variant(a, k):
            iv[k] = w
    opt = {k: v for k, v in a.opt.items() if b.opt.get(k) == v}
    org = {k: v for k, v in a.org.items() if b.org.get(k) == v}
    # short-circuit booleans (`x.is_some() && y.is_some()`, or a helper returning it, once inlined): the local is the constant false on every
    # path but one; if it is true after the join it was defined on that one path, so what was known there holds (dually for `||`)
    for k in set(a.iv) | set(b.iv):
        if k in org:
            continue
        for (s1, s2) in ((a, b), (b, a)):
            c = s2.iv.get(k)
            v1 = s1.iv.get(k)
            if c in ((0, 0), (1, 1)) and v1 is not None and v1 != c and v1[0] >= 0 and v1[1] <= 1 and s2.org.get(k) is None:
                truth = c == (0, 0)          # the value the local can only have on the s1 side
                o1 = s1.org.get(k)
                if o1 is not None and o1[0] == "when":
                    if o1[1] == truth:
                        org[k] = o1
                    break
                snap = tuple(sorted(s1.opt.items()))
                if snap or o1 is not None:
                    org[k] = ("when", truth, o1, snap)
                break
    return State(iv, a.rel & b.rel, opt, org)


def widen(old, new, nvis):
    """old: previous entry state, new: joined state"""
    iv = {}
    for k, v in new.iv.items():
        o = old.iv.get(k)
        if o is None:
            continue
        lo = v[0] if v[0] >= o[0] else -INF
        hi = v[1] if v[1] <= o[1] else INF
        iv[k] = (lo, hi)
    s = State(iv, new.rel & old.rel, {k: v for k, v in new.opt.items() if old.opt.get(k) == v},
              {k: v for k, v in new.org.items() if old.org.get(k) == v})
    return s


class Site:
    def __init__(self, func, bb, kind, text, sp, status, detail, expn=None):
        self.func, self.bb, self.kind, self.text, self.sp, self.status, self.detail = func, bb, kind, text, sp, status, detail
        self.expn = expn or []

    @property
    def loc(self):
        return loc(self.sp)

    def key(self):
        return "%s|%s|%s" % (self.func.path, self.kind, self.text)


# panicking std APIs (frozen list): regex on normalised callee path -> kind
PANIC_CALLS = [
    (r"(core|std)::option::Option::(unwrap|expect)$", "unwrap"),
    (r"(core|std)::result::Result::(unwrap|expect|unwrap_err|expect_err)$", "unwrap"),
    (r"ops::(index::)?Index(Mut)?.*::index(_mut)?$", "index"),
    (r"slice::.*::copy_from_slice$|slice::.*::clone_from_slice$", "copy_from_slice"),
    (r"slice::.*::(split_at|split_at_mut|swap|chunks|chunks_exact|chunks_mut|windows|rotate_left|rotate_right)$", "slice-api"),
    (r"(alloc|std)::vec::Vec::(remove|insert|swap_remove|drain|split_off|truncate_front)$", "vec-api"),
    (r"vec_deque::VecDeque::(remove|insert|swap|drain|split_off)$", "vecdeque-api"),
    (r"cell::RefCell::(borrow|borrow_mut)$", "refcell"),
    (r"ops::(arith::)?(Add|Sub|AddAssign|SubAssign|Mul|Div|Rem|Neg).*::(add|sub|add_assign|sub_assign|mul|div|rem|neg)$", "op-trait"),
    (r"time::Duration::(div_f64|div_f32|mul_f64|mul_f32|from_secs_f64|from_secs_f32)$", "duration-float"),
    (r"num_integer::.*(div_ceil|div_floor|mod_floor|div_rem|div_mod_floor)$|Integer::(div_ceil|div_floor|mod_floor)$", "int-div"),
    (r"num::.*::(div_ceil|next_multiple_of|pow|ilog2|ilog10|ilog|isqrt|abs|div_euclid|rem_euclid|strict_\w+)$", "int-api"),
    (r"(core|std)::panicking::|std::rt::begin_panic|core::panic::|core::option::(unwrap_failed|expect_failed)|core::result::unwrap_failed|"
     r"core::slice::index::slice_|core::str::slice_error_fail", "panic"),
    (r"str::.*::(split_at|split_at_mut)$|string::String::(insert|insert_str|remove|truncate|split_off|drain|replace_range)$", "str-api"),
    (r"sync::(poison::)?(mutex::)?Mutex.*::lock$|RwLock.*::(read|write)$", "lock"),
    (r"alloc::vec::from_elem$|Vec::with_capacity$|Vec::reserve$|Vec::resize$|Vec::resize_with$|VecDeque::with_capacity$", "alloc"),
    (r"slice::.*::(first|last)$", None),
]
PANIC_CALLS = [(re.compile(r), k) for r, k in PANIC_CALLS]


def panic_call_kind(path):
    for r, k in PANIC_CALLS:
        if r.search(path):
            return k
    return None


class Ranges:
    def __init__(self, prog, func, params=None, field_invariants=None, ret_models=None):
        self.prog = prog
        self.func = func
        self.body = func.body
        self.x = X(self.body)
        self.params = params or {}
        self.field_inv = field_invariants or {}   # path regex -> (lo, hi)
        self.ret_models = ret_models or {}
        self.ptr = {}
        self._init_ptr()
        self.entry = {}
        self.sites = []
        self.lossy = []
        self.exit_states = []
        self.call_states = []
        self.nvis = {}

    # ---- paths ---------------------------------------------------------------------------
    def _init_ptr(self):
        b = self.body
        for blk in b.blocks:
            for s in blk.stmts:
                if s.k == "assign" and not s.lhs[1] and s.rv.k in ("ref", "rawptr") and s.lhs[0] not in b.names:
                    if b.single_def(s.lhs[0]) is not None:
                        self.ptr[s.lhs[0]] = s.rv.place
                elif s.k == "assign" and not s.lhs[1] and s.rv.k == "ref" and s.lhs[0] in b.names and s.lhs[0] > b.argc:
                    # a named reference that is bound exactly once (`(size, _, al) if size % al != 0` binds `size`, `al` by reference in the guard)
                    ds_ = b.defs().get(s.lhs[0], [])
                    if len(ds_) == 1 and ds_[0][2] == "whole":
                        self.ptr[s.lhs[0]] = s.rv.place

    def path(self, pl, depth=12):
        """canonical path string of a place (through reference temps)"""
        local, proj = pl
        b = self.body
        while depth > 0 and local in self.ptr and proj and proj[0][0] == "*":
            tl, tp = self.ptr[local]
            local, proj = tl, tp + proj[1:]
            depth -= 1
        # copies of references: _5 = copy _4 (single def) with deref
        while depth > 0 and proj and proj[0][0] == "*" and local not in b.names and local > b.argc:
            sd = b.single_def(local)
            if sd is None or sd[1] == "term":
                break
            rv = b.blocks[sd[0]].stmts[sd[1]].rv
            if rv.k == "use" and rv.ops[0].place is not None and not rv.j.get("cfd") is None or (rv.k == "use" and rv.ops[0].place is not None):
                ql, qp = rv.ops[0].place
                local, proj = ql, qp + proj
                depth -= 1
                while depth > 0 and local in self.ptr and proj and proj[0][0] == "*":
                    tl, tp = self.ptr[local]
                    local, proj = tl, tp + proj[1:]
                    depth -= 1
            else:
                break
        nm = b.names.get(local)
        if nm is None:
            for (nl, nproj), name in b.named_places:
                pnd = [e for e in proj if e[0] != "*"]
                nnd = [e for e in nproj if e[0] != "*"]
                if nl == local and pnd[:len(nnd)] == nnd:
                    nm = name
                    proj = tuple(pnd[len(nnd):])
                    break
        root = ("%s'%d" % (nm, local)) if nm is not None else "_%d" % local
        s = root
        for e in proj:
            k = e[0]
            if k == "*":
                continue
            if k == "f":
                s += "." + e[2]
            elif k == "d":
                s += "@" + e[2]
            elif k in ("i", "ci", "ss"):
                s += "[*]"
            else:
                s += ".?"
        return s

    def place_ty(self, pl):
        local, proj = pl
        ty = self.body.locals[local]["ty"]
        for e in proj:
            if e[0] == "f":
                ty = e[4]
            elif e[0] == "*":
                ty = re.sub(r"^&('\w+ )?(mut )?", "", ty)
                ty = re.sub(r"^\*(const|mut) ", "", ty)
                m = re.match(r"^(std::boxed::Box|alloc::boxed::Box)<(.*)>$", ty)
                if m:
                    ty = m.group(2)
            elif e[0] in ("i", "ci"):
                m = re.match(r"^\[(.*?)(; \d+)?\]$", ty)
                ty = m.group(1) if m else "?"
            elif e[0] == "d":
                pass
            else:
                ty = "?"
        return ty

    def top_of(self, ty, path=None):
        if path is not None:
            for rx_, b in self.field_inv.items():
                if re.search(rx_, path):
                    return b
        return ty_bounds(ty)

    # ---- evaluation ------------------------------------------------------------------------
    def read(self, st, pl):
        p = self.path(pl)
        if "[*]" in p:
            return self.top_of(self.place_ty(pl), p)
        v = st.iv.get(p)
        if v is not None:
            return v
        if p.endswith("#len"):
            return LEN_TOP
        return self.top_of(self.place_ty(pl), p)

    def operand(self, st, op):
        """-> (interval or None, ('p', path) | ('c', v) | None)"""
        if op.kind in ("copy", "move"):
            p = self.path(op.place)
            return self.read(st, op.place), ("p", p)
        if op.kind == "const":
            v = op.value()
            if isinstance(v, bool):
                return (int(v), int(v)), ("c", int(v))
            if isinstance(v, int):
                return (v, v), ("c", v)
            b = ty_bounds(op.const.get("ty", ""))
            return b, None
        return None, None

    def clamp(self, iv, ty):
        b = ty_bounds(ty)
        if iv is None:
            return b
        if b is None:
            return iv
        if iv[0] >= b[0] and iv[1] <= b[1]:
            return iv
        return b

    def binop(self, op, a, b, ty):
        """exact interval of the mathematical result (not wrapped)"""
        if a is None or b is None:
            return None
        op = op.replace("WithOverflow", "").replace("Unchecked", "")
        try:
            if op == "Add":
                return (a[0] + b[0], a[1] + b[1])
            if op == "Sub":
                return (a[0] - b[1], a[1] - b[0])
            if op == "Mul":
                c = [x * y for x in a for y in b if not (abs(x) == INF and y == 0) and not (abs(y) == INF and x == 0)]
                return (min(c), max(c)) if c else None
            if op == "Div":
                if b[0] >= 1 and a[0] >= 0:
                    return (a[0] // b[1] if b[1] != INF else 0, a[1] // b[0] if a[1] != INF else INF)
                return None
            if op == "Rem":
                if b[0] >= 1 and a[0] >= 0:
                    return (0, min(a[1], b[1] - 1))
                return None
            if op == "BitAnd":
                if a[0] >= 0 and b[0] >= 0:
                    return (0, min(a[1], b[1]))
                if b[0] >= 0:
                    return (0, b[1])
                if a[0] >= 0:
                    return (0, a[1])
                return None
            if op in ("BitOr", "BitXor"):
                if a[0] >= 0 and b[0] >= 0 and a[1] != INF and b[1] != INF:
                    n = max(int(a[1]).bit_length(), int(b[1]).bit_length())
                    return (0 if op == "BitXor" else max(a[0], b[0]), (1 << n) - 1)
                return None
            if op == "Shl":
                if b[0] >= 0 and b[1] != INF and b[1] < 256 and a[0] >= 0 and a[1] != INF:
                    return (int(a[0]) << int(b[0]), int(a[1]) << int(b[1]))
                return None
            if op == "Shr":
                if b[0] >= 0 and b[1] != INF and b[1] < 256 and a[0] >= 0:
                    return (int(a[0]) >> int(b[1]) if a[0] != INF else 0, (int(a[1]) >> int(b[0])) if a[1] != INF else INF)
                return None
            if op in ("Eq", "Ne", "Lt", "Le", "Gt", "Ge"):
                t = self.cmp_truth(op, a, b)
                return (t, t) if t is not None else (0, 1)
        except (OverflowError, ValueError):
            return None
        return None

    @staticmethod
    def cmp_truth(op, a, b):
        if op == "Lt":
            return 1 if a[1] < b[0] else (0 if a[0] >= b[1] else None)
        if op == "Le":
            return 1 if a[1] <= b[0] else (0 if a[0] > b[1] else None)
        if op == "Gt":
            return 1 if a[0] > b[1] else (0 if a[1] <= b[0] else None)
        if op == "Ge":
            return 1 if a[0] >= b[1] else (0 if a[1] < b[0] else None)
        if op == "Eq":
            return 1 if a[0] == a[1] == b[0] == b[1] else (0 if a[1] < b[0] or b[1] < a[0] else None)
        if op == "Ne":
            return 0 if a[0] == a[1] == b[0] == b[1] else (1 if a[1] < b[0] or b[1] < a[0] else None)
        return None

    # ---- difference facts --------------------------------------------------------------------
    def leq(self, st, a, b, c, depth=8):
        """prove val(a) + c <= val(b) ; a, b are ('p', path) or ('c', v).
        Facts (x, y, k) mean x + k <= y.  Search: best known k with a + k <= node, for every node reachable from a."""
        if a is None or b is None:
            return False
        if a[0] == "c" and b[0] == "c":
            return a[1] + c <= b[1]

        def iv_of(o):
            if o[0] == "c":
                return (o[1], o[1])
            v = st.iv.get(o[1])
            if v is None and o[1].endswith("#len"):
                v = LEN_TOP
            return v

        ia, ib = iv_of(a), iv_of(b)
        if ia is not None and ib is not None and ia[1] + c <= ib[0]:
            return True
        if a[0] == "p" and b[0] == "p" and a[1] == b[1]:
            return c <= 0
        # lower bounds reachable from a:  a + k <= n
        if a[0] == "p":
            best = {a[1]: 0}
            frontier = [a[1]]
            adj = {}
            for (fa, fb, fc) in st.rel:
                adj.setdefault(fa, []).append((fb, fc))
            for _ in range(depth):
                nxt = []
                for n in frontier:
                    for (m, k) in adj.get(n, ()):
                        nk = best[n] + k
                        if m not in best or nk > best[m]:
                            best[m] = nk
                            nxt.append(m)
                frontier = nxt
                if not frontier:
                    break
            if b[0] == "p":
                if b[1] in best and best[b[1]] >= c:
                    return True
                # a + k <= n and n.hi <= b.lo - ...
                if ib is not None:
                    for n, k in best.items():
                        vn = st.iv.get(n)
                        # a <= n - k <= n.hi - k ; need a + c <= b.lo
                        if vn is not None and vn[1] != INF and vn[1] - k + c <= ib[0]:
                            return True
            else:
                for n, k in best.items():
                    vn = st.iv.get(n)
                    if vn is not None and vn[1] != INF and vn[1] - k + c <= b[1]:
                        return True
        if b[0] == "p" and a[0] == "c":
            # nodes n with n + k <= b : b >= n.lo + k
            for (fa, fb, fc) in st.rel:
                if fb == b[1]:
                    ifa = st.iv.get(fa)
                    if ifa is not None and a[1] + c <= ifa[0] + fc:
                        return True
        return False

    def add_rel(self, st, a, b, c):
        if a[0] == "p" and b[0] == "p" and a[1] != b[1]:
            st.rel.add((a[1], b[1], c))
        elif a[0] == "p" and b[0] == "c":
            iv = st.iv.get(a[1]) or (-INF, INF)
            st.iv[a[1]] = (iv[0], min(iv[1], b[1] - c))
        elif a[0] == "c" and b[0] == "p":
            iv = st.iv.get(b[1]) or (-INF, INF)
            st.iv[b[1]] = (max(iv[0], a[1] + c), iv[1])

    # ---- refinement ------------------------------------------------------------------------------
    def refine_cmp(self, st, op, A, B, truth):
        """assume (A op B) == truth. returns False if infeasible"""
        if not truth:
            op = {"Lt": "Ge", "Le": "Gt", "Gt": "Le", "Ge": "Lt", "Eq": "Ne", "Ne": "Eq"}[op]
        if op == "Gt":
            return self.refine_cmp(st, "Lt", B, A, True)
        if op == "Ge":
            return self.refine_cmp(st, "Le", B, A, True)

        def iv_of(o):
            if o is None:
                return None
            if o[0] == "c":
                return (o[1], o[1])
            v = st.iv.get(o[1])
            if v is None and o[1].endswith("#len"):
                v = LEN_TOP
            if v is None:
                # a plain local of integer type that nothing is known about yet: its type's range (an unsigned parameter is >= 0)
                m_ = re.match(r"^(?:.*'|_)(\d+)$", o[1])
                if m_ and int(m_.group(1)) < len(self.body.locals):
                    v = ty_bounds(self.body.locals[int(m_.group(1))]["ty"])
            return v if v is not None else (-INF, INF)

        a, b = iv_of(A), iv_of(B)
        if a is None or b is None:
            return True

        def setp(o, v):
            if o[0] == "p" and "[*]" not in o[1]:
                st.iv[o[1]] = v
                self.propagate(st, o[1])

        if op in ("Lt", "Le"):
            d = 1 if op == "Lt" else 0
            na = (a[0], min(a[1], b[1] - d))
            nb = (max(b[0], a[0] + d), b[1])
            if na[0] > na[1] or nb[0] > nb[1]:
                return False
            setp(A, na)
            setp(B, nb)
            self.add_rel(st, A, B, d)
        elif op == "Eq":
            n = (max(a[0], b[0]), min(a[1], b[1]))
            if n[0] > n[1]:
                return False
            setp(A, n)
            setp(B, n)
            self.add_rel(st, A, B, 0)
            self.add_rel(st, B, A, 0)
        elif op == "Ne":
            if a[0] == a[1] == b[0] == b[1]:
                return False
            if b[0] == b[1]:
                if a[0] == b[0]:
                    setp(A, (a[0] + 1, a[1]))
                elif a[1] == b[0]:
                    setp(A, (a[0], a[1] - 1))
            if a[0] == a[1]:
                if b[0] == a[0]:
                    setp(B, (b[0] + 1, b[1]))
                elif b[1] == a[0]:
                    setp(B, (b[0], b[1] - 1))
        return True

    def propagate(self, st, p, depth=3):
        """push a refined interval of temp p back to what it was computed from (widening casts, copies, +c)"""
        if depth <= 0:
            return
        o = st.org.get(p)
        if o is None:
            return
        v = st.iv.get(p)
        if v is None:
            return
        if o[0] in ("alias", "addc") and "[*]" in o[1]:
            return
        if o[0] == "alias":
            q = o[1]
            w = st.iv.get(q) or ((LEN_TOP) if q.endswith("#len") else (-INF, INF))
            n = (max(w[0], v[0]), min(w[1], v[1]))
            if n[0] <= n[1]:
                st.iv[q] = n
                self.propagate(st, q, depth - 1)
        elif o[0] == "addc":
            q, c = o[1], o[2]
            w = st.iv.get(q) or (-INF, INF)
            n = (max(w[0], v[0] - c), min(w[1], v[1] - c))
            if n[0] <= n[1]:
                st.iv[q] = n
                self.propagate(st, q, depth - 1)

    def refine_bool(self, st, src, truth):
        """assume operand description src (('p', path)) is true/false; False if infeasible"""
        if src is None or src[0] != "p":
            return True
        p = src[1]
        v = st.iv.get(p)
        if v is not None:
            if truth and v[1] < 1:
                return False
            if not truth and v[0] > 0:
                return False
        st.iv[p] = (1, 1) if truth else (0, 0)
        o = st.org.get(p)
        if o is None:
            return True
        if o[0] == "when":
            if truth != o[1]:
                return True
            for pth, var in o[3]:
                cur = st.opt.get(pth)
                if cur is not None and cur != var:
                    return False
                st.opt[pth] = var
            if o[2] is not None:
                saved = st.org.get(p)
                st.org[p] = o[2]
                try:
                    return self.refine_bool(st, src, truth)
                finally:
                    if saved is not None:
                        st.org[p] = saved
            return True
        if o[0] == "cmp":
            return self.refine_cmp(st, o[1], o[2], o[3], truth)
        if o[0] == "not":
            return self.refine_bool(st, ("p", o[1]), not truth)
        if o[0] == "alias":
            return self.refine_bool(st, ("p", o[1]), truth)
        if o[0] == "is":  # ('is', path, variant, polarity)
            want = o[2] if (truth == o[3]) else _other(o[2])
            cur = st.opt.get(o[1])
            if cur is not None and want is not None and cur != want:
                return False
            if want is not None:
                st.opt[o[1]] = want
            return True
        return True

    # ---- transfer ----------------------------------------------------------------------------------
    def assign(self, st, lhs, rv, blk_i, sp=None):
        p = self.path(lhs)
        val = None
        org = None
        sub = {}      # sub-path suffix -> interval
        subopt = {}
        eqs = []      # (suffix, path) equalities
        fld_alias = []   # (suffix, path): the field is a copy of that path
        optv = None
        k = rv.k
        lty = self.place_ty(lhs)
        if k == "use":
            op = rv.ops[0]
            val, src = self.operand(st, op)
            if src and src[0] == "p":
                q = src[1]
                org = ("alias", q) if not q.startswith("_") or True else None
                for kk, vv in st.iv.items():
                    if kk.startswith(q) and kk[len(q):len(q) + 1] in (".", "#", "@"):
                        sub[kk[len(q):]] = vv
                for kk, vv in st.opt.items():
                    if kk == q:
                        optv = vv
                    elif kk.startswith(q) and kk[len(q):len(q) + 1] in (".", "@"):
                        subopt[kk[len(q):]] = vv
                o2 = st.org.get(q)
                if o2 is not None and o2[0] in ("cmp", "not", "is"):
                    org = o2
        elif k == "bin":
            a, sa = self.operand(st, rv.ops[0])
            b, sb = self.operand(st, rv.ops[1])
            op = rv.j["op"]
            res = self.binop(op, a, b, lty)
            if op.endswith("WithOverflow"):
                ety = re.sub(r"^\((\w+), bool\)$", r"\1", lty)
                bnd = ty_bounds(ety)
                sub[".0"] = res if res is not None else (-INF, INF)
                if res is not None and bnd is not None and res[0] >= bnd[0] and res[1] <= bnd[1]:
                    sub[".1"] = (0, 0)
                else:
                    sub[".1"] = (0, 1)
                base = op[:-len("WithOverflow")]
                st.kill(p)
                for sfx, vv in sub.items():
                    st.iv[p + sfx] = vv
                self._arith_rel(st, p + ".0", base, sa, sb, a, b)
                return
            if op in ("Eq", "Ne", "Lt", "Le", "Gt", "Ge"):
                val = res
                org = ("cmp", op, sa, sb)
            else:
                if op == "Shl" and res is not None:
                    bnd = ty_bounds(lty)
                    if bnd is not None and res[1] > bnd[1]:
                        self.lossy.append((blk_i, sp, lty, a, b, show(self.x.rvalue(rv, self.x.depth), 120)))
                val = self.clamp(res, lty) if res is not None else ty_bounds(lty)
                st.kill(p)
                if val is not None:
                    st.iv[p] = val
                self._arith_rel(st, p, op, sa, sb, a, b)
                return
        elif k == "un":
            a, sa = self.operand(st, rv.ops[0])
            op = rv.j["op"]
            if op == "Not" and lty == "bool":
                val = (1 - a[1], 1 - a[0]) if a else (0, 1)
                if sa and sa[0] == "p":
                    org = ("not", sa[1])
            elif op == "PtrMetadata":
                if sa and sa[0] == "p":
                    q = sa[1] + "#len"
                    val = st.iv.get(q, LEN_TOP)
                    org = ("alias", q)
                else:
                    val = LEN_TOP
            elif op == "Neg" and a is not None:
                val = self.clamp((-a[1], -a[0]), lty)
            else:
                val = ty_bounds(lty)
        elif k == "cast":
            a, sa = self.operand(st, rv.ops[0])
            tb = ty_bounds(rv.j["ty"])
            if rv.j["kind"] == "IntToInt" and a is not None and tb is not None:
                if a[0] >= tb[0] and a[1] <= tb[1]:
                    val = a
                    if sa and sa[0] == "p":
                        org = ("alias", sa[1])
                else:
                    val = tb
            elif rv.j["kind"].startswith("PointerCoercion") and sa and sa[0] == "p":
                # &[T; N] -> &[T] / Vec deref etc.: keep length if known from the array type
                q = sa[1]
                m = re.search(r"\[[^;\]]+; (\d+)\]", self.body.locals[rv.ops[0].place[0]]["ty"]) if rv.ops[0].place else None
                if m:
                    sub["#len"] = (int(m.group(1)), int(m.group(1)))
                elif q + "#len" in st.iv:
                    sub["#len"] = st.iv[q + "#len"]
                val = None
            else:
                val = tb
        elif k == "discr":
            q = self.path(rv.place)
            vt = {n: int(v) for v, n in rv.j.get("variants", [])}
            cur = st.opt.get(q)
            if cur is not None and cur in vt:
                val = (vt[cur], vt[cur])
            else:
                val = (min(vt.values()), max(vt.values())) if vt else None
            org = ("discr", q, tuple(sorted(vt.items())))
        elif k == "aggr":
            ak = rv.j.get("ak")
            if ak == "adt":
                names = rv.j.get("fnames", [])
                variant = rv.j.get("variant")
                adt = rv.j.get("adt", "")
                pre = ""
                if adt.endswith("option::Option") or adt.endswith("result::Result"):
                    optv = variant
                    pre = "@" + variant
                elif self.prog.adts.get(adt, {}).get("kind") == "enum":
                    optv = variant
                    pre = "@" + variant
                for i, o in enumerate(rv.ops):
                    v, so = self.operand(st, o)
                    nm = names[i] if i < len(names) else str(i)
                    if v is not None:
                        sub[pre + "." + nm] = v
                    if so and so[0] == "p" and v is not None:
                        eqs.append((pre + "." + nm, so[1]))
                    if so and so[0] == "p":
                        for kk, vv in st.iv.items():
                            if kk.startswith(so[1]) and kk[len(so[1]):len(so[1]) + 1] in (".", "#", "@"):
                                sub[pre + "." + nm + kk[len(so[1]):]] = vv
            elif ak == "tuple":
                for i, o in enumerate(rv.ops):
                    v, so = self.operand(st, o)
                    if v is not None:
                        sub[".%d" % i] = v
                    if so and so[0] == "p" and v is not None:
                        eqs.append((".%d" % i, so[1]))
                    if so and so[0] == "p":
                        # `match (a, b, c) { (0, _, _) => .. }`: a test of the tuple's field is a test of the value copied into it
                        fld_alias.append((".%d" % i, so[1]))
                    if so and so[0] == "p":
                        for kk, vv in st.iv.items():
                            if kk.startswith(so[1]) and kk[len(so[1]):len(so[1]) + 1] in (".", "#", "@"):
                                sub[".%d" % i + kk[len(so[1]):]] = vv
                        ov = st.opt.get(so[1])
                        if ov is not None:
                            subopt[".%d" % i] = ov
            elif ak == "array":
                sub["#len"] = (len(rv.ops), len(rv.ops))
        elif k == "ref":
            q = self.path(rv.place)
            ln = st.iv.get(q + "#len")
            if ln is not None:
                sub["#len"] = ln
            m = re.match(r"^\[[^;\]]+; (\d+)\]$", self.place_ty(rv.place))
            if m:
                sub["#len"] = (int(m.group(1)), int(m.group(1)))
            org = ("refto", q)
            ov = st.opt.get(q)
            if ov is not None:
                optv = ov
        elif k == "repeat":
            m = re.match(r"^(\d+)", rv.j.get("n") or "")
            if m:
                sub["#len"] = (int(m.group(1)), int(m.group(1)))
        elif k == "len":
            val = LEN_TOP
        else:
            val = ty_bounds(lty)
        st.kill(p)
        if "[*]" in p:
            return
        if org is not None and org[0] in ("alias", "addc") and "[*]" in org[1]:
            org = None
        if val is not None:
            st.iv[p] = val
        for sfx, vv in sub.items():
            st.iv[p + sfx] = vv
        for sfx, vv in subopt.items():
            st.opt[p + sfx] = vv
        for (sfx, q) in eqs:
            if "[*]" not in q:
                st.rel.add((p + sfx, q, 0))
                st.rel.add((q, p + sfx, 0))
        for (sfx, q) in fld_alias:
            if "[*]" not in q and "[*]" not in p:
                st.org[p + sfx] = ("alias", q)
        if optv is not None:
            st.opt[p] = optv
        if org is not None:
            st.org[p] = org
            if org[0] == "alias" and val is not None:
                # equalities usable by leq()
                st.rel.add((p, org[1], 0))
                st.rel.add((org[1], p, 0))
                for (fa, fb, fc) in list(st.rel):
                    if fa == org[1] and fb != p:
                        st.rel.add((p, fb, fc))
                    if fb == org[1] and fa != p:
                        st.rel.add((fa, p, fc))

    def _arith_rel(self, st, p, op, sa, sb, a, b):
        """difference facts for p = sa op sb"""
        if a is None or b is None or sa is None or sb is None:
            return
        if op == "Add":
            if sb[0] == "c" and sa[0] == "p":
                st.rel.add((sa[1], p, sb[1]))
                st.rel.add((p, sa[1], -sb[1]))
                st.org[p] = ("addc", sa[1], sb[1])
            elif sa[0] == "c" and sb[0] == "p":
                st.rel.add((sb[1], p, sa[1]))
                st.rel.add((p, sb[1], -sa[1]))
                st.org[p] = ("addc", sb[1], sa[1])
            else:
                if sa[0] == "p" and b[0] != -INF:
                    st.rel.add((sa[1], p, b[0]))
                    if b[1] != INF:
                        st.rel.add((p, sa[1], -b[1]))
                if sb[0] == "p" and a[0] != -INF:
                    st.rel.add((sb[1], p, a[0]))
                    if a[1] != INF:
                        st.rel.add((p, sb[1], -a[1]))
        elif op == "Sub":
            if sa[0] == "p" and b[0] != -INF and b[0] >= 0:
                st.rel.add((p, sa[1], b[0]))
                if b[1] != INF:
                    st.rel.add((sa[1], p, -b[1]))
                if sb[0] == "c":
                    st.org[p] = ("addc", sa[1], -sb[1])

    # ---- calls ---------------------------------------------------------------------------------------
    def call(self, st, blk_i, t):
        """returns list of Site for this call and applies the effect on st"""
        c = t.callee()
        cp = norm_path(c.get("rpath") if c and c.get("rkind") == "item" and c.get("rpath") else (c["path"] if c else "<indirect>"))
        cp0 = norm_path(c["path"]) if c else cp
        args = [self.operand(st, a) for a in t.args]
        dest = self.path(t.dest) if t.dest is not None else None
        dty = self.place_ty(t.dest) if t.dest is not None else "?"
        val = None
        sub = {}
        optv = None
        org = None
        name = cp.split("::")[-1]
        sites = []

        def argpath(i):
            """path that argument i points to (if it is a reference temp) or holds"""
            if i >= len(t.args) or t.args[i].place is None:
                return None
            pl = t.args[i].place
            if not pl[1] and pl[0] in self.ptr:
                return self.path(self.ptr[pl[0]])
            p = self.path(pl)
            o = st.org.get(p)
            if o is not None and o[0] == "refto":
                return o[1]
            return p

        def lenof(i):
            q = argpath(i)
            if q is None:
                return LEN_TOP, None
            v = st.iv.get(q + "#len")
            if v is None:
                a = t.args[i]
                # array-typed argument
                ty = self.body.locals[a.place[0]]["ty"] if a.place is not None else ""
                m = re.search(r"\[[^;\]]+; (\d+)\]", ty)
                if m and not a.place[1]:
                    n = int(m.group(1))
                    return (n, n), q + "#len"
            return (v if v is not None else LEN_TOP), q + "#len"

        kind = panic_call_kind(cp) or panic_call_kind(cp0)
        status = None
        detail = ""

        def copy_sub(q, src_sfx, dst_sfx):
            """copy intervals below q+src_sfx to sub[dst_sfx…]"""
            if q is None:
                return
            pre = q + src_sfx
            for kk, vv in st.iv.items():
                if kk == pre:
                    sub[dst_sfx] = vv
                elif kk.startswith(pre) and kk[len(pre):len(pre) + 1] in (".", "#", "@"):
                    sub[dst_sfx + kk[len(pre):]] = vv

        def closure_rets(i):
            """return summary of the closure passed as argument i (or None)"""
            if i >= len(t.args):
                return None
            e = self.x.operand(t.args[i])
            for z in model.walk(e):
                if z[0] == "closure" and z[1] in self.prog.funcs:
                    return ret_summary(self.prog, z[1], self.field_inv)
                if z[0] == "fnref" and z[1] in self.prog.funcs:
                    return ret_summary(self.prog, z[1], self.field_inv)
            return None

        def put_summary(summ, dst_sfx):
            if not summ:
                return
            for sfx, vv in summ.items():
                key = dst_sfx + sfx
                if key in sub:
                    sub[key] = (min(sub[key][0], vv[0]), max(sub[key][1], vv[1]))
                else:
                    sub[key] = vv

        # ---- models ----
        if re.search(r"ops::(try_trait::)?Try>?::branch$", cp0.replace(" ", "")) or cp0.endswith("::branch"):
            q = argpath(0) if t.args and t.args[0].place is not None else None
            if q is not None:
                q = self.path(t.args[0].place)
                copy_sub(q, "@Ok.0", "@Continue.0")
                copy_sub(q, "@Some.0", "@Continue.0")
                cur = st.opt.get(q)
                if cur in ("Ok", "Some"):
                    optv = "Continue"
                elif cur in ("Err", "None"):
                    optv = "Break"
            val = None
            kind = None
        elif re.search(r"(Option|Result)::map_or_else$", cp):
            a = closure_rets(1)
            b = closure_rets(2)
            if a is not None and b is not None:
                keys = set(a) & set(b)
                for k_ in keys:
                    sub[k_] = (min(a[k_][0], b[k_][0]), max(a[k_][1], b[k_][1]))
                for k_ in (set(a) ^ set(b)):
                    # a sub-path present on one side only (e.g. @Ok.0 vs @Err.0) keeps its interval
                    sub[k_] = (a.get(k_) or b.get(k_))
                val = sub.pop("", None)
        elif re.search(r"Option::(map|and_then)$", cp) and closure_rets(1) is not None:
            summ = closure_rets(1)
            q = self.path(t.args[0].place) if t.args[0].place is not None else None
            cur = st.opt.get(q) if q else None
            if name == "map":
                put_summary(summ, "@Some.0")
                if cur in ("Some", "None"):
                    optv = cur
            else:
                put_summary(summ, "")
                sub.pop("", None)
                if cur == "None":
                    optv = "None"
        elif re.search(r"Result::(map|and_then)$", cp) and closure_rets(1) is not None:
            summ = closure_rets(1)
            q = self.path(t.args[0].place) if t.args[0].place is not None else None
            cur = st.opt.get(q) if q else None
            if name == "map":
                put_summary(summ, "@Ok.0")
                if cur in ("Ok", "Err"):
                    optv = cur
            else:
                put_summary(summ, "")
                sub.pop("", None)
        elif c is not None and c.get("rkind") == "item" and c.get("rpath") in self.prog.funcs and not panic_call_kind(cp):
            summ = ret_summary(self.prog, c["rpath"], self.field_inv)
            if summ:
                put_summary(summ, "")
                val = sub.pop("", None)
        elif re.search(r"(slice::.*|Vec|VecDeque|String|str|HashMap|HashSet|BTreeMap|BTreeSet)::len$", cp) or cp.endswith("core::slice::len") or (name == "len" and re.search(r"slice|vec|str|collections", cp)):
            val, q = lenof(0)
            if q:
                org = ("alias", q)
        elif name == "is_empty" and re.search(r"slice|vec|str|collections|Vec|String", cp):
            ln, q = lenof(0)
            tr = 1 if ln[1] == 0 else (0 if ln[0] >= 1 else None)
            val = (tr, tr) if tr is not None else (0, 1)
            if q:
                org = ("cmp", "Eq", ("p", q), ("c", 0))
        elif re.search(r"cmp::(impls::)?(<impl .*Ord for \w+>|Ord)::cmp$", cp) and len(t.args) == 2:
            # `match a.cmp(&b) { Less => .., Equal => .., Greater => .. }`: the arm taken is a comparison of the two operands
            qa, qb = argpath(0), argpath(1)
            if qa and qb:
                org = ("ord3", qa, qb)
        elif re.search(r"option::Option::(is_some|is_none)$", cp):
            q = argpath(0)
            cur = st.opt.get(q) if q else None
            pol = name == "is_some"
            if cur in ("Some", "None"):
                tr = int((cur == "Some") == pol)
                val = (tr, tr)
            else:
                val = (0, 1)
            if q:
                org = ("is", q, "Some", pol)
        elif re.search(r"result::Result::(is_ok|is_err)$", cp):
            q = argpath(0)
            cur = st.opt.get(q) if q else None
            pol = name == "is_ok"
            if cur in ("Ok", "Err"):
                tr = int((cur == "Ok") == pol)
                val = (tr, tr)
            else:
                val = (0, 1)
            if q:
                org = ("is", q, "Ok", pol)
        elif re.search(r"option::Option::(as_ref|as_mut|as_deref|as_deref_mut|cloned|copied|map|inspect)$", cp) or \
                (re.search(r"Clone::clone$", cp0) and "Option<" in dty):
            q = argpath(0)
            cur = st.opt.get(q) if q else None
            if cur in ("Some", "None"):
                optv = cur
            if q and name in ("as_ref", "as_mut", "as_deref", "as_deref_mut"):
                # the result has the variant of the option it borrows: a later test of the result (`match x.as_ref() { Some(..) => .. }`) decides the
                # variant of `x` as well
                org = ("optalias", q)
            if q and name in ("cloned", "copied", "clone"):
                for kk, vv in st.iv.items():
                    if kk.startswith(q + "@"):
                        sub[kk[len(q):]] = vv
        elif re.search(r"result::Result::(as_ref|as_mut|map|map_err|inspect|inspect_err)$", cp):
            q = argpath(0)
            cur = st.opt.get(q) if q else None
            if cur in ("Ok", "Err"):
                optv = cur
            if q and name in ("map_err", "inspect", "inspect_err"):
                # the Ok payload is untouched
                for kk, vv in st.iv.items():
                    if kk.startswith(q + "@Ok.0"):
                        sub[kk[len(q):]] = vv
        elif re.search(r"result::Result::ok$", cp):
            cur = st.opt.get(argpath(0) or "")
            optv = {"Ok": "Some", "Err": "None"}.get(cur)
        elif re.search(r"option::Option::(unwrap|expect)$", cp):
            q = argpath(0)
            cur = st.opt.get(q) if q else None
            if cur == "Some":
                status, detail = "AUTO", "%s is Some here" % _pp(q)
            else:
                status, detail = "open", "Option not known to be Some"
            if q:
                for kk, vv in st.iv.items():
                    if kk.startswith(q + "@Some.0"):
                        rest = kk[len(q + "@Some.0"):]
                        if rest == "":
                            val = vv
                        else:
                            sub[rest] = vv
                if dest is not None:
                    org = ("unwrapof", q)
        elif re.search(r"result::Result::(unwrap|expect)$", cp):
            q = argpath(0)
            cur = st.opt.get(q) if q else None
            if cur == "Ok":
                status, detail = "AUTO", "%s is Ok here" % _pp(q)
            else:
                status, detail = "open", "Result not known to be Ok"
        elif re.search(r"(unwrap_or|unwrap_or_default|unwrap_or_else)$", cp):
            val = ty_bounds(dty)
        elif re.search(r"cmp::(Ord::)?(min|max)$|cmp::(min|max)$", cp) or (name in ("min", "max") and len(args) == 2 and re.search(r"core::cmp|Ord", cp0 + cp)):
            a, b = args[0][0], args[1][0]
            if a is not None and b is not None:
                val = (min(a[0], b[0]), min(a[1], b[1])) if name == "min" else (max(a[0], b[0]), max(a[1], b[1]))
                if dest:
                    for (iv_, s_) in ((a, args[0][1]), (b, args[1][1])):
                        pass
            if name == "min" and dest:
                self._pending_rel = [(dest, args[0][1]), (dest, args[1][1])]
        elif re.search(r"num::.*::saturating_sub$", cp):
            a, b = args[0][0], args[1][0]
            if a is not None and b is not None:
                val = (max(0, a[0] - b[1]) if b[1] != INF else 0, max(0, a[1] - b[0]))
                self._pending_rel = [(dest, args[0][1])]
        elif re.search(r"num::.*::(checked_sub|checked_add|checked_mul|checked_div|checked_shl|checked_shr|checked_rem)$", cp):
            a, b = args[0][0], args[1][0]
            bnd = None
            m = re.search(r"Option<(\w+)>", dty)
            if m:
                bnd = ty_bounds(m.group(1))
            res = self.binop({"checked_sub": "Sub", "checked_add": "Add", "checked_mul": "Mul", "checked_div": "Div",
                              "checked_shl": "Shl", "checked_shr": "Shr", "checked_rem": "Rem"}[name], a, b, None)
            if res is not None and bnd is not None:
                if name in ("checked_shl", "checked_shr"):
                    bits = {255: 8, 65535: 16}.get(bnd[1], 0) or int(bnd[1]).bit_length()
                    if b is not None and b[1] < bits:
                        optv = "Some"
                    sub["@Some.0"] = bnd
                else:
                    if res[0] >= bnd[0] and res[1] <= bnd[1]:
                        optv = "Some"
                    sub["@Some.0"] = (max(res[0], bnd[0]), min(res[1], bnd[1]))
        elif re.search(r"num::.*::(wrapping_\w+|overflowing_\w+|to_be_bytes|to_le_bytes|from_be_bytes|from_le_bytes|leading_zeros|trailing_zeros|count_ones)$", cp):
            val = ty_bounds(dty)
            m = re.match(r"^\[u8; (\d+)\]$", dty)
            if m:
                sub["#len"] = (int(m.group(1)), int(m.group(1)))
            if name in ("leading_zeros", "trailing_zeros", "count_ones"):
                val = (0, 128)
        elif re.search(r"(div_ceil|div_floor)$", cp) and len(args) == 2:
            a, b = args[0][0], args[1][0]
            if b is not None and b[0] >= 1:
                status, detail = "AUTO", "divisor in [%s, %s]" % b
                if a is not None and a[0] >= 0:
                    if name == "div_ceil":
                        val = (-(-a[0] // b[1]) if b[1] != INF else (1 if a[0] > 0 else 0), -(-a[1] // b[0]) if a[1] != INF else INF)
                    else:
                        val = (a[0] // b[1] if b[1] != INF else 0, a[1] // b[0] if a[1] != INF else INF)
            else:
                status, detail = "open", "divisor may be 0 (range %s)" % (b,)
            kind = "int-div"
        elif re.search(r"convert::(From|Into).*::(from|into)$", cp0) and args and args[0][0] is not None and ty_bounds(dty):
            val = self.clamp(args[0][0], dty)
            if args[0][1] and args[0][1][0] == "p" and val == args[0][0]:
                org = ("alias", args[0][1][1])
        elif re.search(r"convert::(AsRef|AsMut).*::(as_ref|as_mut)$|borrow::Borrow.*::borrow$|ops::(deref::)?Deref(Mut)?.*::deref(_mut)?$|Vec::as_slice$|Vec::as_mut_slice$|String::as_bytes$|str::as_bytes$|String::as_str$", cp0) \
                or re.search(r"Vec::as_slice$|Vec::as_mut_slice$|::as_bytes$|slice::.*::as_ref$|slice::.*::iter$", cp):
            ln, q = lenof(0)
            if ln != LEN_TOP or q:
                sub["#len"] = ln
                if q:
                    self._pending_alias = (dest + "#len", q) if dest else None
        elif re.search(r"convert::TryInto.*::try_into$|convert::TryFrom.*::try_from$", cp0):
            m = re.search(r"Result<\[u8; (\d+)\]", dty) or re.search(r"Result<&\[u8; (\d+)\]", dty)
            if m:
                n = int(m.group(1))
                ln, q = lenof(0)
                if ln == (n, n):
                    optv = "Ok"
            else:
                m2 = re.search(r"Result<(\w+),", dty)
                if m2 and ty_bounds(m2.group(1)) and args and args[0][0] is not None:
                    tb = ty_bounds(m2.group(1))
                    a = args[0][0]
                    if a[0] >= tb[0] and a[1] <= tb[1]:
                        optv = "Ok"
                    sub["@Ok.0"] = (max(a[0], tb[0]), min(a[1], tb[1]))
        elif re.search(r"ops::(index::)?Index(Mut)?.*::index(_mut)?$", cp0):
            kind = "index"
            ln, q = lenof(0)
            ity = (c.get("substs") or ["", ""])[1] if c else ""
            ip = None
            if len(t.args) > 1 and t.args[1].place is not None:
                ip = self.path(t.args[1].place)
            if re.search(r"ops::(range::)?Range<", ity) and ip:
                s_ = st.iv.get(ip + ".start", (0, INF))
                e_ = st.iv.get(ip + ".end", (0, INF))
                ok1 = s_[1] <= e_[0] or self.leq(st, ("p", ip + ".start"), ("p", ip + ".end"), 0)
                ok2 = e_[1] <= ln[0] or (q and self.leq(st, ("p", ip + ".end"), ("p", q), 0))
                if ok1 and ok2:
                    status, detail = "AUTO", "start %s <= end %s <= len %s" % (s_, e_, ln)
                else:
                    status, detail = "open", "range [%s..%s] vs len %s%s" % (s_, e_, ln, "" if ok1 else " (start<=end unproven)")
                lo = max(0, e_[0] - s_[1]) if s_[1] != INF else 0
                hi = e_[1] - s_[0] if e_[1] != INF else ln[1]
                sub["#len"] = (lo, max(lo, hi))
                self._range_len = (dest, ip)
            elif re.search(r"RangeFrom<", ity) and ip:
                s_ = st.iv.get(ip + ".start", (0, INF))
                ok = s_[1] <= ln[0] or (q and self.leq(st, ("p", ip + ".start"), ("p", q), 0))
                status, detail = ("AUTO", "start %s <= len %s" % (s_, ln)) if ok else ("open", "start %s vs len %s" % (s_, ln))
                sub["#len"] = (max(0, ln[0] - s_[1]) if s_[1] != INF else 0, max(0, ln[1] - s_[0]) if ln[1] != INF else INF)
                if ok and q and dest and s_[0] >= 1:
                    self._pending_rel2 = [(dest + "#len", q, s_[0])]
            elif re.search(r"RangeTo<", ity) and ip:
                e_ = st.iv.get(ip + ".end", (0, INF))
                ok = e_[1] <= ln[0] or (q and self.leq(st, ("p", ip + ".end"), ("p", q), 0))
                status, detail = ("AUTO", "end %s <= len %s" % (e_, ln)) if ok else ("open", "end %s vs len %s" % (e_, ln))
                sub["#len"] = e_
            elif re.search(r"RangeFull", ity):
                status, detail = "AUTO", "full range"
                sub["#len"] = ln
            elif re.search(r"RangeInclusive|RangeToInclusive", ity):
                status, detail = "open", "inclusive range not modelled"
            elif re.search(r"HashMap|BTreeMap", cp + " ".join(c.get("substs") or [])):
                status, detail = "open", "map index panics on a missing key"
            else:
                i_ = args[1][0] if len(args) > 1 else None
                ok = i_ is not None and (i_[1] < ln[0] or (q and args[1][1] and self.leq(st, args[1][1], ("p", q), 1)))
                status, detail = ("AUTO", "index %s < len %s" % (i_, ln)) if ok else ("open", "index %s vs len %s" % (i_, ln))
        elif re.search(r"slice::.*::(split_at|split_at_mut)$", cp):
            # panics when mid > len; the halves have mid and len - mid elements
            ln, q = lenof(0)
            m_ = args[1][0] if len(args) > 1 and args[1][0] is not None else (0, INF)
            ok = m_[1] <= ln[0] or (q and len(args) > 1 and args[1][1] and self.leq(st, args[1][1], ("p", q), 0))
            status, detail = ("AUTO", "mid %s <= len %s" % (m_, ln)) if ok else ("open", "mid %s vs len %s" % (m_, ln))
            sub[".0#len"] = (max(0, m_[0]), m_[1])
            sub[".1#len"] = (max(0, ln[0] - m_[1]) if m_[1] != INF else 0, max(0, ln[1] - m_[0]) if ln[1] != INF else INF)
        elif re.search(r"slice::.*::copy_from_slice$", cp):
            l0, q0 = lenof(0)
            l1, q1 = lenof(1)
            ok = (l0[0] == l0[1] == l1[0] == l1[1]) or (q0 and q1 and self.leq(st, ("p", q0), ("p", q1), 0) and self.leq(st, ("p", q1), ("p", q0), 0))
            status, detail = ("AUTO", "both lengths %s" % (l0,)) if ok else ("open", "dst len %s vs src len %s" % (l0, l1))
        elif re.search(r"slice::.*::to_vec$|slice::.*::to_owned$|Vec.*Clone.*::clone$", cp) or (re.search(r"Clone::clone$", cp0) and "Vec<" in dty):
            ln, q = lenof(0)
            sub["#len"] = ln
        elif re.search(r"time::Duration::(div_f64|div_f32)$", cp):
            status, detail = "open", "Duration / float: panics when the result is not finite (divisor 0)"
        elif kind == "alloc":
            status = None
            kind = None
        # ---- generic site status for panicking APIs without a model ----
        if kind is not None and status is None:
            if kind == "panic":
                status, detail = "open", "explicit panic reachable"
            elif kind == "lock":
                kind = None
            else:
                status, detail = "open", "no discharge rule for this API"
        # ---- effects: kill what &mut arguments may write ----
        for i, a in enumerate(t.args):
            if a.place is None:
                continue
            aty = t.aty[i] if i < len(t.aty) else ""
            if aty.startswith("&mut ") or aty.startswith("*mut "):
                q = argpath(i)
                keep_len = re.search(r"::(get_mut|iter_mut|index_mut|as_mut|first_mut|last_mut|as_mut_slice|deref_mut|copy_from_slice|fill|sort|sort_by|reverse|swap|get|borrow_mut|lock|write_all|flush)$", cp) is not None
                if q is not None:
                    saved = st.iv.get(q + "#len") if keep_len else None
                    # Option::as_mut / as_deref_mut / Result::as_mut hand out a reference to the payload: the variant cannot change through them
                    saved_opt = st.opt.get(q) if re.search(r"(Option|Result)(<.*>)?::(as_mut|as_deref_mut)$", cp) else None
                    st.kill(q)
                    if saved is not None:
                        st.iv[q + "#len"] = saved
                    if saved_opt is not None:
                        st.opt[q] = saved_opt
                    if re.search(r"Vec::push$|VecDeque::push_back$|VecDeque::push_front$", cp):
                        pass
                else:
                    st.kill_prefix_roots(lambda k: not k.startswith("_"))
        if dest is not None and "[*]" in dest:
            st.kill(dest)
            dest = None
        if dest is not None:
            st.kill(dest)
            if org is not None and org[0] in ("alias", "addc") and "[*]" in org[1]:
                org = None
            if val is None and not sub:
                val = ty_bounds(dty)
            if val is not None:
                st.iv[dest] = val
            for sfx, vv in sub.items():
                st.iv[dest + sfx] = vv
            if optv is not None:
                st.opt[dest] = optv
            if org is not None:
                st.org[dest] = org
                if org[0] == "alias":
                    st.rel.add((dest, org[1], 0))
                    st.rel.add((org[1], dest, 0))
            pr = getattr(self, "_pending_rel", None)
            if pr:
                for (d_, s_) in pr:
                    if s_ and s_[0] == "p":
                        st.rel.add((d_, s_[1], 0))
                self._pending_rel = None
            pa = getattr(self, "_pending_alias", None)
            if pa:
                st.rel.add((pa[0], pa[1], 0))
                st.rel.add((pa[1], pa[0], 0))
                st.org[pa[0]] = ("alias", pa[1])
                self._pending_alias = None
            pr2 = getattr(self, "_pending_rel2", None)
            if pr2:
                for f in pr2:
                    st.rel.add(f)
                self._pending_rel2 = None
            rl = getattr(self, "_range_len", None)
            if rl and rl[0] == dest:
                # len(dest) + start == end
                ip = rl[1]
                s_ = st.iv.get(ip + ".start")
                if s_ is not None and s_[0] == s_[1]:
                    st.rel.add((dest + "#len", ip + ".end", s_[0]))
                    st.rel.add((ip + ".end", dest + "#len", -s_[0]))
                self._range_len = None
        if kind is not None and status is not None:
            txt = show(self.x.call_expr(blk_i, t, self.x.depth), 160)
            sites.append(Site(self.func, blk_i, kind, txt, t.sp, status, detail, t.sp[5] if t.sp else []))
        return sites

    # ---- driver ----------------------------------------------------------------------------------------
    def initial(self):
        st = State()
        b = self.body
        for l in range(1, b.argc + 1):
            nm = b.names.get(l)
            if nm and nm in self.params:
                if isinstance(self.params[nm], str):
                    st.opt["%s'%d" % (nm, l)] = self.params[nm]     # an enum parameter assumed to hold this variant
                else:
                    st.iv["%s'%d" % (nm, l)] = self.params[nm]
        return st

    def run(self):
        b = self.body
        work = [0]
        self.entry = {0: self.initial()}
        visits = {}
        heads = set()
        try:
            from .loops import natural_loops
            heads = set(h for h, _, _ in natural_loops(b))
        except Exception:
            heads = set()
        out_sites = {}
        steps = 0
        while work:
            steps += 1
            if steps > 20000:
                raise RuntimeError("range analysis did not converge in %s" % self.func.path)
            bi = work.pop(0)
            st = self.entry[bi].copy()
            sites, succs = self.transfer_block(bi, st)
            out_sites[bi] = sites
            for (tgt, s2) in succs:
                if s2 is None:
                    continue
                old = self.entry.get(tgt)
                if old is None:
                    self.entry[tgt] = s2
                    if tgt not in work:
                        work.append(tgt)
                else:
                    j = join(old, s2)
                    visits[tgt] = visits.get(tgt, 0) + 1
                    if tgt in heads and visits[tgt] > 3:
                        j = widen(old, j, visits[tgt])
                    if j.key() != old.key():
                        self.entry[tgt] = j
                        if tgt not in work:
                            work.append(tgt)
        self.sites = []
        for bi in sorted(out_sites):
            if self.body.blocks[bi].cleanup:
                continue
            self.sites.extend(out_sites[bi])
        return self.sites

    def transfer_block(self, bi, st):
        b = self.body
        blk = b.blocks[bi]
        sites = []
        for s in blk.stmts:
            if s.k == "assign":
                self.assign(st, s.lhs, s.rv, bi, s.sp)
            elif s.k == "setdiscr":
                p = self.path(s.lhs)
                st.kill(p)
        t = blk.term
        succs = []
        if t.k == "goto":
            succs.append((t.target, st))
        elif t.k == "return":
            self.exit_states.append((bi, st))
        elif t.k == "drop":
            succs.append((t.target, st))
        elif t.k == "call":
            self.call_states.append((bi, st.copy()))
            sites.extend(self.call(st, bi, t))
            if t.target is not None:
                succs.append((t.target, st))
        elif t.k == "assert":
            sites.extend(self.assert_site(st, bi, t))
            cv, cs = self.operand(st, t.cond)
            s2 = st
            if cs and cs[0] == "p":
                if not self.refine_bool(s2, cs, bool(t.expected)):
                    s2 = None
            if s2 is not None:
                self.after_assert(s2, t)
            succs.append((t.target, s2))
        elif t.k == "switch":
            dv, ds = self.operand(st, t.discr)
            n = len(t.targets)
            for k in range(n + 1):
                s2 = st.copy()
                tgt = t.targets[k][1] if k < n else t.otherwise
                feasible = True
                if k < n:
                    v = t.targets[k][0]
                    feasible = self.assume_eq(s2, ds, dv, v, t.dty)
                else:
                    for (v, _) in t.targets:
                        if not self.assume_ne(s2, ds, dv, v, t.dty, [x for x, _ in t.targets]):
                            feasible = False
                            break
                succs.append((tgt, s2 if feasible else None))
        return sites, succs

    def assume_eq(self, st, ds, dv, v, dty):
        if dv is not None and (v < dv[0] or v > dv[1]):
            return False
        if ds is None or ds[0] != "p":
            return True
        p = ds[1]
        if dty == "bool":
            return self.refine_bool(st, ds, bool(v))
        o = st.org.get(p)
        st.iv[p] = (v, v)
        if o is not None and o[0] == "discr":
            vt = dict((val, nm) for nm, val in o[2])
            nm = vt.get(v)
            cur = st.opt.get(o[1])
            if cur is not None and nm is not None and cur != nm:
                return False
            if nm is not None:
                st.opt[o[1]] = nm
                oo = st.org.get(o[1])
                if oo is not None and oo[0] == "ord3" and nm in ("Less", "Equal", "Greater"):
                    if not self.refine_cmp(st, {"Less": "Lt", "Equal": "Eq", "Greater": "Gt"}[nm], ("p", oo[1]), ("p", oo[2]), True):
                        return False
                if oo is not None and oo[0] == "optalias":
                    c2 = st.opt.get(oo[1])
                    if c2 is not None and c2 != nm:
                        return False
                    st.opt[oo[1]] = nm
        elif o is not None and o[0] == "alias":
            q = o[1]
            w = st.iv.get(q) or (-INF, INF)
            if v < w[0] or v > w[1]:
                return False
            st.iv[q] = (v, v)
            self.propagate(st, q)
        return True

    def assume_ne(self, st, ds, dv, v, dty, allvals):
        if dv is not None and dv[0] == dv[1] == v:
            return False
        if ds is None or ds[0] != "p":
            return True
        p = ds[1]
        if dty == "bool":
            return self.refine_bool(st, ds, not bool(v))
        o = st.org.get(p)
        cur = st.iv.get(p)
        if cur is None and ty_bounds(dty) is not None and "[*]" not in p:
            cur = ty_bounds(dty)
        if cur is not None:
            if cur[0] == v:
                st.iv[p] = (cur[0] + 1, cur[1])
            elif cur[1] == v:
                st.iv[p] = (cur[0], cur[1] - 1)
        if o is not None and o[0] == "discr":
            vt = dict((val, nm) for nm, val in o[2])
            cur = st.opt.get(o[1])
            if cur is not None and vt.get(v) == cur:
                return False
            rest = [nm for val, nm in vt.items() if val not in allvals]
            if len(rest) == 1:
                st.opt[o[1]] = rest[0]
                oo = st.org.get(o[1])
                if oo is not None and oo[0] == "optalias":
                    c2 = st.opt.get(oo[1])
                    if c2 is not None and c2 != rest[0]:
                        return False
                    st.opt[oo[1]] = rest[0]
        elif o is not None and o[0] == "alias":
            q = o[1]
            w = st.iv.get(q)
            if w is None and q.endswith("#len"):
                w = LEN_TOP
            if w is not None:
                if w[0] == w[1] == v:
                    return False
                if w[0] == v:
                    st.iv[q] = (w[0] + 1, w[1])
                elif w[1] == v:
                    st.iv[q] = (w[0], w[1] - 1)
                self.propagate(st, q)
        return True

    def assert_site(self, st, bi, t):
        ak = t.akind
        ops = [self.operand(st, o) for o in t.ops]
        txt = "%s(%s)" % (ak, ", ".join(show(self.x.operand(o), 70) for o in t.ops))
        status, detail = "open", ""
        cv, cs = self.operand(st, t.cond)
        if cv is not None and cv[0] == cv[1] == int(bool(t.expected)):
            status, detail = "AUTO", "condition is always %s" % bool(t.expected)
        if status == "open":
            if ak == "BoundsCheck":
                ln, idx = ops[0], ops[1]
                if ln[0] is not None and idx[0] is not None and idx[0][1] < ln[0][0]:
                    status, detail = "AUTO", "index %s < len %s" % (idx[0], ln[0])
                elif idx[1] is not None and ln[1] is not None and self.leq(st, idx[1], ln[1], 1):
                    status, detail = "AUTO", "index < len by difference facts"
                else:
                    detail = "index %s vs len %s" % (idx[0], ln[0])
            elif ak.startswith("Overflow("):
                op = ak[len("Overflow("):-1]
                a, b = ops[0][0], ops[1][0]
                if op in ("Shl", "Shr"):
                    lty = self.body.locals[t.ops[0].place[0]]["ty"] if t.ops[0].place is not None and not t.ops[0].place[1] else None
                    bits = {"u8": 8, "i8": 8, "u16": 16, "i16": 16, "u32": 32, "i32": 32, "u64": 64, "i64": 64, "usize": 64, "isize": 64, "u128": 128, "i128": 128}.get(lty or "", None)
                    if b is not None and bits and 0 <= b[0] and b[1] < bits:
                        status, detail = "AUTO", "shift amount %s < %d" % (b, bits)
                    else:
                        detail = "shift amount %s (operand type %s)" % (b, lty)
                else:
                    res = self.binop(op, a, b, None)
                    lty = None
                    if t.ops[0].place is not None:
                        lty = self.place_ty(t.ops[0].place)
                    elif t.ops[1].place is not None:
                        lty = self.place_ty(t.ops[1].place)
                    elif t.ops[0].const is not None:
                        lty = t.ops[0].const.get("ty")
                    bnd = ty_bounds(lty or "")
                    if res is not None and bnd is not None and res[0] >= bnd[0] and res[1] <= bnd[1]:
                        status, detail = "AUTO", "%s of %s and %s stays in %s" % (op, a, b, lty)
                    elif op == "Sub" and ops[0][1] is not None and ops[1][1] is not None and bnd is not None and bnd[0] == 0 and self.leq(st, ops[1][1], ops[0][1], 0):
                        status, detail = "AUTO", "subtrahend <= minuend by difference facts"
                    else:
                        detail = "%s of %s and %s in %s" % (op, a, b, lty)
            elif ak in ("DivisionByZero", "RemainderByZero"):
                d = ops[0][0]
                if d is not None and (d[0] >= 1 or d[1] <= -1):
                    status, detail = "AUTO", "divisor %s excludes 0" % (d,)
                else:
                    detail = "divisor %s" % (d,)
            elif ak == "OverflowNeg":
                detail = "negation"
            else:
                detail = ak
        return [Site(self.func, bi, ak.split("(")[0] if not ak.startswith("Overflow(") else ak, txt, t.sp, status, detail, t.sp[5] if t.sp else [])]

    def after_assert(self, st, t):
        ak = t.akind
        if ak == "BoundsCheck":
            ln = self.operand(st, t.ops[0])
            idx = self.operand(st, t.ops[1])
            if ln[1] is not None and idx[1] is not None:
                self.refine_cmp(st, "Lt", idx[1], ln[1], True)
        elif ak.startswith("Overflow(") and not ak.startswith("Overflow(Sh"):
            # the checked result fits its type: find the tuple temp from the condition  (!_7.1)
            cv, cs = self.operand(st, t.cond)
            if cs and cs[0] == "p" and cs[1].endswith(".1"):
                base = cs[1][:-2]
                v = st.iv.get(base + ".0")
                lty = None
                if t.ops[0].place is not None:
                    lty = self.place_ty(t.ops[0].place)
                elif t.ops[1].place is not None:
                    lty = self.place_ty(t.ops[1].place)
                bnd = ty_bounds(lty or "")
                if v is not None and bnd is not None:
                    n = (max(v[0], bnd[0]), min(v[1], bnd[1]))
                    if n[0] <= n[1]:
                        st.iv[base + ".0"] = n
        elif ak in ("DivisionByZero", "RemainderByZero"):
            d = self.operand(st, t.ops[0])
            if d[1] is not None and d[1][0] == "p":
                self.refine_cmp(st, "Ne", d[1], ("c", 0), True)


def _other(v):
    return {"Some": "None", "None": "Some", "Ok": "Err", "Err": "Ok"}.get(v)


def _pp(p):
    return re.sub(r"'\d+", "", p or "?")


def analyse(prog, func, **kw):
    r = Ranges(prog, func, **kw)
    r.run()
    return r


def check_function_sites(ctx, rule, path, params=None, table=None, kinds=None):
    """all panic-capable sites of one function must be AUTO (or reviewed in `table`)"""
    prog = ctx.prog
    f = prog.fn(path)
    ctx.analysed(f.path)
    r = analyse(prog, f, params=params)
    table = table or {}
    for s in r.sites:
        if kinds and not any(s.kind.startswith(k) for k in kinds):
            continue
        if any(e in ("debug_assert", "debug_assert_eq", "debug_assert_ne") for e in s.expn) or _is_log(s.expn):
            continue
        key = s.key()
        if s.status == "AUTO":
            rule.ok(key, s.detail, s.loc, how="AUTO")
        elif key in table:
            rule.ok(key, "reviewed: " + table[key], s.loc, how="TABLE")
        else:
            rule.violation(key, "%s site not discharged: %s" % (s.kind, s.detail), s.loc)
    return r


def _is_log(expn):
    return any(e.startswith("log::") or e in ("$crate::__log", "$crate::log", "format", "format_args", "$crate::__private_api::format_args") for e in expn)


_ret_cache = {}
_ret_busy = set()


def ret_summary(prog, fpath, field_inv=None):
    """{suffix: interval} for the return place of a local function / closure: join over its normal exits of every tracked
    key rooted at _0 ('' is the scalar return value, '@Ok.0', '.0', '#len' … its parts).  Parameters are unconstrained."""
    key = (fpath, tuple(sorted((field_inv or {}).items())))
    if key in _ret_cache:
        return _ret_cache[key]
    if fpath in _ret_busy:
        return {}
    _ret_busy.add(fpath)
    try:
        f = prog.funcs[fpath]
        r = Ranges(prog, f, field_invariants=field_inv)
        r.run()
        out = None
        for (bb, st) in r.exit_states:
            cur = {}
            for k, v in st.iv.items():
                if k == "_0" or (k.startswith("_0") and k[2:3] in (".", "#", "@")):
                    cur[k[2:]] = v
            ov = st.opt.get("_0")
            cur["__variant"] = ov
            if out is None:
                out = cur
            else:
                nv = {}
                for k in set(out) | set(cur):
                    if k == "__variant":
                        continue
                    if k in out and k in cur:
                        nv[k] = (min(out[k][0], cur[k][0]), max(out[k][1], cur[k][1]))
                    else:
                        have, other = (out, cur) if k in out else (cur, out)
                        m = re.match(r"@(\w+)", k)
                        ovar = other.get("__variant")
                        if m and ovar is not None and (ovar != m.group(1) if not isinstance(ovar, set) else m.group(1) not in ovar):
                            nv[k] = have[k]
                va, vb = out.get("__variant"), cur.get("__variant")
                sa = va if isinstance(va, set) else ({va} if va is not None else None)
                sb = vb if isinstance(vb, set) else ({vb} if vb is not None else None)
                nv["__variant"] = (sa | sb) if (sa is not None and sb is not None) else None
                out = nv
        # drop type-wide intervals: they carry no information
        res = {}
        for k, v in (out or {}).items():
            if k == "__variant" or v[0] == -INF or v[1] == INF:
                continue
            res[k] = v
        _ret_cache[key] = res
        return res
    except Exception:
        _ret_cache[key] = {}
        return {}
    finally:
        _ret_busy.discard(fpath)
