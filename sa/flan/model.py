"""E1 — program model over mirdump facts: functions, CFG, dominators, loops,
call graph, access paths, back-substituted expressions."""
import re
import sys

sys.setrecursionlimit(10000)


# --------------------------------------------------------------------------
# places / operands

import re as _re_int
_INT_TY = _re_int.compile(r"^(u8|u16|u32|u64|u128|usize|i8|i16|i32|i64|i128|isize)$")


def mk_place(j):
    """JSON place -> (local, (proj...)) with hashable projection elements."""
    proj = []
    for e in j["p"]:
        if e == "*":
            proj.append(("*",))
        elif e == "?":
            proj.append(("?",))
        elif "f" in e:
            proj.append(("f", e["f"], e["n"], e.get("o", ""), e.get("ty", "")))
        elif "i" in e:
            proj.append(("i", e["i"]))
        elif "ci" in e:
            proj.append(("ci", e["ci"], e["fe"], e.get("ml", 0)))
        elif "ss" in e:
            proj.append(("ss", e["ss"][0], e["ss"][1], e["fe"]))
        elif "d" in e:
            proj.append(("d", e["d"], e["n"]))
        else:
            proj.append(("?",))
    return (j["l"], tuple(proj))


class Op:
    """Operand: kind in {'copy','move','const','rt'}."""
    __slots__ = ("kind", "place", "const")

    def __init__(self, j):
        if "c" in j:
            self.kind, self.place, self.const = "copy", mk_place(j["c"]), None
        elif "m" in j:
            self.kind, self.place, self.const = "move", mk_place(j["m"]), None
        elif "k" in j:
            self.kind, self.place, self.const = "const", None, j["k"]
        else:
            self.kind, self.place, self.const = "rt", None, j

    def is_place(self):
        return self.place is not None

    def fn(self):
        if self.const is not None:
            return self.const.get("fn")
        return None

    def value(self):
        if self.const is not None and "v" in self.const:
            return self.const["v"]
        return None


class Rv:
    __slots__ = ("k", "j", "ops", "place")

    def __init__(self, j):
        self.k = j["k"]
        self.j = j
        self.ops = []
        self.place = None
        if self.k in ("use", "repeat", "cast"):
            self.ops = [Op(j["op"])]
        elif self.k == "bin":
            self.ops = [Op(j["a"]), Op(j["b"])]
        elif self.k == "un":
            self.ops = [Op(j["a"])]
        elif self.k == "aggr":
            self.ops = [Op(x) for x in j["fields"]]
        if self.k in ("ref", "rawptr", "discr"):
            self.place = mk_place(j["place"])


class Stmt:
    __slots__ = ("k", "lhs", "rv", "sp", "vi")

    def __init__(self, j):
        self.k = j["k"]
        self.sp = j.get("sp")
        self.lhs = None
        self.rv = None
        self.vi = None
        if self.k == "assign":
            self.lhs = mk_place(j["lhs"])
            self.rv = Rv(j["rv"])
        elif self.k == "setdiscr":
            self.lhs = mk_place(j["place"])
            self.vi = j["vi"]


class Term:
    __slots__ = ("k", "j", "sp", "discr", "targets", "otherwise", "func", "args", "dest", "target",
                 "unwind", "cond", "expected", "akind", "ops", "place", "dty", "aty", "pty")

    def __init__(self, j):
        self.k = j["k"]
        self.j = j
        self.sp = j.get("sp")
        self.discr = self.func = self.dest = self.cond = self.place = None
        self.targets = []
        self.otherwise = None
        self.args = []
        self.ops = []
        self.target = j.get("t")
        self.unwind = j.get("unwind")
        self.expected = j.get("expected")
        self.akind = j.get("akind")
        self.dty = j.get("dty")
        self.aty = j.get("aty", [])
        self.pty = j.get("pty")
        if self.k == "switch":
            self.discr = Op(j["discr"])
            self.targets = [(v, t) for v, t in j["targets"]]
            self.otherwise = j["otherwise"]
        elif self.k in ("call", "tailcall"):
            self.func = Op(j["func"])
            self.args = [Op(a) for a in j["args"]]
            if "dest" in j:
                self.dest = mk_place(j["dest"])
        elif self.k == "assert":
            self.cond = Op(j["cond"])
            self.ops = [Op(o) for o in j["ops"]]
        elif self.k == "drop":
            self.place = mk_place(j["place"])

    def callee(self):
        """dict describing the statically named callee, or None (indirect call)."""
        if self.func is None:
            return None
        return self.func.fn()

    def callee_path(self):
        c = self.callee()
        if c is None:
            return None
        return c.get("rpath") or c["path"]

    def succs(self, unwind=False):
        k = self.k
        out = []
        if k == "goto":
            out = [self.target]
        elif k == "switch":
            out = [t for _, t in self.targets] + [self.otherwise]
        elif k in ("call", "assert", "drop"):
            if self.target is not None:
                out = [self.target]
            if unwind and self.unwind is not None:
                out.append(self.unwind)
        return out


class Block:
    __slots__ = ("i", "cleanup", "stmts", "term", "cloned_from")

    def __init__(self, i, j):
        self.i = i
        self.cloned_from = j.get("cloned_from")     # normalize.thread_try: this block is a path-specific copy of that block
        self.cleanup = j["cleanup"]
        self.stmts = [Stmt(s) for s in j["stmts"] if s["k"] in ("assign", "setdiscr")]
        self.term = Term(j["term"])


def norm_path(p):
    """strip generic arguments for matching: core::option::Option::<T>::unwrap -> core::option::Option::unwrap"""
    out = []
    depth = 0
    i = 0
    while i < len(p):
        c = p[i]
        if c == "<" and i > 0 and p[i - 1] == ":" and depth == 0 and not p.startswith("<impl ", i):
            # '::<' generic args -> drop including the preceding '::'
            depth = 1
            if out[-2:] == [":", ":"]:
                out = out[:-2]
            i += 1
            continue
        if depth > 0:
            if c == "<":
                depth += 1
            elif c == ">":
                depth -= 1
            i += 1
            continue
        out.append(c)
        i += 1
    return "".join(out)


class Body:
    """A MIR body (function or promoted)."""

    def __init__(self, j, func):
        self.func = func
        self.argc = j["argc"]
        self.locals = j["locals"]
        self.debug = j["debug"]
        self.blocks = [Block(i, b) for i, b in enumerate(j["blocks"])]
        self.names = {}
        self.named_places = []  # (place, name) for projections (closure upvars)
        for d in self.debug:
            v = d["val"]
            if "place" in v:
                pl = mk_place(v["place"])
                if not pl[1]:
                    self.names.setdefault(pl[0], d["name"])
                else:
                    self.named_places.append((pl, d["name"]))
        # shadowed variables: several locals with one source name -> name, name~2, name~3 (in local order)
        byname = {}
        for l in sorted(self.names):
            byname.setdefault(self.names[l], []).append(l)
        for nm, ls in byname.items():
            for k, l in enumerate(ls[1:], start=2):
                self.names[l] = "%s~%d" % (nm, k)
        self._defs = None
        self._preds = {}
        self._dom = {}
        self._reach = {}

    # ---- defs -----------------------------------------------------------
    def defs(self):
        """local -> list of (bb, idx|'term', kind) ; kind in whole|partial|call|borrow_mut"""
        if self._defs is None:
            d = {}
            for b in self.blocks:
                if b.cloned_from is not None:
                    continue      # the same statements as the block it copies: they define the same values, not further ones
                for i, s in enumerate(b.stmts):
                    if s.lhs is not None:
                        kind = "whole" if not s.lhs[1] else ("through" if any(e[0] == "*" for e in s.lhs[1]) else "partial")
                        d.setdefault(s.lhs[0], []).append((b.i, i, kind))
                    if s.rv is not None and s.rv.k in ("ref", "rawptr") and s.rv.j.get("mut"):
                        pl = s.rv.place
                        # &mut of the local itself (not through a deref)
                        if not any(e[0] == "*" for e in pl[1]):
                            d.setdefault(pl[0], []).append((b.i, i, "borrow_mut"))
                t = b.term
                if t.k == "call" and t.dest is not None:
                    kind = "call" if not t.dest[1] else ("through" if any(e[0] == "*" for e in t.dest[1]) else "partial")
                    d.setdefault(t.dest[0], []).append((b.i, "term", kind))
            self._defs = d
        return self._defs

    def single_def(self, local):
        """(bb, idx) of the only definition of an unnamed temp, else None."""
        if local in self.names or local <= self.argc:
            return None
        ds = self.defs().get(local, [])
        whole = [x for x in ds if x[2] in ("whole", "call")]
        if len(whole) == 1 and all(x[2] in ("whole", "call", "borrow_mut", "through") for x in ds):
            # a temp that is mutably borrowed is still a single value holder (e.g. `&mut tmp` passed to a call)
            return whole[0][:2]
        return None

    # ---- CFG ------------------------------------------------------------
    def succs(self, b, unwind=False):
        return self.blocks[b].term.succs(unwind)

    def preds(self, unwind=False):
        if unwind not in self._preds:
            p = {b.i: [] for b in self.blocks}
            for b in self.blocks:
                for s in b.term.succs(unwind):
                    p[s].append(b.i)
            self._preds[unwind] = p
        return self._preds[unwind]

    def reachable(self, start=0, unwind=False, removed=()):
        seen = set()
        st = [start]
        removed = set(removed)
        while st:
            b = st.pop()
            if b in seen or b in removed:
                continue
            seen.add(b)
            st.extend(self.succs(b, unwind))
        return seen

    def normal_blocks(self):
        return [b.i for b in self.blocks if not b.cleanup]

    def return_blocks(self):
        return [b.i for b in self.blocks if b.term.k == "return"]

    def calls(self):
        """iterate (bb, term) over call terminators in non-cleanup blocks"""
        for b in self.blocks:
            if b.term.k == "call" and not b.cleanup:
                yield b.i, b.term


def dominators(nodes, succ, entry):
    """Generic iterative dominator sets: node -> set(dominators). nodes reachable from entry only."""
    # reverse post order
    order = []
    seen = set()

    def dfs(n):
        stack = [(n, iter(succ(n)))]
        seen.add(n)
        while stack:
            node, it = stack[-1]
            adv = False
            for s in it:
                if s not in seen:
                    seen.add(s)
                    stack.append((s, iter(succ(s))))
                    adv = True
                    break
            if not adv:
                order.append(node)
                stack.pop()

    dfs(entry)
    rpo = list(reversed(order))
    idx = {n: i for i, n in enumerate(rpo)}
    preds = {n: [] for n in rpo}
    for n in rpo:
        for s in succ(n):
            if s in idx:
                preds[s].append(n)
    idom = {entry: entry}

    def intersect(a, b):
        while a != b:
            while idx[a] > idx[b]:
                a = idom[a]
            while idx[b] > idx[a]:
                b = idom[b]
        return a

    changed = True
    while changed:
        changed = False
        for n in rpo[1:]:
            ps = [p for p in preds[n] if p in idom]
            if not ps:
                continue
            new = ps[0]
            for p in ps[1:]:
                new = intersect(new, p)
            if idom.get(n) != new:
                idom[n] = new
                changed = True
    return idom, rpo


def dom_chain(idom, n):
    out = []
    if n not in idom:
        return out
    while True:
        out.append(n)
        p = idom[n]
        if p == n:
            break
        n = p
    return out


class Func:
    def __init__(self, j, prog):
        self.prog = prog
        self.j = j
        self.path = j["path"]
        self.kind = j["kind"]
        self.name = j.get("name", "")
        self.vis = j.get("vis")
        self.self_ty = j.get("self_ty")
        self.impl_trait = j.get("impl_trait")
        self.trait_default_of = j.get("trait_default_of")
        self.derived = j.get("derived", False)
        self.parent = j.get("parent")
        self.sp = j.get("sp")
        self.body = Body(j, self)
        self.promoted = [Body(p, self) for p in j.get("promoted", [])]

    @property
    def file(self):
        return self.sp[0] if self.sp else "?"

    @property
    def line(self):
        return self.sp[1] if self.sp else 0

    def root(self):
        """enclosing non-closure function"""
        f = self
        while f.kind == "closure" and f.parent in self.prog.funcs:
            f = self.prog.funcs[f.parent]
        return f

    def __repr__(self):
        return "<Func %s>" % self.path


def loc(sp):
    if not sp:
        return "?"
    return "%s:%d" % (sp[0], sp[1])


class Program:
    def __init__(self, facts):
        self.facts = {"inlined": facts.get("inlined", [])}
        self.crate = facts["crate"]
        self.funcs = {}
        for fj in facts["functions"]:
            f = Func(fj, self)
            self.funcs[f.path] = f
        self.adts = {a["path"]: a for a in facts["adts"]}
        self.impls = [i for i in facts["impls"] if "self_ty" in i]
        self.trait_defs = {i["trait_def"]: i for i in facts["impls"] if "trait_def" in i}
        self.consts = {c["path"]: c for c in facts["consts"]}
        # trait -> [(self_ty, {method name: path})]
        self.trait_impls = {}
        for i in self.impls:
            if "trait" in i:
                self.trait_impls.setdefault(i["trait"], []).append(
                    (i["self_ty"], {m["name"]: m["path"] for m in i["methods"]}, i))
        self._cg = None
        self.closures_of = {}
        for f in self.funcs.values():
            if f.kind == "closure":
                self.closures_of.setdefault(f.j.get("lexical_parent"), []).append(f.path)

    # -- lookup -------------------------------------------------------------
    def fn(self, path, host_ok=False):
        """the function `path`.  host_ok: when a reviewed *private* function no longer exists but its only reviewed caller does, the code was
        folded into that caller: return the caller (for rules that look for statements / calls inside the function and are indifferent to
        what else surrounds them); rules about the function's own return value keep failing closed."""
        f = self.funcs.get(path)
        if f is None and host_ok and path in self.folded():
            return self.funcs[self.folded()[path]]
        if f is None:
            raise AnchorMissing("function not found in facts: %s" % path)
        return f

    def folded(self):
        """{vanished reviewed function: the function that now hosts its code}  (sa/tables/baseline_shapes.json: signatures and call graph of the
        reviewed tree).  Only for functions that had exactly one reviewed caller, which still exists; a function that was renamed was already
        mapped back by renames.py and is not missing."""
        if getattr(self, "_folded", None) is None:
            self._folded = {}
            try:
                from . import renames
                sh = renames.shapes()
            except Exception:
                sh = {}
            callers = sh.get("callers", {})
            fns = sh.get("fns", {})
            pre = self.crate + "|"
            for key, cs in callers.items():
                if not key.startswith(pre):
                    continue
                p = key[len(pre):]
                if p in self.funcs or p.startswith("<") or key not in fns:
                    continue
                present = [c for c in cs if c in self.funcs]
                if len(cs) == 1 and len(present) == 1:
                    self._folded[p] = present[0]
        return self._folded

    def inlined_hosts(self, path):
        """functions into which the (new, non-reviewed) helper `path` was inlined by the E1 pre-pass and which still exist - transitively through
        helpers that were themselves inlined.  Empty when `path` was not inlined or is still a function of the program."""
        if getattr(self, "_inl", None) is None:
            self._inl = {}
            for (caller, callee) in self.facts.get("inlined", []) if hasattr(self, "facts") else []:
                self._inl.setdefault(callee, set()).add(caller)
        if path not in self._inl and "::{closure" in path:
            path = re.sub(r"(::\{closure#\d+\})+$", "", path)     # a closure whose enclosing helper no longer exists
        if path in self.funcs or path not in self._inl:
            return set()
        out, seen, st = set(), set(), [path]
        while st:
            q = st.pop()
            if q in seen:
                continue
            seen.add(q)
            for c in self._inl.get(q, ()):
                if c in self.funcs:
                    out.add(c)
                else:
                    st.append(c)
        return out

    def find(self, regex):
        r = re.compile(regex)
        return [f for p, f in sorted(self.funcs.items()) if r.search(p)]

    def methods_of(self, self_ty):
        return [f for f in self.funcs.values() if f.self_ty == self_ty]

    def adt(self, path):
        a = self.adts.get(path)
        if a is None:
            raise AnchorMissing("ADT not found in facts: %s" % path)
        return a

    def with_closures(self, path):
        """function path + all closures lexically nested in it (transitively)"""
        out = [path]
        i = 0
        while i < len(out):
            out.extend(self.closures_of.get(out[i], []))
            i += 1
        return out

    # -- call graph -----------------------------------------------------------
    def callee_targets(self, callee):
        """local function paths a call with this callee descriptor may reach, plus flag external"""
        if callee is None:
            return [], True
        rk = callee.get("rkind")
        rpath = callee.get("rpath")
        if rk == "item" and rpath in self.funcs:
            return [rpath], False
        if rk in ("closure_once_shim", "fnptr_shim", "reify_shim", "vtable_shim") and rpath in self.funcs:
            return [rpath], False
        tr = callee.get("trait")
        if tr and (rk in ("virtual", "unresolved", "error", None) or (rk == "item" and rpath not in self.funcs and callee.get("local"))):
            outs = []
            name = callee.get("name")
            for st, methods, _ in self.trait_impls.get(tr, []):
                if name in methods and methods[name] in self.funcs:
                    outs.append(methods[name])
            # provided (default) method body
            if callee["path"] in self.funcs:
                outs.append(callee["path"])
            ext = not callee.get("local")
            return outs, True if not outs else ext or rk == "virtual"
        if callee.get("path") in self.funcs:
            return [callee["path"]], False
        return [], True

    def callgraph(self):
        """path -> set(local callee paths); includes edges to closures created in the body
        and to local functions whose address is taken (fn constants used as values)."""
        if self._cg is None:
            cg = {}
            for p, f in self.funcs.items():
                outs = set()
                for body in [f.body] + f.promoted:
                    for b in body.blocks:
                        t = b.term
                        if t.k in ("call", "tailcall"):
                            ts, _ = self.callee_targets(t.callee())
                            outs.update(ts)
                            for a in t.args:
                                fnc = a.fn()
                                if fnc is not None:
                                    ts2, _ = self.callee_targets(fnc)
                                    outs.update(ts2)
                        if t.k == "drop":
                            outs.update(self.drop_targets(t.pty))
                        for s in b.stmts:
                            if s.rv is not None:
                                if s.rv.k == "aggr" and s.rv.j.get("ak") == "closure":
                                    c = s.rv.j["closure"]
                                    if c in self.funcs:
                                        outs.add(c)
                                for o in s.rv.ops:
                                    fnc = o.fn()
                                    if fnc is not None:
                                        ts2, _ = self.callee_targets(fnc)
                                        outs.update(ts2)
                cg[p] = outs
            self._cg = cg
        return self._cg

    def drop_targets(self, pty):
        """local Drop::drop impls that dropping a value of type `pty` may run (by type-name containment;
        conservative: any local type with a Drop impl whose path occurs in the dropped type or in the
        transitive field types of local ADTs occurring in it)."""
        if not pty:
            return set()
        if not hasattr(self, "_dropimpls"):
            self._dropimpls = {}
            for st, methods, _ in self.trait_impls.get("core::ops::Drop", []) + self.trait_impls.get("std::ops::Drop", []):
                if "drop" in methods:
                    self._dropimpls[norm_path(st)] = methods["drop"]
            self._dropclosure = {}
        key = pty
        if key in self._dropclosure:
            return self._dropclosure[key]
        seen_adts = set()
        work = [pty]
        out = set()
        while work:
            t = work.pop()
            tn = norm_path(t)
            for ap, a in self.adts.items():
                if ap in seen_adts:
                    continue
                if re.search(r"(?<![A-Za-z0-9_:])" + re.escape(ap) + r"(?![A-Za-z0-9_])", tn):
                    seen_adts.add(ap)
                    if ap in self._dropimpls:
                        out.add(self._dropimpls[ap])
                    for v in a["variants"]:
                        for fl in v["fields"]:
                            work.append(fl["ty"])
            # dyn Trait objects: any local impl of that trait may be dropped
            for tr, impls in self.trait_impls.items():
                if ("dyn " + tr) in tn:
                    for st, methods, _ in impls:
                        if st not in seen_adts and not st.startswith("&"):
                            work.append(st)
        self._dropclosure[key] = out
        return out

    def reachable_from(self, entries, stop=()):
        cg = self.callgraph()
        seen = set()
        st = list(entries)
        stop = set(stop)
        while st:
            p = st.pop()
            if p in seen or p in stop or p not in cg:
                continue
            seen.add(p)
            st.extend(cg[p])
        return seen

    def callers_of(self, target_pred):
        """all (func, bb, term) call sites whose callee satisfies target_pred(callee_dict)"""
        out = []
        for p, f in sorted(self.funcs.items()):
            for bb, t in f.body.calls():
                c = t.callee()
                if c is not None and target_pred(c):
                    out.append((f, bb, t))
        return out


class AnchorMissing(Exception):
    """A function / type / site named in a rule slot does not exist: fail closed (not a violation)."""


# --------------------------------------------------------------------------
# access paths and expressions

def show_proj(proj):
    s = ""
    for e in proj:
        k = e[0]
        if k == "*":
            continue
        if k == "f":
            s += "." + e[2]
        elif k == "i":
            s += "[_]"
        elif k == "ci":
            s += "[%s%d]" % ("-" if e[2] else "", e[1])
        elif k == "ss":
            s += "[%d..%s%d]" % (e[1], "-" if e[3] else "", e[2])
        elif k == "d":
            s += "@" + e[2]
        else:
            s += ".?"
    return s


class X:
    """Back-substitution of single-definition temporaries into expression trees.

    An expression is a nested tuple:
      ('const', ty, value|text) | ('fnref', path) | ('var', name, projtext)  -- leaf rooted at a named local/param
      ('tmp', local, projtext)                                                -- leaf: temp with several defs
      ('ref', inner) | ('bin', op, a, b) | ('un', op, a) | ('cast', ty, a) | ('discr', a) | ('len', a)
      ('aggr', adt, variant, (fields…)) | ('tuple', (fields…)) | ('closure', path, (captures…))
      ('call', callee_norm_path, (args…), (bb,)) | ('proj', inner, projtext) | ('opaque', text)
    """

    def __init__(self, body, depth=40):
        self.body = body
        self.depth = depth

    def local_name(self, l):
        b = self.body
        if l in b.names:
            return b.names[l]
        if l == 0:
            return "<ret>"
        if l <= b.argc:
            return "arg%d" % l
        return None

    def resolve_idx(self, proj):
        """Index(local) with a constant single-definition local -> ConstantIndex"""
        if not any(e[0] == "i" for e in proj):
            return proj
        b = self.body
        out = []
        for e in proj:
            if e[0] == "i":
                sd = b.single_def(e[1])
                if sd is not None and sd[1] != "term":
                    rv = b.blocks[sd[0]].stmts[sd[1]].rv
                    if rv.k == "use" and rv.ops[0].kind == "const" and isinstance(rv.ops[0].value(), int):
                        out.append(("ci", rv.ops[0].value(), False, 0))
                        continue
            out.append(e)
        return tuple(out)

    def place_type(self, pl):
        local, proj = pl
        ty = self.body.locals[local]["ty"]
        for e in proj:
            if e[0] == "f":
                ty = e[4]
            elif e[0] == "*":
                ty = re.sub(r"^&('\w+ )?(mut )?", "", ty)
                ty = re.sub(r"^\*(const|mut) ", "", ty)
                m = re.match(r"^(std|alloc)::boxed::Box<(.*)>$", ty)
                if m:
                    ty = m.group(2)
            elif e[0] in ("i", "ci"):
                m = re.match(r"^\[(.*?)(; \d+)?\]$", ty)
                ty = m.group(1) if m else "?"
            elif e[0] == "d":
                pass
            else:
                ty = "?"
        return ty

    def place(self, pl, d=None):
        d = self.depth if d is None else d
        local, proj = pl
        proj = self.resolve_idx(proj)
        pl = (local, proj)
        e = self._place(pl, d)
        if e[0] in ("var", "tmp") and len(e) == 3:
            # attach the type of the place when it is still known (leaf not re-projected)
            try:
                e = e + (self.place_type(pl),)
            except Exception:
                pass
        return e

    def _place(self, pl, d):
        local, proj = pl
        b = self.body
        # closure upvars etc.: longest named prefix
        best = None
        if b.named_places:
            pnd = [e for e in proj if e[0] != "*"]
            for (nl, nproj), name in b.named_places:
                if nl != local:
                    continue
                nnd = [e for e in nproj if e[0] != "*"]
                if pnd[:len(nnd)] == nnd and (best is None or len(nnd) > best[0]):
                    best = (len(nnd), name)
            if best is not None:
                return ("var", best[1], show_proj(pnd[best[0]:]))
        nm = self.local_name(local)
        if nm is not None:
            return ("var", nm, show_proj(proj))
        sd = b.single_def(local)
        if sd is None or d <= 0:
            return ("tmp", local, show_proj(proj))
        inner = self.def_expr(sd, d - 1)
        return self.project(inner, proj)

    def project(self, inner, proj):
        if not proj:
            return inner
        k = inner[0]
        if k == "ref" and proj[0][0] == "*":
            return self.project(inner[1], proj[1:])
        if k in ("var",):
            return ("var", inner[1], inner[2] + show_proj(proj))
        if k == "tmp":
            return ("tmp", inner[1], inner[2] + show_proj(proj))
        if k == "bin" and inner[1].endswith("WithOverflow") and proj[0][0] == "f":
            if proj[0][1] == 0:
                return self.project(("bin", inner[1][:-len("WithOverflow")], inner[2], inner[3]), proj[1:])
            return ("ovf", inner)
        if k == "proj":
            return ("proj", inner[1], inner[2] + show_proj(proj))
        if k == "tuple" and proj[0][0] == "f" and proj[0][1] < len(inner[1]):
            return self.project(inner[1][proj[0][1]], proj[1:])
        if k == "closure" and proj[0][0] == "f" and proj[0][1] < len(inner[2]):
            # a captured place read back from the closure value (the body of a closure spliced into its creator, combinators.py)
            return self.project(inner[2][proj[0][1]], proj[1:])
        if proj[0][0] == "*":
            # deref of a call result / other value: transparent
            return self.project(inner, proj[1:])
        sp = show_proj(proj)
        if not sp:
            return inner
        return ("proj", inner, sp)

    def def_expr(self, sd, d):
        bb, idx = sd
        blk = self.body.blocks[bb]
        if idx == "term":
            return self.call_expr(bb, blk.term, d)
        return self.rvalue(blk.stmts[idx].rv, d)

    def call_expr(self, bb, t, d):
        c = t.callee()
        if c is None:
            name = "<indirect>"
        else:
            name = norm_path(c.get("rpath") or c["path"]) if c.get("rkind") == "item" else norm_path(c["path"])
            # `u64::from(x)` / `x.into()` between primitive integers is the lossless widening `x as u64`
            if c.get("path") in ("std::convert::From::from", "core::convert::From::from", "std::convert::Into::into", "core::convert::Into::into") and len(t.args) == 1:
                ss = c.get("substs") or []
                if len(ss) == 2 and all(_INT_TY.match(x or "") for x in ss):
                    to = ss[0] if c["path"].endswith("From::from") else ss[1]
                    return ("cast", to, self.operand(t.args[0], d), "IntToInt")
        return ("call", name, tuple(self.operand(a, d) for a in t.args), (bb,))

    def operand(self, op, d=None):
        d = self.depth if d is None else d
        if op.kind in ("copy", "move"):
            return self.place(op.place, d)
        if op.kind == "const":
            c = op.const
            if "fn" in c:
                return ("fnref", norm_path(c["fn"].get("rpath") or c["fn"]["path"]))
            if "promoted" in c:
                pb = self.body.func.promoted[c["promoted"]]
                return X(pb, d).ret_expr()
            if "v" in c:
                return ("const", c["ty"], c["v"])
            return ("const", c["ty"], c.get("t", "?"))
        return ("opaque", "rt")

    def ret_expr(self):
        """expression of _0 for straight-line promoted bodies"""
        b = self.body
        ds = [x for x in b.defs().get(0, []) if x[2] in ("whole", "call")]
        if len(ds) == 1:
            return self.def_expr(ds[0][:2], self.depth - 1)
        return ("opaque", "promoted")

    def rvalue(self, rv, d):
        k = rv.k
        if k == "use":
            return self.operand(rv.ops[0], d)
        if k == "ref" or k == "rawptr":
            return ("ref", self.place(rv.place, d))
        if k == "bin":
            return ("bin", rv.j["op"], self.operand(rv.ops[0], d), self.operand(rv.ops[1], d))
        if k == "un":
            if rv.j["op"] == "PtrMetadata":
                return ("len", self.operand(rv.ops[0], d))
            return ("un", rv.j["op"], self.operand(rv.ops[0], d))
        if k == "cast":
            inner = self.operand(rv.ops[0], d)
            # Box<T> deref as elaborated by rustc: transmute(box.0.pointer) as *const T  ==> the box itself
            if rv.j["kind"] == "Transmute" and rv.j["ty"].startswith("*const ") and inner[0] in ("var", "tmp", "proj") \
                    and inner[2].endswith(".0.pointer"):
                return (inner[0], inner[1], inner[2][:-len(".0.pointer")])
            return ("cast", rv.j["ty"], inner, rv.j["kind"])
        if k == "discr":
            return ("discr", self.place(rv.place, d))
        if k == "aggr":
            ak = rv.j.get("ak")
            fs = tuple(self.operand(o, d) for o in rv.ops)
            if ak == "adt":
                return ("aggr", rv.j["adt"], rv.j["variant"], fs, tuple(rv.j.get("fnames", [])))
            if ak == "closure":
                return ("closure", rv.j["closure"], fs)
            if ak == "tuple":
                return ("tuple", fs)
            return ("array", fs)
        if k == "repeat":
            return ("repeat", self.operand(rv.ops[0], d), rv.j.get("n"))
        return ("opaque", k)


def show(e, maxlen=400):
    s = _show(e)
    if len(s) > maxlen:
        s = s[:maxlen] + "…"
    return s


_BIN = {"Add": "+", "Sub": "-", "Mul": "*", "Div": "/", "Rem": "%", "BitAnd": "&", "BitOr": "|", "BitXor": "^",
        "Shl": "<<", "Shr": ">>", "Eq": "==", "Ne": "!=", "Lt": "<", "Le": "<=", "Gt": ">", "Ge": ">=",
        "AddWithOverflow": "+", "SubWithOverflow": "-", "MulWithOverflow": "*",
        "AddUnchecked": "+", "SubUnchecked": "-", "MulUnchecked": "*", "ShlUnchecked": "<<", "ShrUnchecked": ">>",
        "Offset": "offset", "Cmp": "cmp"}


def short_callee(p):
    """display name: last type segment + method"""
    p = norm_path(p)
    if p.startswith("<") and ">::" in p:
        inner, m = p.rsplit(">::", 1)
        inner = inner[1:]
        ty = inner.split(" as ", 1)[0] if " as " in inner else inner
        ty = re.sub(r"<.*", "", ty)
        ty = ty.replace("&", "").replace("mut ", "").replace("(dyn ", "").split(" ")[0]
        return ty.split("::")[-1] + "::" + m
    parts = p.split("::")
    return "::".join(parts[-2:])


def _show(e):
    k = e[0]
    if k == "const":
        return str(e[2])
    if k == "fnref":
        return "fn " + short_callee(e[1])
    if k == "var":
        return e[1] + e[2]
    if k == "tmp":
        return "_%d%s" % (e[1], e[2])
    if k == "ref":
        return "&" + _show(e[1])
    if k == "deref":
        return "*" + _show(e[1])
    if k == "bin":
        return "(%s %s %s)" % (_show(e[2]), _BIN.get(e[1], e[1]), _show(e[3]))
    if k == "un":
        return "%s(%s)" % ({"Not": "!", "Neg": "-"}.get(e[1], e[1]), _show(e[2]))
    if k == "cast":
        return "(%s as %s)" % (_show(e[2]), e[1])
    if k == "discr":
        return "discr(%s)" % _show(e[1])
    if k == "len":
        return "len(%s)" % _show(e[1])
    if k == "aggr":
        names = e[4] if len(e) > 4 else ()
        fs = []
        for i, f in enumerate(e[3]):
            n = names[i] if i < len(names) else str(i)
            fs.append("%s: %s" % (n, _show(f)))
        return "%s::%s{%s}" % (e[1].split("::")[-1], e[2], ", ".join(fs))
    if k == "tuple":
        return "(%s)" % ", ".join(_show(f) for f in e[1])
    if k == "array":
        return "[%s]" % ", ".join(_show(f) for f in e[1])
    if k == "closure":
        return "closure %s(%s)" % (e[1].split("::", 1)[-1], ", ".join(_show(f) for f in e[2]))
    if k == "call":
        return "%s(%s)" % (short_callee(e[1]), ", ".join(_show(a) for a in e[2]))
    if k == "proj":
        return "%s%s" % (_show(e[1]), e[2])
    if k == "ovf":
        return "overflowed(%s)" % _show(e[1])
    if k == "repeat":
        return "[%s; %s]" % (_show(e[1]), e[2])
    return "<%s>" % (e[1] if len(e) > 1 else k)


def walk(e):
    """yield all sub-expressions"""
    yield e
    for x in e[1:]:
        if isinstance(x, tuple):
            if x and isinstance(x[0], str):
                yield from walk(x)
            else:
                for y in x:
                    if isinstance(y, tuple) and y and isinstance(y[0], str):
                        yield from walk(y)


def leaves(e):
    """set of leaf descriptors of an expression: 'var:name.proj', 'const:v', 'call:path', 'fn:path'"""
    out = set()
    for s in walk(e):
        k = s[0]
        if k == "var":
            out.add("var:" + s[1] + s[2])
        elif k == "const":
            out.add("const:" + str(s[2]))
        elif k == "call":
            out.add("call:" + s[1])
        elif k == "fnref":
            out.add("fn:" + s[1])
        elif k == "tmp":
            out.add("tmp:_%d%s" % (s[1], s[2]))
        elif k == "closure":
            out.add("closure:" + s[1])
        elif k == "proj":
            out.add("var:" + show(s, 200))
    return out


def calls_in(e):
    return [s for s in walk(e) if s[0] == "call"]
