"""Build / load MIR facts for a source tree (E0 front-end)."""
import fcntl
import glob
import hashlib
import json
import os
import shutil
import subprocess
import sys
import time

VERIF = os.path.dirname(os.path.dirname(os.path.dirname(os.path.abspath(__file__))))
CACHE = os.path.join(VERIF, ".cache")
DRIVER_DIR = os.path.join(VERIF, "sa", "mirdump")
DRIVER = os.path.join(DRIVER_DIR, "target", "release", "mirdump")

CONFIGS = {
    # name: (cargo args, crates expected)
    "default": (["--lib"], ["flute"]),
    "cli": (["--features", "cli", "--lib", "--bins"], ["flute", "flute_sender", "flute_receiver"]),
    "optel": (["--features", "optel", "--lib"], ["flute"]),
    "openapi": (["--features", "openapi", "--lib"], ["flute"]),
    "python": (["--features", "python", "--lib"], ["flute"]),
}


# dev profile (overflow checks + debug assertions on), unoptimised MIR; the compiler-inserted
# raw-pointer alignment/null checks (Box derefs) are switched off: they only add CFG noise.
RUSTFLAGS = "-Zmir-opt-level=0 -Awarnings -Zmir-enable-passes=-CheckAlignment,-CheckNull"


class FactsError(Exception):
    pass


def _run(cmd, cwd, env, what):
    p = subprocess.run(cmd, cwd=cwd, env=env, stdout=subprocess.PIPE, stderr=subprocess.STDOUT, text=True)
    if p.returncode != 0:
        raise FactsError("%s failed (exit %d):\n%s" % (what, p.returncode, p.stdout[-6000:]))
    return p.stdout


def nightly_sysroot():
    out = subprocess.run(["rustc", "+nightly", "--print", "sysroot"], stdout=subprocess.PIPE, text=True, check=True)
    return out.stdout.strip()


def base_env():
    env = dict(os.environ)
    env["CARGO_NET_OFFLINE"] = "true"
    env.pop("RUSTC_WRAPPER", None)
    env.pop("RUSTFLAGS", None)
    env.pop("CARGO_ENCODED_RUSTFLAGS", None)
    return env


def ensure_driver():
    """Build the rustc_private driver if missing or older than its source."""
    src = [os.path.join(DRIVER_DIR, "src", "main.rs"), os.path.join(DRIVER_DIR, "Cargo.toml")]
    if os.path.exists(DRIVER) and all(os.path.getmtime(DRIVER) >= os.path.getmtime(s) for s in src):
        return DRIVER
    os.makedirs(CACHE, exist_ok=True)
    with open(os.path.join(CACHE, "driver.lock"), "w") as lk:
        fcntl.flock(lk, fcntl.LOCK_EX)
        if os.path.exists(DRIVER) and all(os.path.getmtime(DRIVER) >= os.path.getmtime(s) for s in src):
            return DRIVER
        _run(["cargo", "build", "--offline", "--release"], DRIVER_DIR, base_env(), "building mirdump driver")
    if not os.path.exists(DRIVER):
        raise FactsError("driver binary missing after build")
    return DRIVER


def tree_hash(repo):
    h = hashlib.sha256()
    files = []
    for root, dirs, fs in os.walk(os.path.join(repo, "src")):
        dirs.sort()
        for f in sorted(fs):
            files.append(os.path.join(root, f))
    for f in ("Cargo.toml", "Cargo.lock"):
        p = os.path.join(repo, f)
        if os.path.exists(p):
            files.append(p)
    for p in files:
        h.update(os.path.relpath(p, repo).encode())
        h.update(b"\0")
        with open(p, "rb") as fh:
            h.update(fh.read())
        h.update(b"\0")
    with open(os.path.join(DRIVER_DIR, "src", "main.rs"), "rb") as fh:
        h.update(fh.read())
    return h.hexdigest()[:24]


def build_facts(repo="/repo", cfg="default", verbose=False):
    """Return {crate_name: path-to-json} for `repo` under config `cfg`.

    Facts are content-addressed by a hash of the tree (src/**, Cargo.toml,
    Cargo.lock) and of the driver source; a cached entry is only reused for a
    byte-identical tree.  Otherwise the driver is run through cargo; cargo's
    freshness cache is defeated by deleting the workspace member's fingerprints,
    and the function fails closed if the fact file was not (re)written."""
    repo = os.path.abspath(repo)
    args, crates = CONFIGS[cfg]
    th = tree_hash(repo)
    outdir = os.path.join(CACHE, "facts", cfg, th)
    stamp = os.path.join(outdir, "OK")
    if os.path.exists(stamp):
        return _collect(outdir, crates), th, True
    drv = ensure_driver()
    os.makedirs(os.path.join(CACHE, "target"), exist_ok=True)
    lockp = os.path.join(CACHE, "target", cfg + ".lock")
    with open(lockp, "w") as lk:
        fcntl.flock(lk, fcntl.LOCK_EX)
        if os.path.exists(stamp):
            return _collect(outdir, crates), th, True
        tdir = os.path.join(CACHE, "target", cfg)
        for fp in glob.glob(os.path.join(tdir, "debug", ".fingerprint", "flute-*")):
            shutil.rmtree(fp, ignore_errors=True)
        tmpout = outdir + ".tmp%d" % os.getpid()
        shutil.rmtree(tmpout, ignore_errors=True)
        os.makedirs(tmpout)
        env = base_env()
        env["LD_LIBRARY_PATH"] = os.path.join(nightly_sysroot(), "lib") + ":" + env.get("LD_LIBRARY_PATH", "")
        env["RUSTFLAGS"] = RUSTFLAGS
        env["RUSTC_WORKSPACE_WRAPPER"] = drv
        env["MIRDUMP_OUT"] = tmpout
        env["CARGO_TARGET_DIR"] = tdir
        t0 = time.time()
        out = _run(["cargo", "+nightly", "check", "--offline"] + args, repo, env,
                   "cargo check with mirdump (%s) on %s" % (cfg, repo))
        if verbose:
            sys.stderr.write(out)
        got = _collect(tmpout, crates)
        for c in crates:
            if c not in got:
                raise FactsError("fact file for crate %s missing after cargo check (wrapper skipped?)" % c)
            if os.path.getmtime(got[c]) < t0 - 1:
                raise FactsError("fact file for crate %s is stale" % c)
        shutil.rmtree(outdir, ignore_errors=True)
        os.rename(tmpout, outdir)
        with open(stamp, "w") as fh:
            fh.write("%s %s\n" % (repo, time.time()))
        _gc(os.path.join(CACHE, "facts", cfg), keep=24)
    return _collect(outdir, crates), th, False


def _collect(outdir, crates):
    got = {}
    for p in glob.glob(os.path.join(outdir, "*.json")):
        name = os.path.basename(p).split(".")[0]
        got[name] = p
    return got


def _gc(d, keep):
    ents = [os.path.join(d, e) for e in os.listdir(d) if not e.endswith(".lock")]
    ents = [e for e in ents if os.path.isdir(e) and ".tmp" not in e]
    ents.sort(key=os.path.getmtime, reverse=True)
    for e in ents[keep:]:
        shutil.rmtree(e, ignore_errors=True)


def load(path):
    with open(path) as fh:
        d = json.load(fh)
    # a renamed private field / function is mapped back to its reviewed name (see renames.py); must precede the inliner
    if os.environ.get("FLAN_NO_RENAMES") != "1":
        from . import renames
        cfg = os.path.basename(os.path.dirname(os.path.dirname(os.path.abspath(path))))
        d["renames"] = renames.recover(d, cfg if cfg in CONFIGS else None)
    # functions that are not in the baseline of the reviewed tree are analysed as part of their callers (see inline.py)
    if os.environ.get("FLAN_NO_INLINE") != "1":
        from . import inline
        inline.inline_program(d)
    # Option/Result/bool combinators applied to a closure of this crate are rewritten to the match they stand for (see combinators.py)
    if os.environ.get("FLAN_NO_COMBINATORS") != "1":
        from . import combinators
        combinators.rewrite_program(d)
    # constant boolean joins (`matches!`, `&&`, `||`) are threaded so that flow queries do not see their infeasible paths (see normalize.py)
    if os.environ.get("FLAN_NO_THREAD") != "1":
        from . import normalize
        normalize.normalize_program(d)
    return d
